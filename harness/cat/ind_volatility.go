package cat

import (
	"fmt"
	"math"

	"verifharness/ref"

	"github.com/cinar/indicator/v2/trend"
	"github.com/cinar/indicator/v2/volatility"
)

// Moving-average kinds usable as trend.Ma (the types of package trend that have Compute, IdlePeriod and String).
const (
	maSma = iota
	maEma
	maSmma
	maHma
	maKinds
	// maWma is usable wherever a trend.Ma is accepted, too; it is listed after maKinds so that the existing configuration
	// boxes (Atr, SuperTrend, ...) keep their extent
	maWma = maKinds
)

func volMa(kind, p int) trend.Ma[float64] {
	switch kind {
	case maSma:
		return trend.NewSmaWithPeriod[float64](p)
	case maEma:
		return trend.NewEmaWithPeriod[float64](p)
	case maSmma:
		return trend.NewSmmaWithPeriod[float64](p)
	case maHma:
		return trend.NewHmaWithPeriod[float64](p)
	case maWma:
		return trend.NewWmaWith[float64](p)
	}
	panic("volMa: unknown kind")
}

func volMaRef(kind int, a ref.S, p int) ref.S {
	switch kind {
	case maSma:
		return ref.Sma(a, p)
	case maEma:
		return ref.Ema(a, p)
	case maSmma:
		return ref.Rma(a, p)
	case maHma:
		return ref.Hma(a, p)
	case maWma:
		return ref.Wma(a, p)
	}
	panic("volMaRef: unknown kind")
}

// volBands is the C15 predicate upper >= middle >= lower (outputs in that order).
func volBands(cfg []float64, in [][]float64, pos int, out []float64) string {
	eps := 1e-9 * ref.Scale
	if out[0] < out[1]-eps {
		return fmt.Sprintf("upper band %g below middle band %g", out[0], out[1])
	}
	if out[1] < out[2]-eps {
		return fmt.Sprintf("middle band %g below lower band %g", out[1], out[2])
	}
	return ""
}

// volNonNeg is the C15 predicate out[0] >= 0.
func volNonNeg(what string) func(cfg []float64, in [][]float64, pos int, out []float64) string {
	return func(cfg []float64, in [][]float64, pos int, out []float64) string {
		if out[0] < -1e-9*ref.Scale || math.IsNaN(out[0]) {
			return fmt.Sprintf("%s is %g, must be >= 0", what, out[0])
		}
		return ""
	}
}

// bollinger restates the documented bands: SMA_p +/- 2 * (population) Std_p.
func bollinger(x ref.S, p int) (u, m, l ref.S) {
	m = ref.Sma(x, p)
	d := ref.Scl(ref.Std(x, p), 2)
	return ref.Add(m, d), m, ref.Sub(m, d)
}

// superTrendRef restates the doc comment's band state machine. flagFromEquality selects how UpTrend is
// maintained: true = as documented (UpTrend = SuperTrend == FinalUpperBand, evaluated at every position),
// false = as implemented (a flag that starts false and is toggled only when the branch switches).
func superTrendRef(c []float64, in []ref.S, flagFromEquality bool) ref.S {
	h, l, cl := in[0], in[1], in[2]
	n := h.Len()
	m := c[2]
	atr := volMaRef(I(c, 0), ref.TrueRange(h, l, cl), I(c, 1))
	med := ref.Scl(ref.Add(h, l), 0.5)
	bu := ref.Add(med, ref.Scl(atr, m))
	bl := ref.Sub(med, ref.Scl(atr, m))
	o := ref.New(n)
	s := bu.Start()
	var fu, fl, st float64
	up, ex := false, false
	// A comparison of two quantities that agree within rounding is decided by the last bits of the moving average
	// (the code keeps a running sum, the reference re-adds the window): from such a position on the band recursion
	// is exempt. Exactly equal quantities are trusted on the short series of the tries (no drift yet; the recorded
	// uptrend-flag defect lives there, ATR = 0) and treated as ties on the long series.
	tie := func(a, b float64) bool {
		if a == b {
			return ref.LongSeries
		}
		return math.Abs(a-b) <= 1e-9*math.Max(ref.Scale, math.Max(math.Abs(a), math.Abs(b)))
	}
	for i := s; i < n; i++ {
		if bu.X[i] || bl.X[i] {
			ex = true
		}
		if !ex && i > s {
			pc := cl.V[i-1]
			if tie(bu.V[i], fu) || tie(pc, fu) || tie(bl.V[i], fl) || tie(pc, fl) {
				ex = true
			}
		}
		if ex {
			o.X[i] = true
			continue
		}
		if i == s {
			// the doc is silent on the start: first final bands = basic bands, first value = lower band (as the code)
			fu, fl = bu.V[i], bl.V[i]
			st = fl
			if flagFromEquality {
				up = st == fu
			}
		} else {
			pc := cl.V[i-1]
			if bu.V[i] < fu || pc > fu {
				fu = bu.V[i]
			}
			if bl.V[i] > fl || pc < fl {
				fl = bl.V[i]
			}
			if (up && tie(cl.V[i], fu)) || (!up && tie(cl.V[i], fl)) {
				ex = true
				o.X[i] = true
				continue
			}
			if up {
				if cl.V[i] <= fu {
					st = fu
				} else {
					st = fl
					up = false
				}
			} else {
				if cl.V[i] >= fl {
					st = fl
				} else {
					st = fu
					up = true
				}
			}
			if flagFromEquality {
				up = st == fu
			}
		}
		o.V[i] = st
	}
	return o
}

func init() {
	RegInd(&Ind{
		Name: "volatility.AccelerationBands", In: []string{"H", "L", "C"}, Out: []string{"upper", "middle", "lower"},
		Cfgs: func(t bool) [][]float64 { return Box1(1, Hi(t, 4, 6)) },
		New: func(c []float64) *Inst {
			o := volatility.NewAccelerationBands[float64]()
			o.Period = I(c, 0)
			return &Inst{Obj: o, Idle: o.IdlePeriod(), Compute: F33(o.Compute)}
		},
		Ref: func(c []float64, in []ref.S) []ref.S {
			h, l, cl := in[0], in[1], in[2]
			k := ref.Scl(ref.Div(ref.Sub(h, l), ref.Add(h, l)), 4)
			up := ref.Map2(h, k, func(x, k float64) float64 { return x * (1 + k) })
			lo := ref.Map2(l, k, func(x, k float64) float64 { return x * (1 - k) })
			p := I(c, 0)
			return []ref.S{ref.Sma(up, p), ref.Sma(cl, p), ref.Sma(lo, p)}
		},
		Positive: true,
		PriceDeg: []int{1, 1, 1}, VolDeg: []int{0, 0, 0},
		Range: volBands,
		Note:  "one SMA period for all three bands; positions with High+Low = 0 exempt (and sticky through the SMA)",
	})

	RegInd(&Ind{
		Name: "volatility.Atr", Periods: []int{1}, In: []string{"H", "L", "C"}, Out: []string{"atr"},
		// cfg = [maKind, period]; maKind 0 = SMA (the documented default), 1 = EMA, 2 = SMMA, 3 = HMA
		Cfgs: func(t bool) [][]float64 {
			return Box([]int{0, 1}, []int{maKinds - 1, Hi(t, 4, 6)}, nil)
		},
		New: func(c []float64) *Inst {
			var o *volatility.Atr[float64]
			if I(c, 0) == maSma {
				o = volatility.NewAtrWithPeriod[float64](I(c, 1))
			} else {
				o = volatility.NewAtrWithMa[float64](volMa(I(c, 0), I(c, 1)))
			}
			return &Inst{Obj: o, Idle: o.IdlePeriod(), Compute: F31(o.Compute)}
		},
		Ref: func(c []float64, in []ref.S) []ref.S {
			return []ref.S{volMaRef(I(c, 0), ref.TrueRange(in[0], in[1], in[2]), I(c, 1))}
		},
		PriceDeg: []int{1}, VolDeg: []int{0},
		Range: volNonNeg("ATR"),
		// an HMA of a non-negative series can be negative (2*WMA1 - WMA2 overshoots): property of the chosen MA
		RangeKnown: func(c []float64, in [][]float64, pos int, out []float64) string {
			if I(c, 0) == maHma {
				return "atr-hma-negative"
			}
			return ""
		},
		Note: "TR as documented (no absolute values), first TR at position 1; MA kinds SMA/EMA/SMMA/HMA as documented in package trend (HMA rounding of period/2 and sqrt(period) as the code)",
	})

	RegInd(&Ind{
		Name: "volatility.BollingerBands", In: []string{"X"}, Out: []string{"upper", "middle", "lower"},
		Cfgs: func(t bool) [][]float64 { return Box1(1, Hi(t, 4, 6)) },
		New: func(c []float64) *Inst {
			o := volatility.NewBollingerBandsWithPeriod[float64](I(c, 0))
			return &Inst{Obj: o, Idle: o.IdlePeriod(), Compute: F13(o.Compute)}
		},
		Ref: func(c []float64, in []ref.S) []ref.S {
			u, m, l := bollinger(in[0], I(c, 0))
			return []ref.S{u, m, l}
		},
		PriceDeg: []int{1, 1, 1}, VolDeg: []int{0, 0, 0},
		Range: volBands,
		Note:  "'20-Period' read as the configured period; Std = population standard deviation (MovingStd)",
	})

	RegInd(&Ind{
		Name: "volatility.BollingerBandWidth", In: []string{"X"}, Out: []string{"width"},
		Cfgs: func(t bool) [][]float64 { return Box1(1, Hi(t, 4, 6)) },
		New: func(c []float64) *Inst {
			o := volatility.NewBollingerBandWidth[float64]()
			o.BollingerBands.Period = I(c, 0)
			return &Inst{Obj: o, Idle: o.IdlePeriod(), Compute: F11(o.Compute)}
		},
		Ref: func(c []float64, in []ref.S) []ref.S {
			u, m, l := bollinger(in[0], I(c, 0))
			return []ref.S{ref.Div(ref.Sub(u, l), m)}
		},
		Positive: true,
		PriceDeg: []int{0}, VolDeg: []int{0},
		Range: volNonNeg("band width"),
		Note:  "'Middle BollingerBandWidth' read as the middle band; exempt where the middle band is zero",
	})

	RegInd(&Ind{
		Name: "volatility.ChandelierExit", Periods: []int{0}, In: []string{"H", "L", "C"}, Out: []string{"long", "short"},
		// cfg = [period, multiplier]
		Cfgs: func(t bool) [][]float64 {
			var r [][]float64
			ms := []float64{1, 3}
			if t {
				ms = []float64{1, 2, 3}
			}
			for p := 1; p <= Hi(t, 4, 6); p++ {
				for _, m := range ms {
					r = append(r, []float64{float64(p), m})
				}
			}
			return r
		},
		New: func(c []float64) *Inst {
			o := volatility.NewChandelierExit[float64]()
			o.Period, o.Multiplier = I(c, 0), c[1]
			return &Inst{Obj: o, Idle: o.IdlePeriod(), Compute: F32(o.Compute)}
		},
		Ref: func(c []float64, in []ref.S) []ref.S {
			p := I(c, 0)
			a := ref.Scl(ref.Sma(ref.TrueRange(in[0], in[1], in[2]), p), c[1])
			return []ref.S{ref.Sub(ref.Max(in[0], p), a), ref.Add(ref.Min(in[1], p), a)}
		},
		PriceDeg: []int{1, 1}, VolDeg: []int{0, 0},
		Note: "the comment's '22-Period SMA High/Low' read as the highest high / lowest low of the period (standard definition, and what the code does); ATR = SMA of TR; '22' and '3' read as Period and Multiplier",
	})

	RegInd(&Ind{
		Name: "volatility.DonchianChannel", In: []string{"X"}, Out: []string{"upper", "middle", "lower"},
		// cfg = [Max.Period, Min.Period] (both are exported fields; the constructor sets them equal)
		Cfgs: func(t bool) [][]float64 {
			h := Hi(t, 4, 6)
			return Box([]int{1, 1}, []int{h, h}, func(v []int) bool { return v[0] == v[1] }) // only what the constructor can build: one period (see DESIGN 15)
		},
		New: func(c []float64) *Inst {
			o := volatility.NewDonchianChannelWithPeriod[float64](I(c, 0))
			o.Min.Period = I(c, 1)
			return &Inst{Obj: o, Idle: o.IdlePeriod(), Compute: F13(o.Compute)}
		},
		Ref: func(c []float64, in []ref.S) []ref.S {
			u, l := ref.Max(in[0], I(c, 0)), ref.Min(in[0], I(c, 1))
			return []ref.S{u, ref.Scl(ref.Add(u, l), 0.5), l}
		},
		AsIs: map[string]func(c []float64, in []ref.S) []ref.S{
			// with Max.Period != Min.Period the k-th moving max is paired with the k-th moving min although they
			// start at different positions, and the lower channel is emitted from position Min.Period-1, not IdlePeriod()
			"donchian-unaligned": func(c []float64, in []ref.S) []ref.S {
				u := ref.Max(in[0], I(c, 0))
				l := ref.Lag(ref.Min(in[0], I(c, 1)), I(c, 0)-I(c, 1))
				return []ref.S{u, ref.Scl(ref.Add(u, l), 0.5), l}
			},
		},
		PriceDeg: []int{1, 1, 1}, VolDeg: []int{0, 0, 0},
		Range: volBands,
		Note:  "documented with one period; the two exported period fields are also explored with distinct values, all three outputs taken at the same position",
	})

	RegInd(&Ind{
		Name: "volatility.KeltnerChannel", In: []string{"H", "L", "C"}, Out: []string{"upper", "middle", "lower"},
		// cfg = [ATR period, EMA period] (exported Atr and Ema fields; the constructor sets them equal)
		Cfgs: func(t bool) [][]float64 {
			h := Hi(t, 4, 6)
			return Box([]int{1, 1}, []int{h, h}, func(v []int) bool { return v[0] == v[1] }) // only what the constructor can build: one period (see DESIGN 15)
		},
		New: func(c []float64) *Inst {
			o := volatility.NewKeltnerChannelWithPeriod[float64](I(c, 0))
			o.Ema.Period = I(c, 1)
			return &Inst{Obj: o, Idle: o.IdlePeriod(), Compute: F33(o.Compute)}
		},
		Ref: func(c []float64, in []ref.S) []ref.S {
			a := ref.Scl(ref.Sma(ref.TrueRange(in[0], in[1], in[2]), I(c, 0)), 2)
			m := ref.Ema(in[2], I(c, 1))
			return []ref.S{ref.Add(m, a), m, ref.Sub(m, a)}
		},
		AsIs: map[string]func(c []float64, in []ref.S) []ref.S{
			// with Ema.Period > Atr period + 1 the EMA starts later than the ATR but is not delayed further:
			// the k-th EMA value is paired with the k-th ATR value
			"keltner-unaligned": func(c []float64, in []ref.S) []ref.S {
				a := ref.Scl(ref.Sma(ref.TrueRange(in[0], in[1], in[2]), I(c, 0)), 2)
				m := ref.Ema(in[2], I(c, 1))
				if d := (I(c, 1) - 1) - I(c, 0); d > 0 {
					m = ref.Lag(m, -d)
				}
				return []ref.S{ref.Add(m, a), m, ref.Sub(m, a)}
			},
		},
		PriceDeg: []int{1, 1, 1}, VolDeg: []int{0, 0, 0},
		Range: volBands,
		Note:  "ATR = SMA of TR (the library default); documented with one period, the two period fields are also explored with distinct values",
	})

	RegInd(&Ind{
		Name: "volatility.MovingStd", In: []string{"X"}, Out: []string{"std"},
		Cfgs: func(t bool) [][]float64 { return Box1(1, Hi(t, 4, 6)) },
		New: func(c []float64) *Inst {
			o := volatility.NewMovingStdWithPeriod[float64](I(c, 0))
			return &Inst{Obj: o, Idle: o.IdlePeriod(), Compute: F11(o.Compute)}
		},
		Ref:      func(c []float64, in []ref.S) []ref.S { return []ref.S{ref.Std(in[0], I(c, 0))} },
		PriceDeg: []int{1}, VolDeg: []int{0},
		Range: volNonNeg("standard deviation"),
	})

	RegInd(&Ind{
		Name: "volatility.PercentB", In: []string{"X"}, Out: []string{"percentB"},
		Cfgs: func(t bool) [][]float64 { return Box1(2, Hi(t, 4, 6)) },
		New: func(c []float64) *Inst {
			o := volatility.NewPercentBWithPeriod[float64](I(c, 0))
			return &Inst{Obj: o, Idle: o.IdlePeriod(), Compute: F11(o.Compute)}
		},
		Ref: func(c []float64, in []ref.S) []ref.S {
			u, _, l := bollinger(in[0], I(c, 0))
			return []ref.S{ref.Div(ref.Sub(in[0], l), ref.Sub(u, l))}
		},
		PriceDeg: []int{0}, VolDeg: []int{0},
		Note: "period from 2: with period 1 the band width (denominator) is identically zero; exempt where upper = lower",
	})

	RegInd(&Ind{
		Name: "volatility.Po", In: []string{"H", "L", "C"}, Out: []string{"po"},
		Cfgs: func(t bool) [][]float64 { return Box1(2, Hi(t, 4, 6)) },
		New: func(c []float64) *Inst {
			o := volatility.NewPoWithPeriod[float64](I(c, 0))
			return &Inst{Obj: o, Idle: o.IdlePeriod(), Compute: F31(o.Compute)}
		},
		Ref: func(c []float64, in []ref.S) []ref.S {
			p := I(c, 0)
			pl := ref.Min(ref.Add(in[0], ref.Slope(in[0], p)), p)
			ph := ref.Max(ref.Add(in[1], ref.Slope(in[1], p)), p)
			return []ref.S{ref.Scl(ref.Div(ref.Sub(in[2], pl), ref.Sub(ph, pl)), 100)}
		},
		PriceDeg: []int{0}, VolDeg: []int{0},
		Note: "MLS(period, x, high) read as the regression slope m of the last period highs against the counter x = 1,2,...; period from 2 (the slope's denominator period*sumX2 - sumX^2 is zero for period 1); exempt where PH = PL",
	})

	RegInd(&Ind{
		Name: "volatility.SuperTrend", Periods: []int{1}, In: []string{"H", "L", "C"}, Out: []string{"superTrend"},
		// cfg = [maKind, period, multiplier]; the default constructor uses HMA(14), 2.5
		Cfgs: func(t bool) [][]float64 {
			var r [][]float64
			ms := []float64{1, 2.5}
			if t {
				ms = []float64{1, 2.5, 3}
			}
			for k := 0; k < maKinds; k++ {
				for p := 1; p <= Hi(t, 3, 5); p++ {
					for _, m := range ms {
						r = append(r, []float64{float64(k), float64(p), m})
					}
				}
			}
			return r
		},
		New: func(c []float64) *Inst {
			var o *volatility.SuperTrend[float64]
			if I(c, 0) == maHma {
				o = volatility.NewSuperTrendWithPeriod[float64](I(c, 1), c[2])
			} else {
				o = volatility.NewSuperTrendWithMa[float64](volMa(I(c, 0), I(c, 1)), c[2])
			}
			return &Inst{Obj: o, Idle: o.IdlePeriod(), Compute: F31(o.Compute)}
		},
		Ref: func(c []float64, in []ref.S) []ref.S { return []ref.S{superTrendRef(c, in, true)} },
		AsIs: map[string]func(c []float64, in []ref.S) []ref.S{
			// UpTrend is not re-derived from SuperTrend == FinalUpperBand; it is a flag toggled on branch switches,
			// which differs when the two final bands coincide (ATR = 0)
			"supertrend-uptrend-flag": func(c []float64, in []ref.S) []ref.S {
				return []ref.S{superTrendRef(c, in, false)}
			},
		},
		PriceDeg: []int{1}, VolDeg: []int{0},
		Note: "ATR = MA of TR with the given MA; start (doc silent) as the code: first final bands = basic bands, first value = lower band; UpTrend evaluated as documented (SuperTrend == FinalUpperBand) after every position",
	})

	RegInd(&Ind{
		Name: "volatility.UlcerIndex", In: []string{"X"}, Out: []string{"ui"},
		Cfgs: func(t bool) [][]float64 { return Box1(1, Hi(t, 4, 6)) },
		New: func(c []float64) *Inst {
			o := volatility.NewUlcerIndex[float64]()
			o.Period = I(c, 0)
			return &Inst{Obj: o, Idle: o.IdlePeriod(), Compute: F11(o.Compute)}
		},
		Ref: func(c []float64, in []ref.S) []ref.S {
			p := I(c, 0)
			hi := ref.Max(in[0], p)
			d := ref.Scl(ref.Div(ref.Sub(in[0], hi), hi), 100)
			return []ref.S{ref.Map1(ref.Sma(ref.Mul(d, d), p), math.Sqrt)}
		},
		AsIs: map[string]func(c []float64, in []ref.S) []ref.S{
			// the drawdowns are averaged first and the average is squared: sqrt(SMA(D)^2) = |mean drawdown|, not the root mean square
			"ulcer-mean-not-rms": func(c []float64, in []ref.S) []ref.S {
				p := I(c, 0)
				hi := ref.Max(in[0], p)
				d := ref.Scl(ref.Div(ref.Sub(in[0], hi), hi), 100)
				return []ref.S{ref.Abs(ref.Sma(d, p))}
			},
		},
		Positive: true,
		PriceDeg: []int{0}, VolDeg: []int{0},
		Range: volNonNeg("ulcer index"),
		Note:  "Squared Average = SMA(period) of the squared percentage drawdowns, as documented",
	})
}
