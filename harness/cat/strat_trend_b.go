package cat

import (
	"fmt"

	"verifharness/ref"

	"github.com/cinar/indicator/v2/momentum"
	"github.com/cinar/indicator/v2/strategy"
	smomentum "github.com/cinar/indicator/v2/strategy/momentum"
	strend "github.com/cinar/indicator/v2/strategy/trend"
)

// Strategy catalogue: trend (Qstick .. WeightedClose) and momentum (AwesomeOscillator, StochasticRsi, TripleRsi).

func init() {
	maxI := func(a, b int) int {
		if a > b {
			return a
		}
		return b
	}
	// level rule over two series: a > b Buy, a < b Sell, else Hold, read at position i-lag.
	level2 := func(a, b ref.S, lag int) RuleFn {
		return func(i int, k *Cmp) int {
			x, ok1 := k.Val(a, i-lag)
			y, ok2 := k.Val(b, i-lag)
			if !ok1 || !ok2 || k.Exempt {
				return Hold
			}
			if k.Gt(x, y) {
				return Buy
			}
			if k.Lt(x, y) {
				return Sell
			}
			return Hold
		}
	}
	// level rule against zero.
	sign := func(a ref.S) RuleFn {
		return func(i int, k *Cmp) int {
			x, ok := k.Val(a, i)
			if !ok || k.Exempt {
				return Hold
			}
			if k.Gt(x, 0) {
				return Buy
			}
			if k.Lt(x, 0) {
				return Sell
			}
			return Hold
		}
	}
	ordered2 := func(t bool) [][]float64 {
		h := Hi(t, 3, 4)
		return Box([]int{1, 1}, []int{h, h}, func(v []int) bool { return v[0] <= v[1] })
	}

	// ---------------------------------------------------------------- trend.QstickStrategy
	RegStrat(&Strat{
		Name: "trend.QstickStrategy",
		Cfgs: func(t bool) [][]float64 { return Box1(1, Hi(t, 3, 4)) },
		New: func(c []float64) strategy.Strategy {
			s := strend.NewQstickStrategy()
			s.Qstick.Sma.Period = I(c, 0)
			return s
		},
		// Qstick idle period (period-1) plus one previous value for the cross-over
		Warm: func(c []float64) int { return I(c, 0) },
		Rule: func(c []float64, b Bars) RuleFn {
			q := IndRef("momentum.Qstick", c, b.O, b.C)[0]
			return func(i int, k *Cmp) int {
				cur, ok1 := k.Val(q, i)
				prev, ok2 := k.Val(q, i-1)
				if !ok1 || !ok2 || k.Exempt {
					return Hold
				}
				if k.Ge(cur, 0) && k.Lt(prev, 0) {
					return Buy
				}
				if k.Le(cur, 0) && k.Gt(prev, 0) {
					return Sell
				}
				return Hold
			}
		},
		Cols: func(c []float64, b Bars) map[string]ref.S {
			return map[string]ref.S{"Open": b.O, "Qstick": IndRef("momentum.Qstick", c, b.O, b.C)[0]}
		},
		ScaleFree: true,
		Note:      "cross-over of consecutive Qstick values through zero (mode and the sides of the equalities from the code: current >= 0 and previous < 0 Buy; current <= 0 and previous > 0 Sell); the doc comment only says above/below zero",
	})

	// ---------------------------------------------------------------- trend.SmmaStrategy
	smmaRule := func(lag int) func(c []float64, b Bars) RuleFn {
		return func(c []float64, b Bars) RuleFn {
			s := IndRef("trend.Smma", c[:1], b.C)[0]
			l := IndRef("trend.Smma", c[1:2], b.C)[0]
			return level2(s, l, lag)
		}
	}
	RegStrat(&Strat{
		Name: "trend.SmmaStrategy",
		// cfg = [short period, long period]
		Cfgs: ordered2,
		New:  func(c []float64) strategy.Strategy { return strend.NewSmmaStrategyWith(I(c, 0), I(c, 1)) },
		// SMMA idle period is period-1; level rule, no previous value needed
		Warm: func(c []float64) int { return maxI(I(c, 0), I(c, 1)) - 1 },
		Rule: smmaRule(0),
		AsIs: map[string]func(c []float64, b Bars) RuleFn{
			// Compute shifts the actions by the common PERIOD, not by the common idle period (period-1):
			// every action is published one position late and one action too many is emitted
			"smma-strategy-shift-full-period": smmaRule(1),
		},
		CountKey: func(c []float64, n, got int) string {
			m := maxI(I(c, 0), I(c, 1))
			if (n >= m-1 && got == n+1) || (n < m-1 && got == m) {
				return "smma-strategy-shift-full-period"
			}
			return ""
		},
		Cols: func(c []float64, b Bars) map[string]ref.S {
			return map[string]ref.S{
				"MACD":   IndRef("trend.Smma", c[:1], b.C)[0],
				"Signal": IndRef("trend.Smma", c[1:2], b.C)[0],
			}
		},
		ScaleFree: true,
		Note:      "level test at every position (short > long Buy, long > short Sell) as in the code's inline comments; the doc comment speaks of crossing; short <= long; report columns are named MACD / Signal in the code",
	})

	// ---------------------------------------------------------------- trend.TrimaStrategy
	RegStrat(&Strat{
		Name: "trend.TrimaStrategy",
		// cfg = [short period, long period]
		Cfgs: ordered2,
		New: func(c []float64) strategy.Strategy {
			s := strend.NewTrimaStrategy()
			s.Short.Period, s.Long.Period = I(c, 0), I(c, 1)
			return s
		},
		// TRIMA idle period = period-1 for either parity
		Warm: func(c []float64) int { return maxI(I(c, 0), I(c, 1)) - 1 },
		Rule: func(c []float64, b Bars) RuleFn {
			return level2(IndRef("trend.Trima", c[:1], b.C)[0], IndRef("trend.Trima", c[1:2], b.C)[0], 0)
		},
		Cols: func(c []float64, b Bars) map[string]ref.S {
			return map[string]ref.S{
				"Short": IndRef("trend.Trima", c[:1], b.C)[0],
				"Long":  IndRef("trend.Trima", c[1:2], b.C)[0],
			}
		},
		ScaleFree: true,
		Note:      "level test at every position (short > long Buy, long > short Sell) as in the code; the doc comment speaks of a cross; short <= long",
	})

	// ---------------------------------------------------------------- trend.TripleMovingAverageCrossoverStrategy
	RegStrat(&Strat{
		Name: "trend.TripleMovingAverageCrossoverStrategy",
		// cfg = [fast, medium, slow]
		Cfgs: func(t bool) [][]float64 {
			h := Hi(t, 3, 4)
			return Box([]int{1, 1, 1}, []int{h, h, h}, func(v []int) bool { return v[0] <= v[1] && v[1] <= v[2] })
		},
		New: func(c []float64) strategy.Strategy {
			return strend.NewTripleMovingAverageCrossoverStrategyWith(I(c, 0), I(c, 1), I(c, 2))
		},
		Warm: func(c []float64) int { return I(c, 2) - 1 },
		Rule: func(c []float64, b Bars) RuleFn {
			f := IndRef("trend.Ema", c[:1], b.C)[0]
			m := IndRef("trend.Ema", c[1:2], b.C)[0]
			s := IndRef("trend.Ema", c[2:3], b.C)[0]
			return func(i int, k *Cmp) int {
				fv, ok1 := k.Val(f, i)
				mv, ok2 := k.Val(m, i)
				sv, ok3 := k.Val(s, i)
				if !ok1 || !ok2 || !ok3 || k.Exempt {
					return Hold
				}
				gm, gs := k.Gt(fv, mv), k.Gt(fv, sv)
				if gm && gs {
					return Buy
				}
				lm, ls := k.Lt(fv, mv), k.Lt(fv, sv)
				if lm && ls {
					return Sell
				}
				return Hold
			}
		},
		Cols: func(c []float64, b Bars) map[string]ref.S {
			return map[string]ref.S{
				"Fast":   IndRef("trend.Ema", c[:1], b.C)[0],
				"Medium": IndRef("trend.Ema", c[1:2], b.C)[0],
				"Slow":   IndRef("trend.Ema", c[2:3], b.C)[0],
			}
		},
		ScaleFree: true,
		Note:      "level test at every position (fast above both Buy, fast below both Sell) as in the code; the doc comment speaks of crossing; fast <= medium <= slow",
	})

	// ---------------------------------------------------------------- trend.TrixStrategy
	RegStrat(&Strat{
		Name: "trend.TrixStrategy",
		Cfgs: func(t bool) [][]float64 { return Box1(1, Hi(t, 3, 4)) },
		New: func(c []float64) strategy.Strategy {
			s := strend.NewTrixStrategy()
			s.Trix.Period = I(c, 0)
			return s
		},
		// three chained EMAs (3*(period-1)) plus one previous value
		Warm: func(c []float64) int { return 3*I(c, 0) - 2 },
		Rule: func(c []float64, b Bars) RuleFn { return sign(IndRef("trend.Trix", c, b.C)[0]) },
		Cols: func(c []float64, b Bars) map[string]ref.S {
			return map[string]ref.S{"TRIX": IndRef("trend.Trix", c, b.C)[0]}
		},
		ScaleFree: true,
		Note:      "level test at every position (TRIX > 0 Buy, TRIX < 0 Sell) as in the code; the doc comment speaks of crossing the zero line",
	})

	// ---------------------------------------------------------------- trend.TsiStrategy
	tsiRule := func(tsiOf func(c []float64, b Bars) ref.S) func(c []float64, b Bars) RuleFn {
		return func(c []float64, b Bars) RuleFn {
			t := tsiOf(c, b)
			s := ref.Ema(t, I(c, 2))
			return func(i int, k *Cmp) int {
				tv, ok1 := k.Val(t, i)
				sv, ok2 := k.Val(s, i)
				if !ok1 || !ok2 || k.Exempt {
					return Hold
				}
				p, a := k.Gt(tv, 0), k.Gt(tv, sv)
				if p && a {
					return Buy
				}
				n, u := k.Lt(tv, 0), k.Lt(tv, sv)
				if n && u {
					return Sell
				}
				return Hold
			}
		}
	}
	tsiDoc := func(c []float64, b Bars) ref.S { return IndRef("trend.Tsi", c[:2], b.C)[0] }
	tsiAsIs := func(c []float64, b Bars) ref.S {
		return FindInd("trend.Tsi").AsIs["tsi-smoothing-order-swapped"](c[:2], []ref.S{b.C})[0]
	}
	RegStrat(&Strat{
		Name: "trend.TsiStrategy",
		// cfg = [first smoothing, second smoothing, signal period]
		Cfgs: func(t bool) [][]float64 {
			h := Hi(t, 3, 4)
			return Box([]int{1, 1, 1}, []int{h, h, h}, nil)
		},
		New: func(c []float64) strategy.Strategy { return strend.NewTsiStrategyWith(I(c, 0), I(c, 1), I(c, 2)) },
		// TSI idle (first-1 + second-1 + 1) plus signal EMA idle (signal-1)
		Warm: func(c []float64) int { return I(c, 0) + I(c, 1) + I(c, 2) - 2 },
		Rule: tsiRule(tsiDoc),
		AsIs: map[string]func(c []float64, b Bars) RuleFn{
			"tsi-smoothing-order-swapped": tsiRule(tsiAsIs),
		},
		Cols: func(c []float64, b Bars) map[string]ref.S {
			t := tsiDoc(c, b)
			return map[string]ref.S{"TSI": t, "Signal": ref.Ema(t, I(c, 2))}
		},
		ScaleFree: true,
		Note:      "level test at every position: TSI > 0 and TSI > Signal Buy; TSI < 0 and TSI < Signal Sell (the formula lines of the doc comment); Signal = Ema(signal period, TSI)",
	})

	// ---------------------------------------------------------------- trend.VwmaStrategy
	RegStrat(&Strat{
		Name: "trend.VwmaStrategy",
		// cfg = [VWMA period, SMA period] (two exported indicators; the constructor sets both to 20)
		Cfgs: func(t bool) [][]float64 {
			h := Hi(t, 3, 4)
			// only what the constructor documents: one period for both averages (DESIGN 15)
			return Box([]int{1, 1}, []int{h, h}, func(v []int) bool { return v[0] == v[1] })
		},
		New: func(c []float64) strategy.Strategy {
			s := strend.NewVwmaStrategy()
			s.Vwma.Period, s.Sma.Period = I(c, 0), I(c, 1)
			return s
		},
		Warm: func(c []float64) int { return maxI(I(c, 0), I(c, 1)) - 1 },
		Rule: func(c []float64, b Bars) RuleFn {
			return level2(IndRef("trend.Vwma", c[:1], b.C, b.V)[0], IndRef("trend.Sma", c[1:2], b.C)[0], 0)
		},
		AsIs: map[string]func(c []float64, b Bars) RuleFn{
			// Compute pairs the k-th SMA value with the k-th VWMA value and shifts by Vwma.Period-1:
			// with different periods the SMA is read at position i - vwmaPeriod + smaPeriod
			"vwma-strategy-periods-unsynced": func(c []float64, b Bars) RuleFn {
				pv, ps := I(c, 0), I(c, 1)
				v := IndRef("trend.Vwma", c[:1], b.C, b.V)[0]
				s := IndRef("trend.Sma", c[1:2], b.C)[0]
				return func(i int, k *Cmp) int {
					x, ok1 := k.Val(v, i)
					y, ok2 := k.Val(s, i-pv+ps)
					if !ok1 || !ok2 || k.Exempt {
						return Hold
					}
					if k.Gt(x, y) {
						return Buy
					}
					if k.Lt(x, y) {
						return Sell
					}
					return Hold
				}
			},
		},
		CountKey: func(c []float64, n, got int) string {
			pv, ps := I(c, 0), I(c, 1)
			a, bb := maxI(0, n-ps+1), maxI(0, n-pv+1)
			if bb < a {
				a = bb
			}
			if pv != ps && got != n && got == pv-1+a {
				return "vwma-strategy-periods-unsynced"
			}
			return ""
		},
		Cols: func(c []float64, b Bars) map[string]ref.S {
			return map[string]ref.S{
				"SMA":  IndRef("trend.Sma", c[1:2], b.C)[0],
				"VWMA": IndRef("trend.Vwma", c[:1], b.C, b.V)[0],
			}
		},
		ScaleFree: true,
		Note:      "level test at every position: VWMA above SMA Buy, below Sell, otherwise Hold; both of closings (VWMA weighted by volume); the two periods are separate exported fields",
	})

	// ---------------------------------------------------------------- trend.WeightedCloseStrategy
	wcOf := func(b Bars) ref.S { return IndRef("trend.WeightedClose", nil, b.H, b.L, b.C)[0] }
	RegStrat(&Strat{
		Name: "trend.WeightedCloseStrategy",
		// cfg = [moving average period] (SMA, as built by the constructor)
		Cfgs: func(t bool) [][]float64 { return Box1(1, Hi(t, 3, 4)) },
		New:  func(c []float64) strategy.Strategy { return strend.NewWeightedCloseStrategyWith(I(c, 0)) },
		Warm: func(c []float64) int { return I(c, 0) - 1 },
		Rule: func(c []float64, b Bars) RuleFn {
			w := wcOf(b)
			m := ref.Sma(w, I(c, 0))
			return func(i int, k *Cmp) int {
				x, ok1 := k.Val(w, i)
				y, ok2 := k.Val(m, i)
				if !ok1 || !ok2 || k.Exempt {
					return Hold
				}
				if k.Gt(x, y) {
					return Buy
				}
				return Sell
			}
		},
		Cols: func(c []float64, b Bars) map[string]ref.S {
			w := wcOf(b)
			return map[string]ref.S{"Weighted Close": w, "Moving Average": ref.Sma(w, I(c, 0))}
		},
		ScaleFree: true,
		Note:      "level test at every position: weighted close above its moving average Buy, otherwise Sell; the doc comment is silent on equality, the code gives it to Sell (so there is no Hold after the warm-up; with period 1 the average equals the weighted close and every position is a tie)",
	})

	// the moving average is an exported field of interface type trend.Ma: replacing it is how anything but an SMA is used
	RegStrat(&Strat{
		Name: "trend.WeightedCloseStrategy (Ma replaced)", Periods: []int{0, 2},
		// cfg = [period given to the constructor, kind of the moving average assigned afterwards, its period]
		Cfgs: func(t bool) [][]float64 {
			var r [][]float64
			for _, k := range []int{maSma, maEma, maWma, maHma} {
				for _, p := range [][2]int{{3, 2}, {2, 3}, {2, 4}} {
					r = append(r, []float64{float64(p[0]), float64(k), float64(p[1])})
				}
			}
			return r
		},
		New: func(c []float64) strategy.Strategy {
			s := strend.NewWeightedCloseStrategyWith(I(c, 0))
			s.Ma = volMa(I(c, 1), I(c, 2))
			return s
		},
		Warm: func(c []float64) int { return volMa(I(c, 1), I(c, 2)).IdlePeriod() },
		Rule: func(c []float64, b Bars) RuleFn {
			w := wcOf(b)
			m := volMaRef(I(c, 1), w, I(c, 2))
			return func(i int, k *Cmp) int {
				x, ok1 := k.Val(w, i)
				y, ok2 := k.Val(m, i)
				if !ok1 || !ok2 || k.Exempt {
					return Hold
				}
				if k.Gt(x, y) {
					return Buy
				}
				return Sell
			}
		},
		ScaleFree: true,
		Note:      "as trend.WeightedCloseStrategy with the Ma field reassigned after construction (SMA, EMA, WMA, HMA of another period)",
	})

	// ---------------------------------------------------------------- momentum.AwesomeOscillatorStrategy
	RegStrat(&Strat{
		Name: "momentum.AwesomeOscillatorStrategy",
		// cfg = [short SMA period, long SMA period]
		Cfgs: ordered2,
		New: func(c []float64) strategy.Strategy {
			s := smomentum.NewAwesomeOscillatorStrategy()
			s.AwesomeOscillator.ShortSma.Period, s.AwesomeOscillator.LongSma.Period = I(c, 0), I(c, 1)
			return s
		},
		Warm: func(c []float64) int { return I(c, 1) - 1 },
		Rule: func(c []float64, b Bars) RuleFn { return sign(IndRef("momentum.AwesomeOscillator", c, b.H, b.L)[0]) },
		Cols: func(c []float64, b Bars) map[string]ref.S {
			return map[string]ref.S{"AO": IndRef("momentum.AwesomeOscillator", c, b.H, b.L)[0]}
		},
		ScaleFree: true,
		Note:      "the type has no documented rule; from the code: level test at every position, AO > 0 Buy, AO < 0 Sell, 0 Hold; short <= long",
	})

	// ---------------------------------------------------------------- momentum.StochasticRsiStrategy
	RegStrat(&Strat{
		Name: "momentum.StochasticRsiStrategy", Periods: []int{0},
		// cfg = [period, buyAt, sellAt]
		Cfgs: func(t bool) [][]float64 {
			var r [][]float64
			for p := 2; p <= Hi(t, 3, 4); p++ {
				f := float64(p)
				r = append(r, []float64{f, 0.8, 0.2}, []float64{f, 0.2, 0.8}, []float64{f, 0.5, 0.5})
			}
			// levels at and beyond the ends of the indicator's range [0, 1]: the usual way to switch one side off
			r = append(r, []float64{2, -0.5, 0.8}, []float64{2, 0.2, 1.5}, []float64{3, 0, 1}, []float64{3, -0.5, 1.5})
			return r
		},
		New: func(c []float64) strategy.Strategy {
			s := smomentum.NewStochasticRsiStrategyWith(c[1], c[2])
			s.StochasticRsi = momentum.NewStochasticRsiWithPeriod[float64](I(c, 0))
			return s
		},
		// RSI idle (period) + moving min/max idle (period-1)
		Warm: func(c []float64) int { return 2*I(c, 0) - 1 },
		Rule: func(c []float64, b Bars) RuleFn {
			s := IndRef("momentum.StochasticRsi", []float64{c[0], c[0]}, b.C)[0]
			return func(i int, k *Cmp) int {
				v, ok := k.Val(s, i)
				if !ok || k.Exempt {
					return Hold
				}
				if k.Le(v, c[1]) {
					return Buy
				}
				if k.Ge(v, c[2]) {
					return Sell
				}
				return Hold
			}
		},
		Cols: func(c []float64, b Bars) map[string]ref.S {
			return map[string]ref.S{"Stochastic RSI": IndRef("momentum.StochasticRsi", []float64{c[0], c[0]}, b.C)[0]}
		},
		ScaleFree: true,
		Note:      "the type has no documented rule beyond 'BuyAt / SellAt define the level at which a Buy / Sell action is generated'; from the code (same shape as RsiStrategy): level test, value <= BuyAt Buy, else value >= SellAt Sell; with the defaults BuyAt 0.8 > SellAt 0.2 this never yields Hold",
	})

	// ---------------------------------------------------------------- momentum.TripleRsiStrategy
	// cfg = [rsi period, sma period, down days, buySignalAt, buyAt, sellAt]
	tripleSeries := func(c []float64, b Bars) (ref.S, ref.S) {
		return IndRef("momentum.Rsi", c[:1], b.C)[0], IndRef("trend.Sma", c[1:2], b.C)[0]
	}
	RegStrat(&Strat{
		Name: "momentum.TripleRsiStrategy", Periods: []int{0, 1, 2},
		Cfgs: func(t bool) [][]float64 {
			var r [][]float64
			h := Hi(t, 3, 4)
			for rp := 1; rp < h; rp++ {
				for sp := rp + 1; sp <= h; sp++ { // documented: the moving average period is longer than the RSI period
					for d := 1; d <= 3; d++ {
						r = append(r,
							[]float64{float64(rp), float64(sp), float64(d), 60, 30, 50},
							[]float64{float64(rp), float64(sp), float64(d), 101, 60, 60})
					}
				}
			}
			return r
		},
		New: func(c []float64) strategy.Strategy {
			return smomentum.NewTripleRsiStrategyWith(I(c, 0), I(c, 1), I(c, 2), c[3], c[4], c[5])
		},
		// the strategy's own IdlePeriod(): the SMA idle period (>= RSI idle period under the documented assumption)
		Warm: func(c []float64) int { return I(c, 1) - 1 },
		Rule: func(c []float64, b Bars) RuleFn {
			rsi, sma := tripleSeries(c, b)
			d := I(c, 2)
			return func(i int, k *Cmp) int {
				r, ok1 := k.Val(rsi, i)
				m, ok2 := k.Val(sma, i)
				if !ok1 || !ok2 || k.Exempt {
					return Hold
				}
				// Sell when the RSI is above SellAt
				if k.Gt(r, c[5]) {
					return Sell
				}
				// the RSI is below BuyAt
				if !k.Lt(r, c[4]) {
					return Hold
				}
				// the RSI reading is down for the d-th period in a row: d consecutive declines ending at i
				for j := 0; j < d; j++ {
					cur, okc := k.Val(rsi, i-j)
					prev, okp := k.Val(rsi, i-j-1)
					if !okc || !okp || k.Exempt {
						return Hold
					}
					if !k.Lt(cur, prev) {
						return Hold
					}
				}
				// the RSI reading was below BuySignalAt d periods ago
				old, oko := k.Val(rsi, i-d)
				if !oko || k.Exempt {
					return Hold
				}
				if !k.Lt(old, c[3]) {
					return Hold
				}
				// the close is higher than the moving average
				if !k.Gt(b.C.V[i], m) {
					return Hold
				}
				return Buy
			}
		},
		AsIs: map[string]func(c []float64, b Bars) RuleFn{
			// today: a ring of the last d RSI values counted from the end of the SMA idle period; Hold (also
			// instead of Sell) until it is full; Hold when any of the d-1 steps inside it is a DECLINE
			// (inverted test); BuySignalAt is tested on the value d-1 periods ago
			"triple-rsi-down-days-inverted": func(c []float64, b Bars) RuleFn {
				rsi, sma := tripleSeries(c, b)
				d, idle := I(c, 2), I(c, 1)-1
				return func(i int, k *Cmp) int {
					r, ok1 := k.Val(rsi, i)
					m, ok2 := k.Val(sma, i)
					if !ok1 || !ok2 || k.Exempt {
						return Hold
					}
					if i-idle < d-1 {
						return Hold
					}
					if k.Gt(r, c[5]) {
						return Sell
					}
					if k.Ge(r, c[4]) {
						return Hold
					}
					for j := 1; j < d; j++ {
						older, _ := k.Val(rsi, i-d+j)
						newer, _ := k.Val(rsi, i-d+1+j)
						if k.Exempt {
							return Hold
						}
						if k.Gt(older, newer) {
							return Hold
						}
					}
					oldest, _ := k.Val(rsi, i-d+1)
					if k.Exempt {
						return Hold
					}
					if k.Ge(oldest, c[3]) {
						return Hold
					}
					if k.Le(b.C.V[i], m) {
						return Hold
					}
					return Buy
				}
			},
		},
		Cols: func(c []float64, b Bars) map[string]ref.S {
			rsi, sma := tripleSeries(c, b)
			return map[string]ref.S{
				fmt.Sprintf("RSI(%d)", I(c, 0)): rsi,
				fmt.Sprintf("SMA(%d)", I(c, 1)): sma,
			}
		},
		ScaleFree: true,
		Note:      "level tests at every position; Sell (RSI > SellAt) is tested first as in the code; 'down for the 3rd period in a row' is read as DownDays consecutive declines ending at the current position and 'three trading periods ago' as the RSI DownDays positions back (both need DownDays+1 RSI values); RSI values from before the end of the SMA idle period count; thresholds: defaults (60,30,50) and (101,60,60)",
	})

}
