package cat

import (
	"fmt"

	"verifharness/ref"

	"github.com/cinar/indicator/v2/volume"
)

// Package volume: Ad, Cmf, Emv, Fi, Mfi, Mfm, Mfv, Nvi, Obv, Vpt, Vwap.

func init() {
	noCfg := func(bool) [][]float64 { return [][]float64{{}} }

	// MFM = ((Closing - Low) - (High - Closing)) / (High - Low); exempt where High = Low
	mfm := func(h, l, c ref.S) ref.S {
		return ref.Div(ref.Sub(ref.Sub(c, l), ref.Sub(h, c)), ref.Sub(h, l))
	}
	// MFV = MFM * Volume
	mfv := func(h, l, c, v ref.S) ref.S { return ref.Mul(mfm(h, l, c), v) }

	// Distance Moved = (H+L)/2 - (prior H + prior L)/2; Box Ratio = (V/1e8)/(H-L)
	emvParts := func(h, l, v ref.S) (dist, box ref.S) {
		dist = ref.Diff(ref.Scl(ref.Add(h, l), 0.5), 1)
		box = ref.Div(ref.Scl(v, 1e-8), ref.Sub(h, l))
		return
	}

	unitRange := func(what string) func(cfg []float64, in [][]float64, pos int, out []float64) string {
		return func(cfg []float64, in [][]float64, pos int, out []float64) string {
			if out[0] < -1-1e-9 || out[0] > 1+1e-9 {
				return fmt.Sprintf("%s = %g outside [-1, 1]", what, out[0])
			}
			return ""
		}
	}

	RegInd(&Ind{
		Name: "volume.Mfm", In: []string{"H", "L", "C"}, Out: []string{"mfm"},
		Cfgs: noCfg,
		New: func(c []float64) *Inst {
			o := volume.NewMfm[float64]()
			return &Inst{Obj: o, Idle: o.IdlePeriod(), Compute: F31(o.Compute)}
		},
		Ref:      func(c []float64, in []ref.S) []ref.S { return []ref.S{mfm(in[0], in[1], in[2])} },
		PriceDeg: []int{0}, VolDeg: []int{0},
		Range: unitRange("MFM"),
		Note:  "High = Low makes the documented quotient 0/0: exempt",
	})
	RegInd(&Ind{
		Name: "volume.Mfv", In: []string{"H", "L", "C", "V"}, Out: []string{"mfv"},
		Cfgs: noCfg,
		New: func(c []float64) *Inst {
			o := volume.NewMfv[float64]()
			return &Inst{Obj: o, Idle: o.IdlePeriod(), Compute: F41(o.Compute)}
		},
		Ref:      func(c []float64, in []ref.S) []ref.S { return []ref.S{mfv(in[0], in[1], in[2], in[3])} },
		PriceDeg: []int{0}, VolDeg: []int{1},
		Note: "exempt where High = Low (also when Volume = 0 there: the documented MFM is undefined)",
	})
	RegInd(&Ind{
		Name: "volume.Ad", In: []string{"H", "L", "C", "V"}, Out: []string{"ad"},
		Cfgs: noCfg,
		New: func(c []float64) *Inst {
			o := volume.NewAd[float64]()
			return &Inst{Obj: o, Idle: o.IdlePeriod(), Compute: F41(o.Compute)}
		},
		// AD = Previous AD + MFV of the current period, starting from 0
		Ref:      func(c []float64, in []ref.S) []ref.S { return []ref.S{ref.Cum(mfv(in[0], in[1], in[2], in[3]))} },
		PriceDeg: []int{0}, VolDeg: []int{1},
		Note: "\"CMFV\" read as the current period's MFV; AD before the first bar = 0; a High = Low bar exempts everything after it (running total)",
	})
	RegInd(&Ind{
		Name: "volume.Cmf", In: []string{"H", "L", "C", "V"}, Out: []string{"cmf"},
		Cfgs: func(t bool) [][]float64 { return Box1(1, Hi(t, 4, 6)) },
		New: func(c []float64) *Inst {
			o := volume.NewCmfWithPeriod[float64](I(c, 0))
			return &Inst{Obj: o, Idle: o.IdlePeriod(), Compute: F41(o.Compute)}
		},
		// CMF = Sum(period, MFV) / Sum(period, Volume)
		Ref: func(c []float64, in []ref.S) []ref.S {
			p := I(c, 0)
			return []ref.S{ref.Div(ref.Sum(mfv(in[0], in[1], in[2], in[3]), p), ref.Sum(in[3], p))}
		},
		PriceDeg: []int{0}, VolDeg: []int{0},
		Range: unitRange("CMF"),
		Note:  "the 20 of the doc comment read as the configured period; exempt where the volume sum is 0 and from a High = Low bar onwards",
	})
	RegInd(&Ind{
		Name: "volume.Emv", In: []string{"H", "L", "V"}, Out: []string{"emv"},
		Cfgs: func(t bool) [][]float64 { return Box1(1, Hi(t, 4, 6)) },
		New: func(c []float64) *Inst {
			o := volume.NewEmvWithPeriod[float64](I(c, 0))
			return &Inst{Obj: o, Idle: o.IdlePeriod(), Compute: F31(o.Compute)}
		},
		// Distance Moved = (H+L)/2 - (prior H + prior L)/2; Box Ratio = (V/1e8)/(H-L);
		// EMV(1) = Distance Moved / Box Ratio; EMV(p) = SMA(p, EMV(1))
		Ref: func(c []float64, in []ref.S) []ref.S {
			dist, box := emvParts(in[0], in[1], in[2])
			// the box ratio lives on the scale volume/1e8/price, not on the price scale
			return []ref.S{ref.Sma(ref.DivScaled(dist, box, 1e-8), I(c, 0))}
		},
		AsIs: map[string]func(c []float64, in []ref.S) []ref.S{
			// the distance moved of position i (first at position 1) is divided by the box ratio of position i-1 (first at position 0)
			"emv-box-ratio-one-bar-late": func(c []float64, in []ref.S) []ref.S {
				dist, box := emvParts(in[0], in[1], in[2])
				return []ref.S{ref.Sma(ref.DivScaled(dist, ref.Lag(box, 1), 1e-8), I(c, 0))}
			},
		},
		PriceDeg: []int{2}, VolDeg: []int{-1},
		Note: "High = Low (box ratio x/0) and Volume = 0 (box ratio 0) are zero denominators: exempt, sticky through the SMA",
	})
	RegInd(&Ind{
		Name: "volume.Fi", In: []string{"C", "V"}, Out: []string{"fi"},
		Cfgs: func(t bool) [][]float64 { return Box1(1, Hi(t, 4, 6)) },
		New: func(c []float64) *Inst {
			o := volume.NewFiWithPeriod[float64](I(c, 0))
			return &Inst{Obj: o, Idle: o.IdlePeriod(), Compute: F21(o.Compute)}
		},
		// FI = EMA(period, (Current - Previous) * Volume), the volume being the current bar's
		Ref: func(c []float64, in []ref.S) []ref.S {
			return []ref.S{ref.Ema(ref.Mul(ref.Diff(in[0], 1), in[1]), I(c, 0))}
		},
		AsIs: map[string]func(c []float64, in []ref.S) []ref.S{
			// the change Closing[i]-Closing[i-1] (first at position 1) is multiplied by Volume[i-1] (stream not skipped)
			"fi-volume-one-bar-late": func(c []float64, in []ref.S) []ref.S {
				return []ref.S{ref.Ema(ref.Mul(ref.Diff(in[0], 1), ref.Lag(in[1], 1)), I(c, 0))}
			},
		},
		PriceDeg: []int{1}, VolDeg: []int{1},
		Note: "Volume = volume of the current bar (standard force index)",
	})
	RegInd(&Ind{
		Name: "volume.Mfi", In: []string{"H", "L", "C", "V"}, Out: []string{"mfi"},
		Cfgs: func(t bool) [][]float64 { return Box1(1, Hi(t, 4, 6)) },
		New: func(c []float64) *Inst {
			o := volume.NewMfi[float64]()
			o.Sum.Period = I(c, 0)
			return &Inst{Obj: o, Idle: o.IdlePeriod(), Compute: F41(o.Compute)}
		},
		// Raw Money Flow = Typical Price * Volume; Money Ratio = Sum(p, positive flow) / Sum(p, negative flow);
		// MFI = 100 - 100/(1 + Money Ratio)
		Ref: func(c []float64, in []ref.S) []ref.S {
			p := I(c, 0)
			tp := ref.Scl(ref.Add(ref.Add(in[0], in[1]), in[2]), 1.0/3)
			raw := ref.Mul(tp, in[3])
			d := ref.Diff(raw, 1)
			pos := ref.Map2(raw, d, func(r, d float64) float64 {
				if d > 0 {
					return r
				}
				return 0
			})
			neg := ref.Map2(raw, d, func(r, d float64) float64 {
				if d < 0 {
					return r
				}
				return 0
			})
			ratio := ref.Div(ref.Sum(pos, p), ref.Sum(neg, p))
			one := ref.Const(ratio.Len(), 1)
			hundred := ref.Const(ratio.Len(), 100)
			return []ref.S{ref.Sub(hundred, ref.Div(hundred, ref.Add(one, ratio)))}
		},
		PriceDeg: []int{0}, VolDeg: []int{0},
		Range: func(cfg []float64, in [][]float64, pos int, out []float64) string {
			if out[0] < -1e-7 || out[0] > 100+1e-7 {
				return fmt.Sprintf("MFI = %g outside [0, 100]", out[0])
			}
			return ""
		},
		Note: "the doc is silent on what makes a flow positive/negative: following the code, a bar's raw flow is positive when the RAW FLOW (typical price * volume) rose against the previous bar, negative when it fell (the textbook criterion is the typical price alone); exempt where the negative flow sum is 0",
	})
	RegInd(&Ind{
		Name: "volume.Nvi", Periods: []int{}, In: []string{"C", "V"}, Out: []string{"nvi"},
		// configuration = the Initial value
		Cfgs: func(t bool) [][]float64 {
			if t {
				return [][]float64{{1000}, {1}, {250}}
			}
			return [][]float64{{1000}, {1}}
		},
		New: func(c []float64) *Inst {
			o := volume.NewNvi[float64]()
			o.Initial = c[0]
			return &Inst{Obj: o, Idle: o.IdlePeriod(), Compute: F21(o.Compute)}
		},
		// Volume > Previous Volume: NVI = Previous NVI; otherwise NVI = Previous NVI + ((C - Cprev)/Cprev) * Previous NVI
		Ref: func(c []float64, in []ref.S) []ref.S {
			cl, v := in[0], in[1]
			ratio := ref.Div(ref.Diff(cl, 1), ref.Lag(cl, 1))
			dv := ref.Diff(v, 1)
			next := func(i int, prev float64) float64 {
				if v.V[i] > v.V[i-1] {
					return prev
				}
				return prev + ratio.V[i]*prev
			}
			return []ref.S{ref.Rec(cl.Len(), []ref.S{ratio, dv},
				func(i int) float64 { return next(i, c[0]) },
				next)}
		},
		Positive: true,
		PriceDeg: []int{0}, VolDeg: []int{0},
		Note: "the NVI before the first comparable bar (position 0) is Initial; the first output belongs to position 1",
	})
	obvStep := func(cmp func(i int, prev float64) float64, v ref.S) ref.S {
		return ref.Rec(v.Len(), []ref.S{v},
			func(i int) float64 {
				d := cmp(i, 0)
				switch {
				case d > 0:
					return v.V[i]
				case d < 0:
					return -v.V[i]
				}
				return 0
			},
			func(i int, prev float64) float64 {
				d := cmp(i, prev)
				switch {
				case d > 0:
					return prev + v.V[i]
				case d < 0:
					return prev - v.V[i]
				}
				return prev
			})
	}
	RegInd(&Ind{
		Name: "volume.Obv", In: []string{"C", "V"}, Out: []string{"obv"},
		Cfgs: noCfg,
		// comparing a price with a running volume total (the recorded defect) is not unit-invariant
		ScaleKnown: func([]float64, bool) string { return "obv-compares-close-with-previous-obv" },
		New: func(c []float64) *Inst {
			o := volume.NewObv[float64]()
			return &Inst{Obj: o, Idle: o.IdlePeriod(), Compute: F21(o.Compute)}
		},
		// OBV[i] = OBV[i-1] + Volume[i] / OBV[i-1] / OBV[i-1] - Volume[i] as Closing[i] >, =, < Closing[i-1]
		Ref: func(c []float64, in []ref.S) []ref.S {
			cl := in[0]
			return []ref.S{obvStep(func(i int, _ float64) float64 {
				if i == 0 {
					return cl.V[0] // Closing[-1] = 0 (doc silent at position 0; the code's choice)
				}
				return cl.V[i] - cl.V[i-1]
			}, in[1])}
		},
		AsIs: map[string]func(c []float64, in []ref.S) []ref.S{
			// the closing is compared with the previous OBV value, not with the previous closing
			"obv-compares-close-with-previous-obv": func(c []float64, in []ref.S) []ref.S {
				cl := in[0]
				return []ref.S{obvStep(func(i int, prev float64) float64 { return cl.V[i] - prev }, in[1])}
			},
		},
		PriceDeg: []int{0}, VolDeg: []int{1},
		Note: "position 0 has no previous closing; following the code, Closing[-1] = 0 and OBV[-1] = 0 (so OBV[0] = Volume[0] for a positive closing)",
	})
	RegInd(&Ind{
		Name: "volume.Vpt", In: []string{"C", "V"}, Out: []string{"vpt"},
		Cfgs: noCfg,
		New: func(c []float64) *Inst {
			o := volume.NewVpt[float64]()
			return &Inst{Obj: o, Idle: o.IdlePeriod(), Compute: F21(o.Compute)}
		},
		// VPT = Previous VPT + Volume * (Closing - Previous Closing) / Previous Closing, from 0
		Ref: func(c []float64, in []ref.S) []ref.S {
			cl, v := in[0], in[1]
			return []ref.S{ref.Cum(ref.Mul(v, ref.Div(ref.Diff(cl, 1), ref.Lag(cl, 1))))}
		},
		Positive: true,
		PriceDeg: []int{0}, VolDeg: []int{1},
		Note: "VPT before the first comparable bar = 0; Volume = the current bar's",
	})
	RegInd(&Ind{
		Name: "volume.Vwap", In: []string{"C", "V"}, Out: []string{"vwap"},
		Cfgs: func(t bool) [][]float64 { return Box1(1, Hi(t, 4, 6)) },
		New: func(c []float64) *Inst {
			o := volume.NewVwapWithPeriod[float64](I(c, 0))
			return &Inst{Obj: o, Idle: o.IdlePeriod(), Compute: F21(o.Compute)}
		},
		// VWAP = Sum(period, Closing * Volume) / Sum(period, Volume)
		Ref: func(c []float64, in []ref.S) []ref.S {
			p := I(c, 0)
			return []ref.S{ref.Div(ref.Sum(ref.Mul(in[0], in[1]), p), ref.Sum(in[1], p))}
		},
		PriceDeg: []int{1}, VolDeg: []int{0},
		Note: "sums are moving sums over the configured period; exempt where the volume sum is 0",
	})
}
