package cat

import (
	"fmt"
	"math"

	"verifharness/ref"

	"github.com/cinar/indicator/v2/trend"
)

// Package trend, part A: Wma, Tema, Trima, Trix, Hma, Kama, Vwma, Apo, Aroon, Bop.

func init() {
	RegInd(&Ind{
		Name: "trend.Wma", In: []string{"X"}, Out: []string{"wma"},
		Cfgs: func(t bool) [][]float64 { return Box1(1, Hi(t, 4, 6)) },
		New: func(c []float64) *Inst {
			o := trend.NewWmaWith[float64](I(c, 0))
			return &Inst{Obj: o, Idle: o.IdlePeriod(), Compute: F11(o.Compute)}
		},
		// WMA = ((Value1 * 1/N) + (Value2 * 2/N) + ...) / 2, Value1 the oldest value
		Ref:      func(c []float64, in []ref.S) []ref.S { return []ref.S{ref.WmaDoc(in[0], I(c, 0))} },
		PriceDeg: []int{1}, VolDeg: []int{0},
		Note: "reference is the doc comment taken literally (sum of v_j*j/N, halved); that equals the textbook WMA (weights summing to 1) only for N=3",
	})

	RegInd(&Ind{
		Name: "trend.Tema", In: []string{"X"}, Out: []string{"tema"},
		Cfgs: func(t bool) [][]float64 {
			h := Hi(t, 3, 4)
			return Box([]int{1, 1, 1}, []int{h, h, h}, nil)
		},
		New: func(c []float64) *Inst {
			o := trend.NewTema[float64]()
			o.Ema1.Period, o.Ema2.Period, o.Ema3.Period = I(c, 0), I(c, 1), I(c, 2)
			return &Inst{Obj: o, Idle: o.IdlePeriod(), Compute: F11(o.Compute)}
		},
		// TEMA = 3*EMA1 - 3*EMA2 + EMA3, EMA2 = EMA(EMA1), EMA3 = EMA(EMA2), all at the same position
		Ref: func(c []float64, in []ref.S) []ref.S {
			e1 := ref.Ema(in[0], I(c, 0))
			e2 := ref.Ema(e1, I(c, 1))
			e3 := ref.Ema(e2, I(c, 2))
			return []ref.S{ref.Add(ref.Sub(ref.Scl(e1, 3), ref.Scl(e2, 3)), e3)}
		},
		PriceDeg: []int{1}, VolDeg: []int{0},
	})

	trimaPeriods := func(p int) (int, int) { // (outer, inner) as documented
		if p%2 == 0 {
			return p / 2, p/2 + 1
		}
		return (p + 1) / 2, (p + 1) / 2
	}
	RegInd(&Ind{
		Name: "trend.Trima", In: []string{"X"}, Out: []string{"trima"},
		Cfgs: func(t bool) [][]float64 { return Box1(1, Hi(t, 4, 6)) },
		New: func(c []float64) *Inst {
			o := trend.NewTrima[float64]()
			o.Period = I(c, 0)
			return &Inst{Obj: o, Idle: o.IdlePeriod(), Compute: F11(o.Compute)}
		},
		// even: SMA(p/2, SMA(p/2+1, values)); odd: SMA((p+1)/2, SMA((p+1)/2, values))
		Ref: func(c []float64, in []ref.S) []ref.S {
			a, b := trimaPeriods(I(c, 0))
			return []ref.S{ref.Sma(ref.Sma(in[0], b), a)}
		},
		PriceDeg: []int{1}, VolDeg: []int{0},
	})

	RegInd(&Ind{
		Name: "trend.Trix", In: []string{"X"}, Out: []string{"trix"},
		Cfgs: func(t bool) [][]float64 { return Box1(1, Hi(t, 3, 5)) },
		New: func(c []float64) *Inst {
			o := trend.NewTrix[float64]()
			o.Period = I(c, 0)
			return &Inst{Obj: o, Idle: o.IdlePeriod(), Compute: F11(o.Compute)}
		},
		// TRIX = (EMA3 - previous EMA3) / previous EMA3, EMA3 = EMA(EMA(EMA(values)))
		Ref: func(c []float64, in []ref.S) []ref.S {
			p := I(c, 0)
			e3 := ref.Ema(ref.Ema(ref.Ema(in[0], p), p), p)
			prev := ref.Lag(e3, 1)
			return []ref.S{ref.Div(ref.Sub(e3, prev), prev)}
		},
		Positive: true,
		PriceDeg: []int{0}, VolDeg: []int{0},
	})

	hmaPeriods := func(p int) (int, int) {
		return int(math.Round(float64(p) / 2)), int(math.Round(math.Sqrt(float64(p))))
	}
	RegInd(&Ind{
		Name: "trend.Hma", In: []string{"X"}, Out: []string{"hma"},
		// up to 7 in the thorough tier so that sqrt(period) rounds to 3 at least once
		Cfgs: func(t bool) [][]float64 { return Box1(1, Hi(t, 4, 7)) },
		New: func(c []float64) *Inst {
			o := trend.NewHmaWithPeriod[float64](I(c, 0))
			return &Inst{Obj: o, Idle: o.IdlePeriod(), Compute: F11(o.Compute)}
		},
		// WMA1 = WMA(period/2, values); WMA2 = WMA(period, values); HMA = WMA(sqrt(period), 2*WMA1 - WMA2)
		Ref: func(c []float64, in []ref.S) []ref.S {
			p := I(c, 0)
			h, r := hmaPeriods(p)
			d := ref.Sub(ref.Scl(ref.WmaDoc(in[0], h), 2), ref.WmaDoc(in[0], p))
			return []ref.S{ref.WmaDoc(d, r)}
		},
		PriceDeg: []int{1}, VolDeg: []int{0},
		Note: "period/2 and sqrt(period) are rounded to the nearest integer (half away from zero) as the constructor does, the comment being silent; WMA is the library's documented Wma formula",
	})

	kamaRef := func(c []float64, in []ref.S) []ref.S {
		er, f, s := I(c, 0), I(c, 1), I(c, 2)
		x := in[0]
		dir := ref.Abs(ref.Diff(x, er))
		vol := ref.Sum(ref.Abs(ref.Diff(x, 1)), er)
		e := ref.Div(dir, vol)
		fast, slow := 2/float64(f+1), 2/float64(s+1)
		sc := ref.Map1(e, func(v float64) float64 { q := v*(fast-slow) + slow; return q * q })
		step := func(i int, prev float64) float64 { return prev + sc.V[i]*(x.V[i]-prev) }
		// the first SC exists at position er; "previous KAMA" there is the price at er-1
		return []ref.S{ref.Rec(x.Len(), []ref.S{sc}, func(i int) float64 { return step(i, x.V[i-1]) }, step)}
	}
	RegInd(&Ind{
		Name: "trend.Kama", In: []string{"X"}, Out: []string{"kama"},
		Cfgs: func(t bool) [][]float64 {
			h := Hi(t, 3, 4)
			return Box([]int{1, 1, 1}, []int{h, h, h}, func(v []int) bool { return v[1] <= v[2] })
		},
		New: func(c []float64) *Inst {
			o := trend.NewKamaWith[float64](I(c, 0), I(c, 1), I(c, 2))
			return &Inst{Obj: o, Idle: o.IdlePeriod(), Compute: F11(o.Compute)}
		},
		Ref:      kamaRef,
		PriceDeg: []int{1}, VolDeg: []int{0},
		Note: "the comment gives no seed: previous KAMA at the first position with an efficiency ratio (er) is the price at er-1, as in the code; fast <= slow; zero volatility makes ER undefined (exempt from there on)",
	})

	RegInd(&Ind{
		Name: "trend.Vwma", In: []string{"C", "V"}, Out: []string{"vwma"},
		Cfgs: func(t bool) [][]float64 { return Box1(1, Hi(t, 4, 6)) },
		New: func(c []float64) *Inst {
			o := trend.NewVwma[float64]()
			o.Period = I(c, 0)
			return &Inst{Obj: o, Idle: o.IdlePeriod(), Compute: F21(o.Compute)}
		},
		// VWMA = Sum(Price * Volume) / Sum(Volume) over the period
		Ref: func(c []float64, in []ref.S) []ref.S {
			p := I(c, 0)
			return []ref.S{ref.Div(ref.Sum(ref.Mul(in[0], in[1]), p), ref.Sum(in[1], p))}
		},
		PriceDeg: []int{1}, VolDeg: []int{0},
	})

	RegInd(&Ind{
		Name: "trend.Apo", In: []string{"X"}, Out: []string{"apo"},
		// documented roles: fast period <= slow period
		Cfgs: func(t bool) [][]float64 {
			h := Hi(t, 4, 6)
			return Box([]int{1, 1}, []int{h, h}, func(v []int) bool { return v[0] <= v[1] })
		},
		New: func(c []float64) *Inst {
			o := trend.NewApo[float64]()
			o.FastPeriod, o.SlowPeriod = I(c, 0), I(c, 1)
			return &Inst{Obj: o, Idle: I(c, 1) - 1, Compute: F11(o.Compute)} // no IdlePeriod method: the slow EMA's warm-up
		},
		// APO = Ema(values, fast) - Ema(values, slow), both at the same position
		Ref: func(c []float64, in []ref.S) []ref.S {
			return []ref.S{ref.Sub(ref.Ema(in[0], I(c, 0)), ref.Ema(in[0], I(c, 1)))}
		},
		AsIs: map[string]func(c []float64, in []ref.S) []ref.S{
			// the k-th fast EMA value is paired with the k-th slow EMA value although the slow one starts slow-fast positions later
			"apo-unaligned": func(c []float64, in []ref.S) []ref.S {
				return []ref.S{ref.Sub(ref.Lag(ref.Ema(in[0], I(c, 0)), I(c, 1)-I(c, 0)), ref.Ema(in[0], I(c, 1)))}
			},
		},
		PriceDeg: []int{1}, VolDeg: []int{0},
		Note: "no IdlePeriod method; warm-up implied by the slow EMA = slow-1",
	})

	aroonOf := func(since ref.S, p int) ref.S {
		return ref.Map1(since, func(s float64) float64 { return math.Round((float64(p) - s) / float64(p) * 100) })
	}
	aroonAsIs := func(c []float64, in []ref.S) []ref.S {
		p := I(c, 0)
		return []ref.S{
			aroonOf(ref.SinceChange(ref.Max(in[0], p)), p),
			aroonOf(ref.SinceChange(ref.Min(in[1], p)), p),
		}
	}
	RegInd(&Ind{
		Name: "trend.Aroon", In: []string{"H", "L"}, Out: []string{"up", "down"},
		Cfgs: func(t bool) [][]float64 { return Box1(1, Hi(t, 4, 6)) },
		New: func(c []float64) *Inst {
			o := trend.NewAroon[float64]()
			o.Period = I(c, 0)
			return &Inst{Obj: o, Idle: I(c, 0) - 1, Compute: F22(o.Compute)} // no IdlePeriod method: the moving max/min warm-up
		},
		// Aroon Up = ((p - periods since the p-period high) / p) * 100; Down likewise with the low
		Ref: func(c []float64, in []ref.S) []ref.S {
			p := I(c, 0)
			return []ref.S{
				aroonOf(ref.SinceExtreme(in[0], p, true), p),
				aroonOf(ref.SinceExtreme(in[1], p, false), p),
			}
		},
		AsIs: map[string]func(c []float64, in []ref.S) []ref.S{
			// helper.Since counts the positions since the VALUE of the moving extreme last changed,
			// not the positions since the extreme occurred inside the window
			"aroon-since-value-change": aroonAsIs,
		},
		PriceDeg: []int{0, 0}, VolDeg: []int{0, 0},
		Range: func(c []float64, in [][]float64, pos int, out []float64) string {
			for j, n := range []string{"up", "down"} {
				if out[j] < -1e-9 || out[j] > 100+1e-9 || math.IsNaN(out[j]) {
					return fmt.Sprintf("aroon %s = %g outside [0,100]", n, out[j])
				}
			}
			return ""
		},
		RangeKnown: func(c []float64, in [][]float64, pos int, out []float64) string {
			m := aroonAsIs(c, []ref.S{ref.From(in[0]), ref.From(in[1])})
			if m[0].V[pos] == out[0] && m[1].V[pos] == out[1] {
				return "aroon-since-value-change"
			}
			return ""
		},
		Note: "the extreme is taken over the last p positions (\"25 period high\"), so periods-since ranges over 0..p-1; ties: the most recent occurrence; rounding to an integer is the code's convention (comment silent); no IdlePeriod method, warm-up p-1",
	})

	RegInd(&Ind{
		Name: "trend.Bop", In: []string{"O", "H", "L", "C"}, Out: []string{"bop"},
		Cfgs: func(t bool) [][]float64 { return [][]float64{{}} },
		New: func(c []float64) *Inst {
			o := trend.NewBop[float64]()
			return &Inst{Obj: o, Idle: 0, Compute: F41(o.Compute)} // no IdlePeriod method: pointwise formula
		},
		// BOP = (Closing - Opening) / (High - Low)
		Ref: func(c []float64, in []ref.S) []ref.S {
			return []ref.S{ref.Div(ref.Sub(in[3], in[0]), ref.Sub(in[1], in[2]))}
		},
		PriceDeg: []int{0}, VolDeg: []int{0},
		Range: func(c []float64, in [][]float64, pos int, out []float64) string {
			if math.IsNaN(out[0]) || out[0] < -1-1e-9 || out[0] > 1+1e-9 {
				return fmt.Sprintf("bop = %g outside [-1,1]", out[0])
			}
			return ""
		},
		Note: "no parameters; no IdlePeriod method, warm-up 0",
	})
}
