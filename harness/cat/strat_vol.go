package cat

import (
	"math"

	"verifharness/ref"

	"github.com/cinar/indicator/v2/strategy"
	svolatility "github.com/cinar/indicator/v2/strategy/volatility"
	svolume "github.com/cinar/indicator/v2/strategy/volume"
	"github.com/cinar/indicator/v2/volatility"
)

// Strategies of strategy/volatility (BollingerBands, SuperTrend) and strategy/volume
// (ChaikinMoneyFlow, EaseOfMovement, ForceIndex, MoneyFlowIndex, NegativeVolumeIndex, WeightedAveragePrice).
//
// All eight doc comments say "crosses above / below"; none of the Compute methods keeps a previous value and
// none has an inline comment asking for one: the comparison is made at every position (level test).

// signRule: Buy while the series is above zero, Sell while it is below zero.
func signRule(s ref.S) RuleFn {
	return func(i int, k *Cmp) int {
		v, ok := k.Val(s, i)
		if !ok || k.Exempt {
			return Hold
		}
		if k.Gt(v, 0) {
			return Buy
		}
		if k.Lt(v, 0) {
			return Sell
		}
		return Hold
	}
}

// maIdle is the documented idle period of the moving-average kinds of ind_volatility.go.
func maIdle(kind, p int) int {
	if kind == maHma {
		// WMA(p) then WMA(round(sqrt p)) on top of it
		return (p - 1) + (int(math.Round(math.Sqrt(float64(p)))) - 1)
	}
	return p - 1 // SMA, EMA (SMA seed), SMMA (SMA seed)
}

func init() {
	period1 := func(lo int) func(t bool) [][]float64 {
		return func(t bool) [][]float64 { return Box1(lo, Hi(t, 3, 4)) }
	}

	// ---------------------------------------------------------------- volatility

	bbRule := func(c []float64, b Bars) RuleFn {
		r := IndRef("volatility.BollingerBands", c, b.C)
		return func(i int, k *Cmp) int {
			up, ok1 := k.Val(r[0], i)
			lo, ok2 := k.Val(r[2], i)
			cl, ok3 := k.Val(b.C, i)
			if !ok1 || !ok2 || !ok3 || k.Exempt {
				return Hold
			}
			if k.Gt(cl, up) {
				return Buy
			}
			if k.Gt(lo, cl) {
				return Sell
			}
			return Hold
		}
	}
	RegStrat(&Strat{
		Name: "volatility.BollingerBandsStrategy",
		// cfg = [period]
		Cfgs: period1(1),
		New: func(c []float64) strategy.Strategy {
			s := svolatility.NewBollingerBandsStrategy()
			s.BollingerBands = volatility.NewBollingerBandsWithPeriod[float64](I(c, 0))
			return s
		},
		Warm: func(c []float64) int { return I(c, 0) - 1 },
		Rule: bbRule,
		Cols: func(c []float64, b Bars) map[string]ref.S {
			r := IndRef("volatility.BollingerBands", c, b.C)
			return map[string]ref.S{"Upper": r[0], "Middle": r[1], "Lower": r[2]}
		},
		ScaleFree: true,
		Note:      "level test at every position: closing above the upper band = Buy, closing below the lower band = Sell (strict, as the code; the doc says 'crossing' but no previous value is consulted). Period 1: both bands equal the closing, every position is a tie (exempt)",
	})

	stRule := func(model func(c []float64, in []ref.S) []ref.S) func(c []float64, b Bars) RuleFn {
		return func(c []float64, b Bars) RuleFn {
			st := model(c, []ref.S{b.H, b.L, b.C})[0]
			return func(i int, k *Cmp) int {
				v, ok1 := k.Val(st, i)
				cl, ok2 := k.Val(b.C, i)
				if !ok1 || !ok2 || k.Exempt {
					return Hold
				}
				if k.Gt(cl, v) {
					return Buy
				}
				if k.Lt(cl, v) {
					return Sell
				}
				return Hold
			}
		}
	}
	stInd := func() *Ind { return FindInd("volatility.SuperTrend") }
	RegStrat(&Strat{
		Name: "volatility.SuperTrendStrategy", Periods: []int{1},
		// cfg = [maKind, period, multiplier] as volatility.SuperTrend; maKind 3 = HMA is what NewSuperTrendStrategy() builds
		// (HMA(14), 2.5: warm-up 17, beyond the trie budget; the HMA path is covered with small periods)
		Cfgs: func(t bool) [][]float64 {
			var r [][]float64
			for _, kind := range []int{maHma, maSma, maEma, maSmma} {
				for p := 1; p <= Hi(t, 3, 4); p++ {
					for _, m := range []float64{1, 2.5} {
						r = append(r, []float64{float64(kind), float64(p), m})
					}
				}
			}
			return r
		},
		New: func(c []float64) strategy.Strategy {
			if I(c, 0) == maHma {
				return svolatility.NewSuperTrendStrategyWith(volatility.NewSuperTrendWithPeriod[float64](I(c, 1), c[2]))
			}
			return svolatility.NewSuperTrendStrategyWith(volatility.NewSuperTrendWithMa[float64](volMa(I(c, 0), I(c, 1)), c[2]))
		},
		// ATR = MA of the true range, which needs a previous closing
		Warm: func(c []float64) int { return maIdle(I(c, 0), I(c, 1)) + 1 },
		Rule: func(c []float64, b Bars) RuleFn { return stRule(stInd().Ref)(c, b) },
		AsIs: map[string]func(c []float64, b Bars) RuleFn{
			"supertrend-uptrend-flag": func(c []float64, b Bars) RuleFn {
				return stRule(stInd().AsIs["supertrend-uptrend-flag"])(c, b)
			},
		},
		Cols: func(c []float64, b Bars) map[string]ref.S {
			return map[string]ref.S{"Super Trend": IndRef("volatility.SuperTrend", c, b.H, b.L, b.C)[0]}
		},
		ScaleFree: true,
		Note:      "level test at every position: closing above the Super Trend = Buy, below = Sell (strict, as the code; no previous value is consulted)",
	})

	// ---------------------------------------------------------------- volume

	RegStrat(&Strat{
		Name: "volume.ChaikinMoneyFlowStrategy",
		// cfg = [period]
		Cfgs: period1(1),
		New:  func(c []float64) strategy.Strategy { return svolume.NewChaikinMoneyFlowStrategyWith(I(c, 0)) },
		Warm: func(c []float64) int { return I(c, 0) - 1 },
		Rule: func(c []float64, b Bars) RuleFn {
			return signRule(IndRef("volume.Cmf", c, b.H, b.L, b.C, b.V)[0])
		},
		Cols: func(c []float64, b Bars) map[string]ref.S {
			return map[string]ref.S{"Chaikin Money Flow": IndRef("volume.Cmf", c, b.H, b.L, b.C, b.V)[0]}
		},
		ScaleFree: true,
		Note:      "level test at every position: CMF > 0 = Buy, CMF < 0 = Sell",
	})

	emvRule := func(model func(c []float64, in []ref.S) []ref.S) func(c []float64, b Bars) RuleFn {
		return func(c []float64, b Bars) RuleFn { return signRule(model(c, []ref.S{b.H, b.L, b.V})[0]) }
	}
	RegStrat(&Strat{
		Name: "volume.EaseOfMovementStrategy",
		// cfg = [period]
		Cfgs: period1(1),
		New:  func(c []float64) strategy.Strategy { return svolume.NewEaseOfMovementStrategyWith(I(c, 0)) },
		// SMA(period) of EMV(1), which needs the previous bar
		Warm: func(c []float64) int { return I(c, 0) },
		Rule: func(c []float64, b Bars) RuleFn { return emvRule(FindInd("volume.Emv").Ref)(c, b) },
		AsIs: map[string]func(c []float64, b Bars) RuleFn{
			"emv-box-ratio-one-bar-late": func(c []float64, b Bars) RuleFn {
				return emvRule(FindInd("volume.Emv").AsIs["emv-box-ratio-one-bar-late"])(c, b)
			},
		},
		Cols: func(c []float64, b Bars) map[string]ref.S {
			return map[string]ref.S{"Ease of Movement": IndRef("volume.Emv", c, b.H, b.L, b.V)[0]}
		},
		ScaleFree: true,
		Note:      "level test at every position: EMV > 0 = Buy, EMV < 0 = Sell",
	})

	fiRule := func(model func(c []float64, in []ref.S) []ref.S) func(c []float64, b Bars) RuleFn {
		return func(c []float64, b Bars) RuleFn { return signRule(model(c, []ref.S{b.C, b.V})[0]) }
	}
	RegStrat(&Strat{
		Name: "volume.ForceIndexStrategy",
		// cfg = [period]
		Cfgs: period1(1),
		New:  func(c []float64) strategy.Strategy { return svolume.NewForceIndexStrategyWith(I(c, 0)) },
		// EMA(period) of the one-bar force, which needs the previous closing
		Warm: func(c []float64) int { return I(c, 0) },
		Rule: func(c []float64, b Bars) RuleFn { return fiRule(FindInd("volume.Fi").Ref)(c, b) },
		AsIs: map[string]func(c []float64, b Bars) RuleFn{
			"fi-volume-one-bar-late": func(c []float64, b Bars) RuleFn {
				return fiRule(FindInd("volume.Fi").AsIs["fi-volume-one-bar-late"])(c, b)
			},
		},
		Cols: func(c []float64, b Bars) map[string]ref.S {
			return map[string]ref.S{"Force Index": IndRef("volume.Fi", c, b.C, b.V)[0]}
		},
		ScaleFree: true,
		Note:      "level test at every position: FI > 0 = Buy, FI < 0 = Sell",
	})

	RegStrat(&Strat{
		Name: "volume.MoneyFlowIndexStrategy", Periods: []int{0},
		// cfg = [period, sellAt, buyAt]
		Cfgs: func(t bool) [][]float64 {
			var r [][]float64
			for p := 1; p <= Hi(t, 3, 4); p++ {
				r = append(r, []float64{float64(p), 80, 20}, []float64{float64(p), 50, 50})
			}
			// levels at and beyond the ends of the indicator's range [0, 100]
			r = append(r, []float64{2, 110, 20}, []float64{2, 80, -10}, []float64{2, 100, 0})
			return r
		},
		New: func(c []float64) strategy.Strategy {
			s := svolume.NewMoneyFlowIndexStrategyWith(c[1], c[2])
			s.MoneyFlowIndex.Sum.Period = I(c, 0)
			return s
		},
		// Sum(period) of the signed flows, which need the previous bar
		Warm: func(c []float64) int { return I(c, 0) },
		Rule: func(c []float64, b Bars) RuleFn {
			r := IndRef("volume.Mfi", c[:1], b.H, b.L, b.C, b.V)
			return func(i int, k *Cmp) int {
				v, ok := k.Val(r[0], i)
				if !ok || k.Exempt {
					return Hold
				}
				if k.Ge(v, c[1]) {
					return Sell
				}
				if k.Le(v, c[2]) {
					return Buy
				}
				return Hold
			}
		},
		Cols: func(c []float64, b Bars) map[string]ref.S {
			return map[string]ref.S{"Money Flow Index": IndRef("volume.Mfi", c[:1], b.H, b.L, b.C, b.V)[0]}
		},
		ScaleFree: true,
		Note:      "level test at every position: MFI >= SellAt = Sell, else MFI <= BuyAt = Buy; the doc ('crosses over 80 / below 20') is silent on equality and on precedence when SellAt <= BuyAt: both as the code (equality included, Sell first). Positions where the negative flow sum is 0 are exempt (documented money ratio x/0)",
	})

	RegStrat(&Strat{
		Name: "volume.NegativeVolumeIndexStrategy",
		// cfg = [EMA period]; the NVI itself has no period (Initial stays at its default 1000: the rule compares NVI with its own EMA)
		Cfgs: period1(1),
		New:  func(c []float64) strategy.Strategy { return svolume.NewNegativeVolumeIndexStrategyWith(I(c, 0)) },
		// NVI is defined from position 1, its EMA(e) e-1 positions later
		Warm: func(c []float64) int { return I(c, 0) },
		Rule: func(c []float64, b Bars) RuleFn {
			nvi := IndRef("volume.Nvi", []float64{1000}, b.C, b.V)[0]
			ema := IndRef("trend.Ema", c, nvi)[0]
			return func(i int, k *Cmp) int {
				n, ok1 := k.Val(nvi, i)
				e, ok2 := k.Val(ema, i)
				if !ok1 || !ok2 || k.Exempt {
					return Hold
				}
				if k.Lt(n, e) {
					return Buy
				}
				if k.Gt(n, e) {
					return Sell
				}
				return Hold
			}
		},
		Cols: func(c []float64, b Bars) map[string]ref.S {
			nvi := IndRef("volume.Nvi", []float64{1000}, b.C, b.V)[0]
			return map[string]ref.S{"NVI": nvi, "NVI EMA": IndRef("trend.Ema", c, nvi)[0]}
		},
		ScaleFree: true,
		Note:      "level test at every position: NVI below its EMA = Buy, above = Sell. EMA period 1: the EMA equals the NVI, every position is a tie (exempt)",
	})

	RegStrat(&Strat{
		Name: "volume.WeightedAveragePriceStrategy",
		// cfg = [period]
		Cfgs: period1(1),
		New:  func(c []float64) strategy.Strategy { return svolume.NewWeightedAveragePriceStrategyWith(I(c, 0)) },
		Warm: func(c []float64) int { return I(c, 0) - 1 },
		Rule: func(c []float64, b Bars) RuleFn {
			r := IndRef("volume.Vwap", c, b.C, b.V)
			return func(i int, k *Cmp) int {
				v, ok1 := k.Val(r[0], i)
				cl, ok2 := k.Val(b.C, i)
				if !ok1 || !ok2 || k.Exempt {
					return Hold
				}
				if k.Lt(cl, v) {
					return Buy
				}
				if k.Gt(cl, v) {
					return Sell
				}
				return Hold
			}
		},
		Cols: func(c []float64, b Bars) map[string]ref.S {
			return map[string]ref.S{"VWAP": IndRef("volume.Vwap", c, b.C, b.V)[0]}
		},
		ScaleFree: true,
		Note:      "level test at every position: closing below the VWAP = Buy, above = Sell. Period 1: the VWAP equals the closing, every position is a tie (exempt)",
	})
}
