package cat

import (
	"fmt"

	"verifharness/ref"

	"github.com/cinar/indicator/v2/strategy"
	strend "github.com/cinar/indicator/v2/strategy/trend"
	"github.com/cinar/indicator/v2/trend"
)

// Strategies of strategy/trend, part A: Alligator, Apo, Aroon, Bop, Cci, Dema,
// Envelope, GoldenCross, Kama, Kdj.

func init() {
	maxOf := func(v ...int) int {
		m := v[0]
		for _, x := range v {
			if x > m {
				m = x
			}
		}
		return m
	}
	// level test: a above b -> Buy, a below b -> Sell (strict both ways).
	// same: a and b are one and the same documented quantity (equal periods), so neither is above the other:
	// Hold by identity, not a tie within rounding.
	aboveBelowSame := func(a, b ref.S, same bool) RuleFn {
		return func(i int, k *Cmp) int {
			x, ok1 := k.Val(a, i)
			y, ok2 := k.Val(b, i)
			if !ok1 || !ok2 || k.Exempt || same {
				return Hold
			}
			if k.Gt(x, y) {
				return Buy
			}
			if k.Lt(x, y) {
				return Sell
			}
			return Hold
		}
	}
	aboveBelow := func(a, b ref.S) RuleFn { return aboveBelowSame(a, b, false) }

	// ---------------------------------------------------------------- Alligator
	// cfg = [jaw, teeth, lip]; documented roles: jaw slowest, teeth medium, lip fastest
	alligatorRule := func(c []float64, b Bars) RuleFn {
		jaw := IndRef("trend.Smma", c[0:1], b.C)[0]
		teeth := IndRef("trend.Smma", c[1:2], b.C)[0]
		lip := IndRef("trend.Smma", c[2:3], b.C)[0]
		return func(i int, k *Cmp) int {
			j, ok1 := k.Val(jaw, i)
			t, ok2 := k.Val(teeth, i)
			l, ok3 := k.Val(lip, i)
			if !ok1 || !ok2 || !ok3 || k.Exempt {
				return Hold
			}
			// the lip coincides with the teeth or the jaw (same SMMA): it is neither above nor below both
			if c[2] == c[1] || c[2] == c[0] {
				return Hold
			}
			if k.Gt(l, t) && k.Gt(l, j) {
				return Buy
			}
			if k.Lt(l, t) && k.Lt(l, j) {
				return Sell
			}
			return Hold
		}
	}
	RegStrat(&Strat{
		Name: "trend.AlligatorStrategy",
		Cfgs: func(t bool) [][]float64 {
			h := Hi(t, 3, 4)
			// the documented roles are jaw slowest, lips fastest (13, 8, 5); the code synchronises on the largest of the three
			// whichever it is, so a few configurations outside the roles are explored as well
			r := Box([]int{1, 1, 1}, []int{h, h, h}, func(v []int) bool { return v[0] >= v[1] && v[1] >= v[2] })
			return append(r, []float64{1, 2, 3}, []float64{2, 1, 3}, []float64{2, 3, 1}, []float64{1, 3, 2})
		},
		New: func(c []float64) strategy.Strategy {
			return strend.NewAlligatorStrategyWith(I(c, 0), I(c, 1), I(c, 2))
		},
		// idle period of the slowest SMMA
		Warm: func(c []float64) int { return maxOf(I(c, 0), I(c, 1), I(c, 2)) - 1 },
		Rule: alligatorRule,
		AsIs: map[string]func(c []float64, b Bars) RuleFn{
			// Compute shifts the actions by commonPeriod (= max period) although the synchronised SMMAs start at
			// position commonPeriod-1: one surplus leading Hold, every recommendation one bar late, n+1 actions
			"alligator-extra-action": func(c []float64, b Bars) RuleFn {
				base := alligatorRule(c, b)
				common := maxOf(I(c, 0), I(c, 1), I(c, 2))
				return func(i int, k *Cmp) int {
					if i < common {
						return Hold
					}
					return base(i-1, k)
				}
			},
		},
		CountKey: func(c []float64, n, got int) string {
			if n >= maxOf(I(c, 0), I(c, 1), I(c, 2))-1 && got == n+1 {
				return "alligator-extra-action"
			}
			return ""
		},
		Cols: func(c []float64, b Bars) map[string]ref.S {
			return map[string]ref.S{
				"Jaw":   IndRef("trend.Smma", c[0:1], b.C)[0],
				"Teeth": IndRef("trend.Smma", c[1:2], b.C)[0],
				"Lip":   IndRef("trend.Smma", c[2:3], b.C)[0],
			}
		},
		ScaleFree: true,
		Note:      "level test at every position; the doc comment gives no rule, so the rule is the code's: lip above both teeth and jaw -> Buy, lip below both -> Sell (strict); periods ordered jaw >= teeth >= lip (documented roles slowest/medium/fastest); warm-up = idle period of the slowest SMMA (the inline comment \"starts only after a full period\" is used throughout the package for IdlePeriod = period-1)",
	})

	// ---------------------------------------------------------------- Apo
	// cfg = [fast, slow]
	apoCross := func(a ref.S, same bool) RuleFn {
		return func(i int, k *Cmp) int {
			prev, ok1 := k.Val(a, i-1)
			cur, ok2 := k.Val(a, i)
			// same: fast period = slow period, the APO is identically zero and never on either side of zero
			if !ok1 || !ok2 || k.Exempt || same {
				return Hold
			}
			// crossing above zero
			if k.Ge(cur, 0) && k.Lt(prev, 0) {
				return Buy
			}
			// crossing below zero
			if k.Le(cur, 0) && k.Gt(prev, 0) {
				return Sell
			}
			return Hold
		}
	}
	RegStrat(&Strat{
		Name: "trend.ApoStrategy",
		Cfgs: func(t bool) [][]float64 {
			h := Hi(t, 4, 5)
			return Box([]int{1, 1}, []int{h, h}, func(v []int) bool { return v[0] <= v[1] })
		},
		New: func(c []float64) strategy.Strategy {
			s := strend.NewApoStrategy()
			s.Apo.FastPeriod, s.Apo.SlowPeriod = I(c, 0), I(c, 1)
			return s
		},
		// slow EMA idle period (slow-1) + 1 for the previous value
		Warm: func(c []float64) int { return I(c, 1) },
		Rule: func(c []float64, b Bars) RuleFn { return apoCross(IndRef("trend.Apo", c, b.C)[0], c[0] == c[1]) },
		AsIs: map[string]func(c []float64, b Bars) RuleFn{
			"apo-unaligned": func(c []float64, b Bars) RuleFn {
				return apoCross(FindInd("trend.Apo").AsIs["apo-unaligned"](c, []ref.S{b.C})[0], c[0] == c[1])
			},
		},
		Cols: func(c []float64, b Bars) map[string]ref.S {
			return map[string]ref.S{"APO": IndRef("trend.Apo", c, b.C)[0]}
		},
		ScaleFree: true,
		Note:      "genuine cross-over of consecutive APO values through zero; the equality side follows the code (current >= 0 with previous < 0 -> Buy, current <= 0 with previous > 0 -> Sell), the doc comment being silent; fast <= slow",
	})

	// ---------------------------------------------------------------- Aroon
	RegStrat(&Strat{
		Name: "trend.AroonStrategy",
		Cfgs: func(t bool) [][]float64 { return Box1(1, Hi(t, 4, 5)) },
		New: func(c []float64) strategy.Strategy {
			s := strend.NewAroonStrategy()
			s.Aroon.Period = I(c, 0)
			return s
		},
		Warm: func(c []float64) int { return I(c, 0) - 1 },
		Rule: func(c []float64, b Bars) RuleFn {
			r := IndRef("trend.Aroon", c, b.H, b.L)
			return aboveBelow(r[0], r[1])
		},
		AsIs: map[string]func(c []float64, b Bars) RuleFn{
			"aroon-since-value-change": func(c []float64, b Bars) RuleFn {
				r := FindInd("trend.Aroon").AsIs["aroon-since-value-change"](c, []ref.S{b.H, b.L})
				return aboveBelow(r[0], r[1])
			},
		},
		Cols: func(c []float64, b Bars) map[string]ref.S {
			r := IndRef("trend.Aroon", c, b.H, b.L)
			return map[string]ref.S{"Aroon Up": r[0], "Aroon Down": r[1]}
		},
		ScaleFree: true,
		Note:      "level test at every position: Aroon Up above Aroon Down -> Buy, Down above Up -> Sell, equal -> Hold",
	})

	// ---------------------------------------------------------------- Bop
	RegStrat(&Strat{
		Name: "trend.BopStrategy",
		Cfgs: func(bool) [][]float64 { return [][]float64{{}} },
		New:  func([]float64) strategy.Strategy { return strend.NewBopStrategy() },
		Warm: func([]float64) int { return 0 },
		Rule: func(c []float64, b Bars) RuleFn {
			r := IndRef("trend.Bop", c, b.O, b.H, b.L, b.C)
			return aboveBelow(r[0], ref.Const(b.N, 0))
		},
		Cols: func(c []float64, b Bars) map[string]ref.S {
			return map[string]ref.S{"BoP": IndRef("trend.Bop", c, b.O, b.H, b.L, b.C)[0]}
		},
		ScaleFree: true,
		Note:      "level test at every position: positive BoP -> Buy, negative -> Sell, zero -> Hold; bars with high = low are exempt (BoP undefined)",
	})

	// ---------------------------------------------------------------- Cci
	cciRule := func(s ref.S) RuleFn {
		return func(i int, k *Cmp) int {
			v, ok := k.Val(s, i)
			if !ok || k.Exempt {
				return Hold
			}
			if k.Ge(v, 100) {
				return Buy
			}
			if k.Le(v, -100) {
				return Sell
			}
			return Hold
		}
	}
	RegStrat(&Strat{
		Name: "trend.CciStrategy",
		// period 1 is degenerate (the mean deviation is identically zero), as in the indicator catalogue
		Cfgs: func(t bool) [][]float64 { return Box1(2, Hi(t, 4, 5)) },
		New: func(c []float64) strategy.Strategy {
			s := strend.NewCciStrategy()
			s.Cci.Period = I(c, 0)
			return s
		},
		Warm: func(c []float64) int { return 2*I(c, 0) - 2 },
		// CCI is documented over the typical price (high + low + close) / 3
		Rule: func(c []float64, b Bars) RuleFn { return cciRule(IndRef("trend.Cci", c, b.H, b.L, b.C)[0]) },
		AsIs: map[string]func(c []float64, b Bars) RuleFn{
			// Compute passes SnapshotsAsHighs for all three inputs: the typical price degenerates to the high
			"cci-strategy-feeds-highs": func(c []float64, b Bars) RuleFn {
				return cciRule(IndRef("trend.Cci", c, b.H, b.H, b.H)[0])
			},
		},
		Cols: func(c []float64, b Bars) map[string]ref.S {
			return map[string]ref.S{"CCI": IndRef("trend.Cci", c, b.H, b.L, b.C)[0]}
		},
		ScaleFree: true,
		Note:      "level test at every position as coded (the doc comment says \"crossing above the 100+ / below the 100-\", Compute has no inline rule comment): CCI >= 100 -> Buy, CCI <= -100 -> Sell, equality sides follow the code; thresholds are not configurable",
	})

	// ---------------------------------------------------------------- Dema
	// cfg = [period of the first DEMA, period of the second DEMA]; each DEMA uses one period for both of its EMAs
	demaOf := func(p float64, x ref.S) ref.S { return IndRef("trend.Dema", []float64{p, p}, x)[0] }
	demaAsIs := func(p float64, x ref.S) ref.S {
		return FindInd("trend.Dema").AsIs["dema-unaligned"]([]float64{p, p}, []ref.S{x})[0]
	}
	RegStrat(&Strat{
		Name: "trend.DemaStrategy",
		Cfgs: func(t bool) [][]float64 {
			// the two DEMAs are padded to their own idle periods, so either may be the slower one
			h := Hi(t, 3, 4)
			return Box([]int{1, 1}, []int{h, h}, nil)
		},
		New: func(c []float64) strategy.Strategy {
			s := strend.NewDemaStrategy()
			s.Dema1.Ema1.Period, s.Dema1.Ema2.Period = I(c, 0), I(c, 0)
			s.Dema2.Ema1.Period, s.Dema2.Ema2.Period = I(c, 1), I(c, 1)
			return s
		},
		Warm: func(c []float64) int { return 2*maxOf(I(c, 0), I(c, 1)) - 2 },
		Rule: func(c []float64, b Bars) RuleFn {
			return aboveBelowSame(demaOf(c[0], b.C), demaOf(c[1], b.C), c[0] == c[1])
		},
		AsIs: map[string]func(c []float64, b Bars) RuleFn{
			"dema-unaligned": func(c []float64, b Bars) RuleFn {
				return aboveBelowSame(demaAsIs(c[0], b.C), demaAsIs(c[1], b.C), c[0] == c[1])
			},
		},
		Cols: func(c []float64, b Bars) map[string]ref.S {
			return map[string]ref.S{
				fmt.Sprintf("Dema %d-day", I(c, 0)): demaOf(c[0], b.C),
				fmt.Sprintf("Dema %d-day", I(c, 1)): demaOf(c[1], b.C),
			}
		},
		ScaleFree: true,
		Note:      "level test at every position as coded (doc: \"bullish cross occurs when DEMA 5 moves above DEMA 35\"; Compute has no inline rule comment): first DEMA above the second -> Buy, below -> Sell; one period per DEMA as documented (\"DEMA with 5 days period\") and as the constructor sets it; first period <= second period (short/long roles of the doc comment)",
	})

	// ---------------------------------------------------------------- Envelope
	// cfg = [maKind (0 = SMA, 1 = EMA), period, percentage] as in trend.Envelope
	RegStrat(&Strat{
		Name: "trend.EnvelopeStrategy", Periods: []int{1},
		Cfgs: func(t bool) [][]float64 {
			var r [][]float64
			for kind := 0; kind <= 1; kind++ {
				for p := 1; p <= Hi(t, 3, 4); p++ {
					for _, pct := range []float64{20, 5} {
						r = append(r, []float64{float64(kind), float64(p), pct})
					}
				}
			}
			return r
		},
		New: func(c []float64) strategy.Strategy {
			var ma trend.Ma[float64]
			if I(c, 0) == 1 {
				ma = trend.NewEmaWithPeriod[float64](I(c, 1))
			} else {
				ma = trend.NewSmaWithPeriod[float64](I(c, 1))
			}
			return strend.NewEnvelopeStrategyWith(trend.NewEnvelope[float64](ma, c[2]))
		},
		Warm: func(c []float64) int { return I(c, 1) - 1 },
		Rule: func(c []float64, b Bars) RuleFn {
			r := IndRef("trend.Envelope", c, b.C)
			return func(i int, k *Cmp) int {
				up, ok1 := k.Val(r[0], i)
				lo, ok2 := k.Val(r[2], i)
				if !ok1 || !ok2 || k.Exempt {
					return Hold
				}
				cl := b.C.V[i]
				// closing below the lower band -> Buy
				if k.Lt(cl, lo) {
					return Buy
				}
				// closing above the upper band -> Sell
				if k.Gt(cl, up) {
					return Sell
				}
				return Hold
			}
		},
		Cols: func(c []float64, b Bars) map[string]ref.S {
			r := IndRef("trend.Envelope", c, b.C)
			return map[string]ref.S{"Upper": r[0], "Middle": r[1], "Lower": r[2]}
		},
		ScaleFree: true,
		Note:      "level test at every position: closing below the lower band -> Buy, closing above the upper band -> Sell (strict); percentage 20 is the default, 5 an alternative; the report starts at the first defined position (dates skipped by the idle period)",
	})

	// ---------------------------------------------------------------- GoldenCross
	// cfg = [fast, slow]
	RegStrat(&Strat{
		Name: "trend.GoldenCrossStrategy",
		Cfgs: func(t bool) [][]float64 {
			h := Hi(t, 4, 5)
			return Box([]int{1, 1}, []int{h, h}, func(v []int) bool { return v[0] <= v[1] })
		},
		New:  func(c []float64) strategy.Strategy { return strend.NewGoldenCrossStrategyWith(I(c, 0), I(c, 1)) },
		Warm: func(c []float64) int { return I(c, 1) - 1 },
		Rule: func(c []float64, b Bars) RuleFn {
			return aboveBelowSame(IndRef("trend.Ema", c[0:1], b.C)[0], IndRef("trend.Ema", c[1:2], b.C)[0], c[0] == c[1])
		},
		Cols: func(c []float64, b Bars) map[string]ref.S {
			return map[string]ref.S{
				"Fast": ref.Map2(IndRef("trend.Ema", c[0:1], b.C)[0], IndRef("trend.Ema", c[1:2], b.C)[0], func(x, _ float64) float64 { return x }),
				"Slow": IndRef("trend.Ema", c[1:2], b.C)[0],
			}
		},
		ScaleFree: true,
		Note:      "level test at every position as coded: the doc comment and the inline comments say \"crosses above/below\" but are attached to a comparison of the current values only (fast EMA above the slow EMA -> Buy at every such position, below -> Sell), no previous value is involved; fast <= slow; the Fast column is reported from the position where the slow EMA exists",
	})

	// ---------------------------------------------------------------- Kama
	// cfg = [er, fastSc, slowSc]
	RegStrat(&Strat{
		Name: "trend.KamaStrategy",
		Cfgs: func(t bool) [][]float64 {
			h := Hi(t, 3, 4)
			return Box([]int{1, 1, 1}, []int{h, h, h}, func(v []int) bool { return v[1] <= v[2] })
		},
		New:  func(c []float64) strategy.Strategy { return strend.NewKamaStrategyWith(I(c, 0), I(c, 1), I(c, 2)) },
		Warm: func(c []float64) int { return I(c, 0) },
		Rule: func(c []float64, b Bars) RuleFn {
			return aboveBelow(b.C, IndRef("trend.Kama", c, b.C)[0])
		},
		Cols: func(c []float64, b Bars) map[string]ref.S {
			return map[string]ref.S{"KAMA": IndRef("trend.Kama", c, b.C)[0]}
		},
		ScaleFree: true,
		Note:      "level test at every position as coded (\"crossing above the KAMA\" is attached to closing > kama on the current values only): closing above the KAMA -> Buy, below -> Sell; fastSc <= slowSc; zero volatility over the ER window makes the KAMA undefined (exempt from there on)",
	})

	// ---------------------------------------------------------------- Kdj
	// cfg = [rPeriod, kPeriod, dPeriod]
	RegStrat(&Strat{
		Name: "trend.KdjStrategy",
		Cfgs: func(t bool) [][]float64 {
			h := Hi(t, 3, 4)
			return Box([]int{1, 1, 1}, []int{h, h, h}, nil)
		},
		New: func(c []float64) strategy.Strategy {
			s := strend.NewKdjStrategy()
			s.Kdj.MovingMax.Period, s.Kdj.MovingMin.Period = I(c, 0), I(c, 0)
			s.Kdj.Sma1.Period, s.Kdj.Sma2.Period = I(c, 1), I(c, 2)
			return s
		},
		Warm: func(c []float64) int { return I(c, 0) + I(c, 1) + I(c, 2) - 3 },
		Rule: func(c []float64, b Bars) RuleFn {
			r := IndRef("trend.Kdj", c, b.H, b.L, b.C)
			return func(i int, q *Cmp) int {
				k, ok1 := q.Val(r[0], i)
				d, ok2 := q.Val(r[1], i)
				j, ok3 := q.Val(r[2], i)
				if !ok1 || !ok2 || !ok3 || q.Exempt {
					return Hold
				}
				if q.Gt(j, k) && q.Gt(j, d) {
					return Buy
				}
				if q.Lt(j, k) && q.Lt(j, d) {
					return Sell
				}
				return Hold
			}
		},
		Cols: func(c []float64, b Bars) map[string]ref.S {
			r := IndRef("trend.Kdj", c, b.H, b.L, b.C)
			return map[string]ref.S{"K": r[0], "D": r[1], "J": r[2]}
		},
		ScaleFree: true,
		Note:      "level test at every position as coded (\"crosses above both k and d\" is attached to j-k > 0 && j-d > 0 on the current values only): J above both K and D -> Buy, below both -> Sell; one rPeriod for MovingMax and MovingMin as in the indicator catalogue; windows with highest high = lowest low are exempt (RSV undefined)",
	})
}
