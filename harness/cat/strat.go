package cat

import (
	"math"
	"time"

	"verifharness/ref"

	"github.com/cinar/indicator/v2/asset"
	"github.com/cinar/indicator/v2/strategy"
)

// Bars is a position-aligned OHLCV input.
type Bars struct {
	N             int
	O, H, L, C, V ref.S
}

// MakeBars wraps raw rows (O,H,L,C,V per position).
func MakeBars(rows [][5]float64) Bars {
	cols := make([][]float64, 5)
	for _, r := range rows {
		for f := 0; f < 5; f++ {
			cols[f] = append(cols[f], r[f])
		}
	}
	for f := range cols {
		if cols[f] == nil {
			cols[f] = []float64{}
		}
	}
	return Bars{N: len(rows), O: ref.From(cols[0]), H: ref.From(cols[1]), L: ref.From(cols[2]), C: ref.From(cols[3]), V: ref.From(cols[4])}
}

// Snapshots converts rows into asset snapshots dated on consecutive days from 2020-01-01 UTC.
func Snapshots(rows [][5]float64) []*asset.Snapshot {
	t0 := time.Date(2020, 1, 1, 0, 0, 0, 0, time.UTC)
	out := make([]*asset.Snapshot, len(rows))
	for i, r := range rows {
		out[i] = &asset.Snapshot{Date: t0.AddDate(0, 0, i), Open: r[0], High: r[1], Low: r[2], Close: r[3], Volume: r[4]}
	}
	return out
}

// Cmp evaluates the comparisons of a decision rule and remembers whether any of
// them was a tie within rounding (such positions are exempt) or read an exempt
// reference value.
type Cmp struct {
	Tie    bool
	Exempt bool
}

func (c *Cmp) near(a, b float64) bool {
	if math.IsNaN(a) || math.IsNaN(b) || math.IsInf(a, 0) || math.IsInf(b, 0) {
		return false // NaN compares false with everything, an infinity is not "equal within rounding" to anything
	}
	return math.Abs(a-b) <= ref.Rel*math.Max(ref.Scale, math.Max(math.Abs(a), math.Abs(b)))
}

// Gt is a > b.
func (c *Cmp) Gt(a, b float64) bool {
	if c.near(a, b) {
		c.Tie = true
	}
	return a > b
}

// Ge is a >= b.
func (c *Cmp) Ge(a, b float64) bool {
	if c.near(a, b) {
		c.Tie = true
	}
	return a >= b
}

// Lt is a < b.
func (c *Cmp) Lt(a, b float64) bool { return c.Gt(b, a) }

// Le is a <= b.
func (c *Cmp) Le(a, b float64) bool { return c.Ge(b, a) }

// Val reads series s at position i. ok is false while the series is undefined
// (warm-up: the rule must answer Hold). An exempt value marks the position exempt.
func (c *Cmp) Val(s ref.S, i int) (float64, bool) {
	if i < 0 || i >= s.Len() || !s.Def(i) {
		return 0, false
	}
	if s.X[i] {
		if s.Z != nil && s.Z[i] {
			// the documented pointwise formula is x/0 at this very position: its IEEE value decides the rule
			return s.V[i], true
		}
		c.Exempt = true
		return 0, true
	}
	return s.V[i], true
}

// Actions.
const (
	Sell = -1
	Hold = 0
	Buy  = 1
)

// RuleFn answers the documented recommendation for position i.
type RuleFn func(i int, c *Cmp) int

// Strat is a catalogue entry for a base strategy.
type Strat struct {
	Name string // "trend.MacdStrategy"
	Cfgs func(thorough bool) [][]float64
	New  func(cfg []float64) strategy.Strategy
	// Periods lists the configuration components that are periods (nil = all of them).
	Periods []int
	// Warm is the number of leading Hold actions (for n >= Warm).
	Warm func(cfg []float64) int
	// Rule restates the documented decision rule over the documented indicator
	// (use the indicator catalogue's Ref) computed from the documented fields.
	Rule func(cfg []float64, b Bars) RuleFn
	// AsIs: known-defect models (what the implementation does today), by known-finding key.
	AsIs map[string]func(cfg []float64, b Bars) RuleFn
	// Cols gives, by report column name, the documented value of every indicator
	// column of the strategy's Report at each snapshot position (NaN = warm-up filler, not compared).
	// The generic columns Close / annotation / Outcome are checked without it.
	Cols func(cfg []float64, b Bars) map[string]ref.S
	// ColsKnown classifies a mismatching indicator column as a known finding (returns its key or "").
	ColsKnown func(cfg []float64, column string) string
	// CountKey classifies a wrong number of actions as a known finding (returns its key or "").
	CountKey func(cfg []float64, n, got int) string
	// ScaleFree: recommendations must not change when all prices or all volumes are rescaled (C18).
	ScaleFree bool
	Note      string
}

// Strats is the base-strategy catalogue.
var Strats []*Strat

// RegStrat appends an entry.
func RegStrat(s *Strat) { Strats = append(Strats, s) }

// RefOverride, when set for an indicator name, replaces its documented reference
// in IndRef (used to evaluate strategy rules / report columns over a known-defect model).
var RefOverride = map[string]func(cfg []float64, in []ref.S) []ref.S{}

// IndRef evaluates the documented reference of a catalogued indicator.
func IndRef(name string, cfg []float64, in ...ref.S) []ref.S {
	if f := RefOverride[name]; f != nil {
		return f(cfg, in)
	}
	e := FindInd(name)
	if e == nil {
		panic("no indicator catalogue entry " + name)
	}
	return e.Ref(cfg, in)
}
