package cat

import (
	"verifharness/ref"

	"github.com/cinar/indicator/v2/trend"
)

// Entries written first; they double as the template for the other catalogue files.

func init() {
	RegInd(&Ind{
		Name: "trend.MovingSum", In: []string{"X"}, Out: []string{"sum"},
		Cfgs: func(t bool) [][]float64 { return Box1(1, Hi(t, 4, 6)) },
		New: func(c []float64) *Inst {
			o := trend.NewMovingSumWithPeriod[float64](I(c, 0))
			return &Inst{Obj: o, Idle: o.IdlePeriod(), Compute: F11(o.Compute)}
		},
		Ref:      func(c []float64, in []ref.S) []ref.S { return []ref.S{ref.Sum(in[0], I(c, 0))} },
		PriceDeg: []int{1}, VolDeg: []int{0},
	})
	RegInd(&Ind{
		Name: "trend.Sma", In: []string{"X"}, Out: []string{"sma"},
		Cfgs: func(t bool) [][]float64 { return Box1(1, Hi(t, 4, 6)) },
		New: func(c []float64) *Inst {
			o := trend.NewSmaWithPeriod[float64](I(c, 0))
			return &Inst{Obj: o, Idle: o.IdlePeriod(), Compute: F11(o.Compute)}
		},
		Ref:      func(c []float64, in []ref.S) []ref.S { return []ref.S{ref.Sma(in[0], I(c, 0))} },
		PriceDeg: []int{1}, VolDeg: []int{0},
	})
	movingRange := func(kind string) func(cfg []float64, in [][]float64, pos int, out []float64) string {
		return func(cfg []float64, in [][]float64, pos int, out []float64) string {
			x := in[0][pos]
			if kind == "max" && out[0] < x {
				return "moving max below the current value"
			}
			if kind == "min" && out[0] > x {
				return "moving min above the current value"
			}
			return ""
		}
	}
	RegInd(&Ind{
		Name: "trend.MovingMax", In: []string{"X"}, Out: []string{"max"},
		Cfgs: func(t bool) [][]float64 { return Box1(1, Hi(t, 4, 6)) },
		New: func(c []float64) *Inst {
			o := trend.NewMovingMaxWithPeriod[float64](I(c, 0))
			return &Inst{Obj: o, Idle: o.IdlePeriod(), Compute: F11(o.Compute)}
		},
		Ref:      func(c []float64, in []ref.S) []ref.S { return []ref.S{ref.Max(in[0], I(c, 0))} },
		PriceDeg: []int{1}, VolDeg: []int{0},
		Range: movingRange("max"),
	})
	RegInd(&Ind{
		Name: "trend.MovingMin", In: []string{"X"}, Out: []string{"min"},
		Cfgs: func(t bool) [][]float64 { return Box1(1, Hi(t, 4, 6)) },
		New: func(c []float64) *Inst {
			o := trend.NewMovingMinWithPeriod[float64](I(c, 0))
			return &Inst{Obj: o, Idle: o.IdlePeriod(), Compute: F11(o.Compute)}
		},
		Ref:      func(c []float64, in []ref.S) []ref.S { return []ref.S{ref.Min(in[0], I(c, 0))} },
		PriceDeg: []int{1}, VolDeg: []int{0},
		Range: movingRange("min"),
	})
	RegInd(&Ind{
		Name: "trend.Ema", In: []string{"X"}, Out: []string{"ema"},
		Cfgs: func(t bool) [][]float64 { return Box1(1, Hi(t, 4, 6)) },
		New: func(c []float64) *Inst {
			o := trend.NewEmaWithPeriod[float64](I(c, 0))
			return &Inst{Obj: o, Idle: o.IdlePeriod(), Compute: F11(o.Compute)}
		},
		Ref:      func(c []float64, in []ref.S) []ref.S { return []ref.S{ref.Ema(in[0], I(c, 0))} },
		PriceDeg: []int{1}, VolDeg: []int{0},
	})
	RegInd(&Ind{
		Name: "trend.Rma", In: []string{"X"}, Out: []string{"rma"},
		Cfgs: func(t bool) [][]float64 { return Box1(1, Hi(t, 4, 6)) },
		New: func(c []float64) *Inst {
			o := trend.NewRmaWithPeriod[float64](I(c, 0))
			return &Inst{Obj: o, Idle: o.IdlePeriod(), Compute: F11(o.Compute)}
		},
		Ref:      func(c []float64, in []ref.S) []ref.S { return []ref.S{ref.Rma(in[0], I(c, 0))} },
		PriceDeg: []int{1}, VolDeg: []int{0},
	})
	RegInd(&Ind{
		Name: "trend.Smma", In: []string{"X"}, Out: []string{"smma"},
		Cfgs: func(t bool) [][]float64 { return Box1(1, Hi(t, 4, 6)) },
		New: func(c []float64) *Inst {
			o := trend.NewSmmaWithPeriod[float64](I(c, 0))
			return &Inst{Obj: o, Idle: o.IdlePeriod(), Compute: F11(o.Compute)}
		},
		Ref:      func(c []float64, in []ref.S) []ref.S { return []ref.S{ref.Rma(in[0], I(c, 0))} },
		PriceDeg: []int{1}, VolDeg: []int{0},
	})
	RegInd(&Ind{
		Name: "trend.Macd", In: []string{"X"}, Out: []string{"macd", "signal"},
		// documented ordering: the first EMA is the faster one (period1 <= period2)
		Cfgs: func(t bool) [][]float64 {
			h := Hi(t, 3, 5)
			return Box([]int{1, 1, 1}, []int{h, h, h}, func(v []int) bool { return v[0] <= v[1] })
		},
		New: func(c []float64) *Inst {
			o := trend.NewMacdWithPeriod[float64](I(c, 0), I(c, 1), I(c, 2))
			return &Inst{Obj: o, Idle: o.IdlePeriod(), Compute: F12(o.Compute)}
		},
		Ref: func(c []float64, in []ref.S) []ref.S {
			m := ref.Sub(ref.Ema(in[0], I(c, 0)), ref.Ema(in[0], I(c, 1)))
			return []ref.S{m, ref.Ema(m, I(c, 2))}
		},
		PriceDeg: []int{1, 1}, VolDeg: []int{0, 0},
	})
	RegInd(&Ind{
		Name: "trend.Dema", In: []string{"X"}, Out: []string{"dema"},
		Cfgs: func(t bool) [][]float64 {
			h := Hi(t, 4, 6)
			return Box([]int{1, 1}, []int{h, h}, nil)
		},
		New: func(c []float64) *Inst {
			o := trend.NewDema[float64]()
			o.Ema1.Period, o.Ema2.Period = I(c, 0), I(c, 1)
			return &Inst{Obj: o, Idle: o.IdlePeriod(), Compute: F11(o.Compute)}
		},
		// DEMA = 2*EMA1(values) - EMA2(EMA1(values)), both taken at the same position
		Ref: func(c []float64, in []ref.S) []ref.S {
			e1 := ref.Ema(in[0], I(c, 0))
			return []ref.S{ref.Sub(ref.Scl(e1, 2), ref.Ema(e1, I(c, 1)))}
		},
		AsIs: map[string]func(c []float64, in []ref.S) []ref.S{
			// the k-th EMA1 value is paired with the k-th EMA2(EMA1) value although the latter starts Ema2.Period-1 positions later
			"dema-unaligned": func(c []float64, in []ref.S) []ref.S {
				e1 := ref.Ema(in[0], I(c, 0))
				return []ref.S{ref.Sub(ref.Scl(ref.Lag(e1, I(c, 1)-1), 2), ref.Ema(e1, I(c, 1)))}
			},
		},
		PriceDeg: []int{1}, VolDeg: []int{0},
	})
}
