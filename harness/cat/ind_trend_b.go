package cat

import (
	"verifharness/ref"

	"github.com/cinar/indicator/v2/trend"
)

// trend, part B: Cci, Envelope, Kdj, MassIndex, Mls, Mlr, Tsi, TypicalPrice, WeightedClose.

func init() {
	typical := func(in []ref.S) ref.S {
		return ref.Map3(in[0], in[1], in[2], func(h, l, c float64) float64 { return (h + l + c) / 3 })
	}

	RegInd(&Ind{
		Name: "trend.Cci", In: []string{"H", "L", "C"}, Out: []string{"cci"},
		// period 1 is degenerate: MA = TP, so the mean deviation (the denominator) is identically zero
		Cfgs: func(t bool) [][]float64 { return Box1(2, Hi(t, 4, 6)) },
		New: func(c []float64) *Inst {
			o := trend.NewCciWithPeriod[float64](I(c, 0))
			return &Inst{Obj: o, Idle: o.IdlePeriod(), Compute: F31(o.Compute)}
		},
		// MA = Sma(p, TP); MD = Sma(p, |TP - MA|) taken position by position; CCI = (TP - MA)/(0.015*MD)
		Ref: func(c []float64, in []ref.S) []ref.S {
			p := I(c, 0)
			tp := typical(in)
			dev := ref.Sub(tp, ref.Sma(tp, p))
			md := ref.Sma(ref.Abs(dev), p)
			return []ref.S{ref.Div(dev, ref.Scl(md, 0.015))}
		},
		PriceDeg: []int{0}, VolDeg: []int{0},
		Note: "Mean Deviation read literally from the comment: SMA over p positions of |TP[j]-MA[j]| (each TP against its own MA, warm-up 2p-2), not the textbook mean of |TP[j]-MA[i]| against the current MA (warm-up p-1); period starts at 2 because p=1 makes the denominator identically zero",
	})

	envMa := func(c []float64, x ref.S) ref.S {
		if I(c, 0) == 1 {
			return ref.Ema(x, I(c, 1))
		}
		return ref.Sma(x, I(c, 1))
	}
	RegInd(&Ind{
		Name: "trend.Envelope", Periods: []int{1}, In: []string{"X"}, Out: []string{"upper", "middle", "lower"},
		// cfg = [maKind (0 = SMA, 1 = EMA), period, percentage]
		Cfgs: func(t bool) [][]float64 {
			var r [][]float64
			for kind := 0; kind <= 1; kind++ {
				for p := 1; p <= Hi(t, 4, 6); p++ {
					for _, pct := range []float64{0, 10, 25} {
						r = append(r, []float64{float64(kind), float64(p), pct})
					}
				}
			}
			return r
		},
		New: func(c []float64) *Inst {
			var ma trend.Ma[float64]
			if I(c, 0) == 1 {
				ma = trend.NewEmaWithPeriod[float64](I(c, 1))
			} else {
				ma = trend.NewSmaWithPeriod[float64](I(c, 1))
			}
			o := trend.NewEnvelope[float64](ma, c[2])
			return &Inst{Obj: o, Idle: o.IdlePeriod(), Compute: F13(o.Compute)}
		},
		// upper = MA*(1+pct/100), middle = MA, lower = MA*(1-pct/100)
		Ref: func(c []float64, in []ref.S) []ref.S {
			m := envMa(c, in[0])
			return []ref.S{ref.Scl(m, 1+c[2]/100), m, ref.Scl(m, 1-c[2]/100)}
		},
		PriceDeg: []int{1, 1, 1}, VolDeg: []int{0, 0, 0},
		Range: func(c []float64, in [][]float64, pos int, out []float64) string {
			eps := 1e-9 * ref.Scale
			if out[0] < out[1]-eps {
				return "upper band below the middle"
			}
			if out[1] < out[2]-eps {
				return "middle below the lower band"
			}
			return ""
		},
		Note: "the type has no formula in its comment; standard envelope: the moving average shifted by +/- percentage percent; ordering predicate presupposes positive values and percentage >= 0",
	})

	RegInd(&Ind{
		Name: "trend.Kdj", In: []string{"H", "L", "C"}, Out: []string{"k", "d", "j"},
		// cfg = [rPeriod, kPeriod, dPeriod]
		Cfgs: func(t bool) [][]float64 {
			h := Hi(t, 3, 5)
			return Box([]int{1, 1, 1}, []int{h, h, h}, nil)
		},
		New: func(c []float64) *Inst {
			o := trend.NewKdj[float64]()
			o.MovingMax.Period, o.MovingMin.Period = I(c, 0), I(c, 0)
			o.Sma1.Period, o.Sma2.Period = I(c, 1), I(c, 2)
			return &Inst{Obj: o, Idle: o.IdlePeriod(), Compute: F33(o.Compute)}
		},
		// RSV = (C - Min(L,r)) / (Max(H,r) - Min(L,r)) * 100; K = Sma(RSV,k); D = Sma(K,d); J = 3K - 2D
		Ref: func(c []float64, in []ref.S) []ref.S {
			r := I(c, 0)
			lo := ref.Min(in[1], r)
			hi := ref.Max(in[0], r)
			rsv := ref.Scl(ref.Div(ref.Sub(in[2], lo), ref.Sub(hi, lo)), 100)
			k := ref.Sma(rsv, I(c, 1))
			d := ref.Sma(k, I(c, 2))
			j := ref.Sub(ref.Scl(k, 3), ref.Scl(d, 2))
			// K is reported from the position where D and J exist
			kOut := ref.Map2(k, d, func(x, _ float64) float64 { return x })
			return []ref.S{kOut, d, j}
		},
		PriceDeg: []int{0, 0, 0}, VolDeg: []int{0, 0, 0},
		Note: "the comment has a single rPeriod, so MovingMax.Period and MovingMin.Period are always set to the same value",
	})

	RegInd(&Ind{
		Name: "trend.MassIndex", In: []string{"H", "L"}, Out: []string{"mi"},
		// cfg = [ema1 period, ema2 period, sum period]
		Cfgs: func(t bool) [][]float64 {
			h := Hi(t, 3, 5)
			return Box([]int{1, 1, 1}, []int{h, h, h}, nil)
		},
		New: func(c []float64) *Inst {
			o := trend.NewMassIndex[float64]()
			o.Ema1.Period, o.Ema2.Period, o.MovingSum.Period = I(c, 0), I(c, 1), I(c, 2)
			return &Inst{Obj: o, Idle: o.IdlePeriod(), Compute: F21(o.Compute)}
		},
		// Single = EMA(p1, H-L); Double = EMA(p2, Single); Ratio = Single/Double; MI = SUM(Ratio, p3)
		Ref: func(c []float64, in []ref.S) []ref.S {
			single := ref.Ema(ref.Sub(in[0], in[1]), I(c, 0))
			double := ref.Ema(single, I(c, 1))
			return []ref.S{ref.Sum(ref.Div(single, double), I(c, 2))}
		},
		PriceDeg: []int{0}, VolDeg: []int{0},
	})

	// least squares over the last p positions, as documented:
	// m = (p*sumXY - sumX*sumY) / (p*sumX2 - sumX*sumX); b = (sumY - m*sumX) / p
	mls := func(p int, x, y ref.S) (m, b ref.S) {
		fp := float64(p)
		sx, sy := ref.Sum(x, p), ref.Sum(y, p)
		sxy, sx2 := ref.Sum(ref.Mul(x, y), p), ref.Sum(ref.Mul(x, x), p)
		num := ref.Sub(ref.Scl(sxy, fp), ref.Mul(sx, sy))
		den := ref.Sub(ref.Scl(sx2, fp), ref.Mul(sx, sx))
		m = ref.DivScaled(num, den, ref.Scale*ref.Scale)
		b = ref.Scl(ref.Sub(sy, ref.Mul(m, sx)), 1/fp)
		return
	}
	RegInd(&Ind{
		Name: "trend.Mls", In: []string{"X", "Y"}, Out: []string{"m", "b"},
		// period 1 is degenerate: 1*x^2 - x*x is identically zero
		Cfgs: func(t bool) [][]float64 { return Box1(2, Hi(t, 4, 6)) },
		New: func(c []float64) *Inst {
			o := trend.NewMlsWithPeriod[float64](I(c, 0))
			return &Inst{Obj: o, Idle: o.IdlePeriod(), Compute: F22(o.Compute)}
		},
		Ref: func(c []float64, in []ref.S) []ref.S {
			m, b := mls(I(c, 0), in[0], in[1])
			return []ref.S{m, b}
		},
		// x and y both scaled as prices: the slope is a ratio, the intercept a price
		PriceDeg: []int{0, 1}, VolDeg: []int{0, 0},
		Note: "period starts at 2 (period 1 makes the slope denominator identically zero); the zero test of the denominator uses scale^2 because it is a sum of products",
	})
	RegInd(&Ind{
		Name: "trend.Mlr", In: []string{"X", "Y"}, Out: []string{"r"},
		Cfgs: func(t bool) [][]float64 { return Box1(2, Hi(t, 4, 6)) },
		New: func(c []float64) *Inst {
			o := trend.NewMlrWithPeriod[float64](I(c, 0))
			return &Inst{Obj: o, Idle: o.IdlePeriod(), Compute: F21(o.Compute)}
		},
		// y = m*x + b with the MLS m, b of the window ending at the position and the x of that position
		Ref: func(c []float64, in []ref.S) []ref.S {
			m, b := mls(I(c, 0), in[0], in[1])
			return []ref.S{ref.Add(ref.Mul(m, in[0]), b)}
		},
		PriceDeg: []int{1}, VolDeg: []int{0},
		Note: "period starts at 2 as for Mls",
	})

	tsi := func(inner, outer int, x ref.S) ref.S {
		pc := ref.Diff(x, 1)
		pcds := ref.Ema(ref.Ema(pc, inner), outer)
		apcds := ref.Ema(ref.Ema(ref.Abs(pc), inner), outer)
		return ref.Scl(ref.Div(pcds, apcds), 100)
	}
	RegInd(&Ind{
		Name: "trend.Tsi", In: []string{"X"}, Out: []string{"tsi"},
		// cfg = [first smoothing period, second smoothing period]
		Cfgs: func(t bool) [][]float64 {
			h := Hi(t, 4, 6)
			return Box([]int{1, 1}, []int{h, h}, nil)
		},
		New: func(c []float64) *Inst {
			o := trend.NewTsiWith[float64](I(c, 0), I(c, 1))
			return &Inst{Obj: o, Idle: o.IdlePeriod(), Compute: F11(o.Compute)}
		},
		// PCDS = Ema(second, Ema(first, Current-Prior)); APCDS likewise on |Current-Prior|; TSI = PCDS/APCDS*100
		Ref: func(c []float64, in []ref.S) []ref.S {
			return []ref.S{tsi(I(c, 0), I(c, 1), in[0])}
		},
		AsIs: map[string]func(c []float64, in []ref.S) []ref.S{
			// the second smoothing is applied to the price change and the first smoothing to its result
			"tsi-smoothing-order-swapped": func(c []float64, in []ref.S) []ref.S {
				return []ref.S{tsi(I(c, 1), I(c, 0), in[0])}
			},
		},
		PriceDeg: []int{0}, VolDeg: []int{0},
		Note: "the documented defaults (inner 25 = DefaultTsiFirstSmoothingPeriod, outer 13 = DefaultTsiSecondSmoothingPeriod) fix the order: first smoothing innermost",
	})

	// the smoothings are exported fields of interface type trend.Ma: any moving average may be plugged in, and one
	// smoothing instance serves two streams (price change and absolute price change) inside one Compute
	tsiMa := func(k1, p1, k2, p2 int, x ref.S) ref.S {
		ch := ref.Diff(x, 1)
		sm := func(s ref.S) ref.S { return volMaRef(k2, volMaRef(k1, s, p1), p2) }
		return ref.Scl(ref.Div(sm(ch), sm(ref.Abs(ch))), 100)
	}
	RegInd(&Ind{
		Name: "trend.Tsi (any Ma)", Periods: []int{1, 3}, In: []string{"X"}, Out: []string{"tsi"},
		// cfg = [first smoothing kind, first smoothing period, second smoothing kind, second smoothing period]
		Cfgs: func(t bool) [][]float64 {
			var r [][]float64
			for _, k1 := range []int{maWma, maSma, maHma} {
				for _, k2 := range []int{maWma, maEma} {
					for _, p := range [][2]int{{2, 2}, {3, 2}, {2, 3}} {
						r = append(r, []float64{float64(k1), float64(p[0]), float64(k2), float64(p[1])})
					}
				}
			}
			return r
		},
		New: func(c []float64) *Inst {
			o := &trend.Tsi[float64]{FirstSmoothing: volMa(I(c, 0), I(c, 1)), SecondSmoothing: volMa(I(c, 2), I(c, 3))}
			return &Inst{Obj: o, Idle: o.IdlePeriod(), Compute: F11(o.Compute)}
		},
		Ref: func(c []float64, in []ref.S) []ref.S {
			return []ref.S{tsiMa(I(c, 0), I(c, 1), I(c, 2), I(c, 3), in[0])}
		},
		AsIs: map[string]func(c []float64, in []ref.S) []ref.S{
			"tsi-smoothing-order-swapped": func(c []float64, in []ref.S) []ref.S {
				return []ref.S{tsiMa(I(c, 2), I(c, 3), I(c, 0), I(c, 1), in[0])}
			},
		},
		PriceDeg: []int{0}, VolDeg: []int{0},
		Note: "Tsi assembled as a literal with Wma / Sma / Hma / Ema smoothings; same formula and same recorded order defect as trend.Tsi",
	})

	RegInd(&Ind{
		Name: "trend.TypicalPrice", In: []string{"H", "L", "C"}, Out: []string{"tp"},
		Cfgs: func(t bool) [][]float64 { return [][]float64{{}} },
		New: func(c []float64) *Inst {
			o := trend.NewTypicalPrice[float64]()
			return &Inst{Obj: o, Idle: 0, Compute: F31(o.Compute)}
		},
		Ref:      func(c []float64, in []ref.S) []ref.S { return []ref.S{typical(in)} },
		PriceDeg: []int{1}, VolDeg: []int{0},
		Note: "no IdlePeriod method; the formula is pointwise, warm-up 0",
	})
	RegInd(&Ind{
		Name: "trend.WeightedClose", In: []string{"H", "L", "C"}, Out: []string{"wc"},
		Cfgs: func(t bool) [][]float64 { return [][]float64{{}} },
		New: func(c []float64) *Inst {
			o := trend.NewWeightedClose[float64]()
			return &Inst{Obj: o, Idle: o.IdlePeriod(), Compute: F31(o.Compute)}
		},
		Ref: func(c []float64, in []ref.S) []ref.S {
			return []ref.S{ref.Map3(in[0], in[1], in[2], func(h, l, c float64) float64 { return (h + l + 2*c) / 4 })}
		},
		PriceDeg: []int{1}, VolDeg: []int{0},
	})
}
