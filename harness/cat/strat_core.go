package cat

import (
	"github.com/cinar/indicator/v2/strategy"
	smomentum "github.com/cinar/indicator/v2/strategy/momentum"
	strend "github.com/cinar/indicator/v2/strategy/trend"
)

// Example entries (template for the other strategy catalogue files).

func init() {
	RegStrat(&Strat{
		Name: "strategy.BuyAndHoldStrategy",
		Cfgs: func(bool) [][]float64 { return [][]float64{{}} },
		New:  func([]float64) strategy.Strategy { return strategy.NewBuyAndHoldStrategy() },
		Warm: func([]float64) int { return 0 },
		Rule: func(_ []float64, b Bars) RuleFn {
			return func(i int, _ *Cmp) int {
				if i == 0 {
					return Buy
				}
				return Hold
			}
		},
		ScaleFree: true,
	})
	RegStrat(&Strat{
		Name: "trend.MacdStrategy",
		Cfgs: func(t bool) [][]float64 {
			h := Hi(t, 3, 4)
			return Box([]int{1, 1, 1}, []int{h, h, h}, func(v []int) bool { return v[0] <= v[1] })
		},
		New:  func(c []float64) strategy.Strategy { return strend.NewMacdStrategyWith(I(c, 0), I(c, 1), I(c, 2)) },
		Warm: func(c []float64) int { return I(c, 1) + I(c, 2) - 2 },
		// doc: MACD above the signal line is bullish, below bearish; the code's inline comments add the
		// zero-line guards (macd < 0 for Buy, macd > 0 for Sell) on which the doc comment is silent -> follow the code.
		Rule: func(c []float64, b Bars) RuleFn {
			r := IndRef("trend.Macd", c, b.C)
			return func(i int, k *Cmp) int {
				m, ok1 := k.Val(r[0], i)
				s, ok2 := k.Val(r[1], i)
				if !ok1 || !ok2 || k.Exempt {
					return Hold
				}
				if k.Gt(m, s) && k.Lt(m, 0) {
					return Buy
				}
				if k.Gt(s, m) && k.Gt(m, 0) {
					return Sell
				}
				return Hold
			}
		},
		ScaleFree: true,
	})
	RegStrat(&Strat{
		Name: "momentum.RsiStrategy", Periods: []int{0},
		// cfg = [rsi period, buyAt, sellAt]
		Cfgs: func(t bool) [][]float64 {
			var r [][]float64
			for p := 1; p <= Hi(t, 3, 5); p++ {
				r = append(r, []float64{float64(p), 30, 70}, []float64{float64(p), 50, 50})
			}
			// levels at and beyond the ends of the indicator's range: the usual way to switch one side off
			r = append(r, []float64{2, -10, 70}, []float64{2, 30, 110}, []float64{2, 0, 100})
			return r
		},
		New: func(c []float64) strategy.Strategy {
			s := smomentum.NewRsiStrategyWith(c[1], c[2])
			s.Rsi.Rma.Period = I(c, 0)
			return s
		},
		Warm: func(c []float64) int { return I(c, 0) },
		Rule: func(c []float64, b Bars) RuleFn {
			r := IndRef("momentum.Rsi", c[:1], b.C)
			return func(i int, k *Cmp) int {
				v, ok := k.Val(r[0], i)
				if !ok || k.Exempt {
					return Hold
				}
				if k.Le(v, c[1]) {
					return Buy
				}
				if k.Ge(v, c[2]) {
					return Sell
				}
				return Hold
			}
		},
		ScaleFree: true,
	})
}
