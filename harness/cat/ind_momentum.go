package cat

import (
	"fmt"
	"math"

	"verifharness/ref"

	"github.com/cinar/indicator/v2/momentum"
)

// Catalogue entries for package momentum (10 types).

// momRsi is the documented RSI: RS = average gain / average loss (Wilder's RMA of
// the gains and of the losses of the one-step change), RSI = 100 - 100/(1+RS).
// Average loss 0 with a positive average gain is the standard limit RSI = 100;
// both averages 0 (0/0) is exempt.
func momRsi(x ref.S, p int) ref.S {
	d := ref.Diff(x, 1)
	g := ref.Rma(ref.Map1(d, func(v float64) float64 { return math.Max(v, 0) }), p)
	l := ref.Rma(ref.Map1(d, func(v float64) float64 { return math.Max(-v, 0) }), p)
	o := ref.New(x.Len())
	zero := ref.Tol * ref.Scale
	for i := range o.V {
		if !g.Def(i) || !l.Def(i) {
			continue
		}
		if g.X[i] || l.X[i] {
			o.X[i] = true
			continue
		}
		if l.V[i] <= zero {
			if g.V[i] <= zero {
				o.X[i] = true
			} else {
				o.V[i] = 100
			}
			continue
		}
		o.V[i] = 100 - 100/(1+g.V[i]/l.V[i])
	}
	return o
}

// momMid is (highest high over p + lowest low over p) / 2.
func momMid(h, l ref.S, p int) ref.S {
	return ref.Scl(ref.Add(ref.Max(h, p), ref.Min(l, p)), 0.5)
}

// momAd is the Accumulation/Distribution line: running total of MFM*Volume,
// MFM = ((C-L)-(H-C))/(H-L).
func momAd(h, l, c, v ref.S) ref.S {
	mfm := ref.Div(ref.Sub(ref.Sub(c, l), ref.Sub(h, c)), ref.Sub(h, l))
	return ref.Cum(ref.Mul(mfm, v))
}

// momPo is the percentage oscillator triple shared by Ppo and Pvo.
func momPo(c []float64, in []ref.S) []ref.S {
	es, el := ref.Ema(in[0], I(c, 0)), ref.Ema(in[0], I(c, 1))
	p := ref.Scl(ref.Div(ref.Sub(es, el), el), 100)
	sig := ref.Ema(p, I(c, 2))
	return []ref.S{p, sig, ref.Sub(p, sig)}
}

func momBetween(lo, hi float64, names ...string) func(cfg []float64, in [][]float64, pos int, out []float64) string {
	return func(cfg []float64, in [][]float64, pos int, out []float64) string {
		slack := 1e-9 * math.Max(math.Abs(lo), math.Max(math.Abs(hi), 1))
		for j, v := range out {
			if math.IsNaN(v) || v < lo-slack || v > hi+slack {
				n := fmt.Sprint(j)
				if j < len(names) {
					n = names[j]
				}
				return fmt.Sprintf("%s = %.12g outside [%g, %g]", n, v, lo, hi)
			}
		}
		return ""
	}
}

func init() {
	RegInd(&Ind{
		Name: "momentum.AwesomeOscillator", In: []string{"H", "L"}, Out: []string{"ao"},
		Cfgs: func(t bool) [][]float64 {
			h := Hi(t, 4, 6)
			return Box([]int{1, 1}, []int{h, h}, func(v []int) bool { return v[0] <= v[1] })
		},
		New: func(c []float64) *Inst {
			o := momentum.NewAwesomeOscillator[float64]()
			o.ShortSma.Period, o.LongSma.Period = I(c, 0), I(c, 1)
			return &Inst{Obj: o, Idle: o.IdlePeriod(), Compute: F21(o.Compute)}
		},
		// Median = (Low+High)/2; AO = short SMA(Median) - long SMA(Median)
		Ref: func(c []float64, in []ref.S) []ref.S {
			m := ref.Scl(ref.Add(in[0], in[1]), 0.5)
			return []ref.S{ref.Sub(ref.Sma(m, I(c, 0)), ref.Sma(m, I(c, 1)))}
		},
		PriceDeg: []int{1}, VolDeg: []int{0},
		Note: "cfg = [short, long] with short <= long (the names imply the ordering)",
	})
	RegInd(&Ind{
		Name: "momentum.ChaikinOscillator", In: []string{"H", "L", "C", "V"}, Out: []string{"co", "ad"},
		Cfgs: func(t bool) [][]float64 {
			h := Hi(t, 4, 6)
			return Box([]int{1, 1}, []int{h, h}, func(v []int) bool { return v[0] <= v[1] })
		},
		New: func(c []float64) *Inst {
			o := momentum.NewChaikinOscillator[float64]()
			o.ShortEma.Period, o.LongEma.Period = I(c, 0), I(c, 1)
			return &Inst{Obj: o, Idle: o.IdlePeriod(), Compute: F42(o.Compute)}
		},
		// CO = Ema(fast, AD) - Ema(slow, AD); second output is AD itself
		Ref: func(c []float64, in []ref.S) []ref.S {
			ad := momAd(in[0], in[1], in[2], in[3])
			return []ref.S{ref.Sub(ref.Ema(ad, I(c, 0)), ref.Ema(ad, I(c, 1))), ad}
		},
		PriceDeg: []int{0, 0}, VolDeg: []int{1, 1},
		Note: "cfg = [fast, slow] with fast <= slow; AD as documented on volume.Ad (running total of MFM*V from position 0); bars with High = Low are exempt from then on; AD is a ratio of prices times volume, hence degrees (0,1)",
	})
	RegInd(&Ind{
		Name: "momentum.IchimokuCloud", In: []string{"H", "L", "C"},
		Out: []string{"conversion", "base", "leadingA", "leadingB", "lagging"},
		Cfgs: func(t bool) [][]float64 {
			// thorough: line periods up to 4, lagging up to 5 (100 vectors; 1..5 everywhere = 175 vectors was also run once, same result)
			h, g := Hi(t, 3, 4), Hi(t, 3, 5)
			return Box([]int{1, 1, 1, 1}, []int{h, h, h, g}, func(v []int) bool { return v[0] <= v[1] && v[1] <= v[2] })
		},
		New: func(c []float64) *Inst {
			o := momentum.NewIchimokuCloud[float64]()
			o.ConversionMax.Period, o.ConversionMin.Period = I(c, 0), I(c, 0)
			o.BaseMax.Period, o.BaseMin.Period = I(c, 1), I(c, 1)
			o.LeadingMax.Period, o.LeadingMin.Period = I(c, 2), I(c, 2)
			o.LaggingPeriod = I(c, 3)
			return &Inst{Obj: o, Idle: o.IdlePeriod(), Compute: F35(o.Compute)}
		},
		Ref: func(c []float64, in []ref.S) []ref.S {
			conv := momMid(in[0], in[1], I(c, 0))
			base := momMid(in[0], in[1], I(c, 1))
			return []ref.S{
				conv, base,
				ref.Scl(ref.Add(conv, base), 0.5),
				momMid(in[0], in[1], I(c, 2)),
				ref.Lag(in[2], I(c, 3)),
			}
		},
		AsIs: map[string]func(c []float64, in []ref.S) []ref.S{
			// positions before the lagging period carry the Shift fill value 0 instead of being withheld
			"ichimoku-lagging-zero-fill": func(c []float64, in []ref.S) []ref.S {
				conv := momMid(in[0], in[1], I(c, 0))
				base := momMid(in[0], in[1], I(c, 1))
				lag := ref.Lag(in[2], I(c, 3))
				for i := range lag.V {
					if i < I(c, 3) {
						lag.V[i] = 0
					}
				}
				return []ref.S{conv, base, ref.Scl(ref.Add(conv, base), 0.5), momMid(in[0], in[1], I(c, 2)), lag}
			},
		},
		PriceDeg: []int{1, 1, 1, 1, 1}, VolDeg: []int{0, 0, 0, 0, 0},
		Note: "cfg = [conversion, base, leadingB, lagging] with conversion <= base <= leadingB (default ordering 9/26/52); lagging span read as the closing of `lagging` positions earlier at the current position, C[i-lagging] (appendix B; the comment's 'plotted 26 days in the past' could also be read as C[i] plotted at i-26, which a stream cannot express), undefined for i < lagging",
	})
	RegInd(&Ind{
		Name: "momentum.Ppo", In: []string{"X"}, Out: []string{"ppo", "signal", "histogram"},
		Cfgs: func(t bool) [][]float64 {
			h := Hi(t, 3, 5)
			return Box([]int{1, 1, 1}, []int{h, h, h}, func(v []int) bool { return v[0] <= v[1] })
		},
		New: func(c []float64) *Inst {
			o := momentum.NewPpo[float64]()
			o.ShortEma.Period, o.LongEma.Period, o.SignalEma.Period = I(c, 0), I(c, 1), I(c, 2)
			return &Inst{Obj: o, Idle: o.IdlePeriod(), Compute: F13(o.Compute)}
		},
		Ref:      momPo,
		Positive: true,
		PriceDeg: []int{0, 0, 0}, VolDeg: []int{0, 0, 0},
		Note: "cfg = [short, long, signal] with short <= long",
	})
	RegInd(&Ind{
		Name: "momentum.Pvo", In: []string{"X"}, Out: []string{"pvo", "signal", "histogram"},
		Cfgs: func(t bool) [][]float64 {
			h := Hi(t, 3, 5)
			return Box([]int{1, 1, 1}, []int{h, h, h}, func(v []int) bool { return v[0] <= v[1] })
		},
		New: func(c []float64) *Inst {
			o := momentum.NewPvo[float64]()
			o.ShortEma.Period, o.LongEma.Period, o.SignalEma.Period = I(c, 0), I(c, 1), I(c, 2)
			return &Inst{Obj: o, Idle: o.IdlePeriod(), Compute: F13(o.Compute)}
		},
		Ref:      momPo,
		Positive: true,
		PriceDeg: []int{0, 0, 0}, VolDeg: []int{0, 0, 0},
		Note: "cfg = [short, long, signal] with short <= long; the single volume stream is treated as a plain positive series",
	})
	RegInd(&Ind{
		Name: "momentum.Qstick", In: []string{"O", "C"}, Out: []string{"qstick"},
		Cfgs: func(t bool) [][]float64 { return Box1(1, Hi(t, 4, 6)) },
		New: func(c []float64) *Inst {
			o := momentum.NewQstick[float64]()
			o.Sma.Period = I(c, 0)
			return &Inst{Obj: o, Idle: o.IdlePeriod(), Compute: F21(o.Compute)}
		},
		// QS = SMA(Closings - Openings)
		Ref: func(c []float64, in []ref.S) []ref.S {
			return []ref.S{ref.Sma(ref.Sub(in[1], in[0]), I(c, 0))}
		},
		PriceDeg: []int{1}, VolDeg: []int{0},
	})
	RegInd(&Ind{
		Name: "momentum.Rsi", In: []string{"X"}, Out: []string{"rsi"},
		Cfgs: func(t bool) [][]float64 { return Box1(1, Hi(t, 4, 6)) },
		New: func(c []float64) *Inst {
			o := momentum.NewRsiWithPeriod[float64](I(c, 0))
			return &Inst{Obj: o, Idle: o.IdlePeriod(), Compute: F11(o.Compute)}
		},
		Ref:      func(c []float64, in []ref.S) []ref.S { return []ref.S{momRsi(in[0], I(c, 0))} },
		PriceDeg: []int{0}, VolDeg: []int{0},
		Range: momBetween(0, 100, "rsi"),
		Note:  "averages are Wilder's RMA (the struct's Rma field) of gains and of losses of the one-step change; average loss 0 with positive average gain gives the standard limit 100; both 0 is exempt",
	})
	RegInd(&Ind{
		Name: "momentum.StochasticOscillator", In: []string{"H", "L", "C"}, Out: []string{"k", "d"},
		Cfgs: func(t bool) [][]float64 {
			h := Hi(t, 4, 6)
			return Box([]int{1, 1}, []int{h, h}, nil)
		},
		New: func(c []float64) *Inst {
			o := momentum.NewStochasticOscillator[float64]()
			o.Max.Period, o.Min.Period, o.Sma.Period = I(c, 0), I(c, 0), I(c, 1)
			return &Inst{Obj: o, Idle: o.IdlePeriod(), Compute: F32(o.Compute)}
		},
		// K = (Closing - Lowest Low) / (Highest High - Lowest Low) * 100; D = SMA(K)
		Ref: func(c []float64, in []ref.S) []ref.S {
			lo, hi := ref.Min(in[1], I(c, 0)), ref.Max(in[0], I(c, 0))
			k := ref.Scl(ref.Div(ref.Sub(in[2], lo), ref.Sub(hi, lo)), 100)
			return []ref.S{k, ref.Sma(k, I(c, 1))}
		},
		PriceDeg: []int{0, 0}, VolDeg: []int{0, 0},
		Range: momBetween(0, 100, "k", "d"),
		Note:  "cfg = [max/min period, D period]",
	})
	RegInd(&Ind{
		Name: "momentum.StochasticRsi", In: []string{"X"}, Out: []string{"stochrsi"},
		// cfg = [RSI period, min/max window]; the constructor sets both to one period, the fields are public and the
		// unchanged code aligns the branches by the window's own idle period, so mixed periods are explored as well
		Cfgs: func(t bool) [][]float64 {
			h := Hi(t, 4, 6)
			return Box([]int{1, 2}, []int{h, h}, nil)
		},
		New: func(c []float64) *Inst {
			o := momentum.NewStochasticRsiWithPeriod[float64](I(c, 1))
			o.Rsi = momentum.NewRsiWithPeriod[float64](I(c, 0))
			return &Inst{Obj: o, Idle: o.IdlePeriod(), Compute: F11(o.Compute)}
		},
		// (RSI - Min(RSI)) / (Max(RSI) - Min(RSI)), min and max over the window
		Ref: func(c []float64, in []ref.S) []ref.S {
			r := momRsi(in[0], I(c, 0))
			lo, hi := ref.Min(r, I(c, 1)), ref.Max(r, I(c, 1))
			return []ref.S{ref.DivScaled(ref.Sub(r, lo), ref.Sub(hi, lo), 100)}
		},
		PriceDeg: []int{0}, VolDeg: []int{0},
		Range: momBetween(0, 1, "stochrsi"),
		Note:  "window starts at 2: with a window of 1 max = min = RSI and the formula is 0/0 everywhere",
	})
	RegInd(&Ind{
		Name: "momentum.WilliamsR", In: []string{"H", "L", "C"}, Out: []string{"wr"},
		Cfgs: func(t bool) [][]float64 { return Box1(1, Hi(t, 4, 6)) },
		New: func(c []float64) *Inst {
			o := momentum.NewWilliamsR[float64]()
			o.Max.Period, o.Min.Period = I(c, 0), I(c, 0)
			return &Inst{Obj: o, Idle: o.IdlePeriod(), Compute: F31(o.Compute)}
		},
		// WR = (Highest High - Closing) / (Highest High - Lowest Low) * -100
		Ref: func(c []float64, in []ref.S) []ref.S {
			hi, lo := ref.Max(in[0], I(c, 0)), ref.Min(in[1], I(c, 0))
			return []ref.S{ref.Scl(ref.Div(ref.Sub(hi, in[2]), ref.Sub(hi, lo)), -100)}
		},
		PriceDeg: []int{0}, VolDeg: []int{0},
		Range: momBetween(-100, 0, "wr"),
	})
}
