// Package cat is the scenario catalogue: one entry per indicator / strategy with
// its constructor, input fields, declared warm-up, documented reference, range
// predicates and homogeneity degrees.
package cat

import (
	"verifharness/ref"
)

// Ch is a float64 stream.
type Ch = <-chan float64

// Inst is one constructed indicator instance.
type Inst struct {
	Obj     any                // the instance (for deep dumps / reuse)
	Idle    int                // declared (IdlePeriod()) or implied warm-up
	Compute func(in []Ch) []Ch // calls Obj.Compute
}

// Ind is a catalogue entry for an indicator type.
type Ind struct {
	Name string   // "trend.Sma"
	In   []string // input fields in Compute order: "X","Y" (plain series) or "O","H","L","C","V"
	Out  []string // output names
	// Cfgs lists the admissible configurations to explore (period vectors etc.).
	Cfgs func(thorough bool) [][]float64
	New  func(cfg []float64) *Inst
	// Ref restates the documented formula, position-aligned with the inputs.
	Ref func(cfg []float64, in []ref.S) []ref.S
	// AsIs holds known-defect models keyed by known-finding key: what the
	// implementation computes today where it differs from Ref.
	AsIs map[string]func(cfg []float64, in []ref.S) []ref.S
	// Positive: the documented formula presupposes positive prices.
	Positive bool
	// PriceDeg / VolDeg: homogeneity degree of each output in prices / volumes (C18); nil = not claimed.
	PriceDeg []int
	VolDeg   []int
	// Range is the C15 predicate: given the outputs at one position (and the raw
	// inputs at that position), return "" or a description of the violated bound.
	Range func(cfg []float64, in [][]float64, pos int, out []float64) string
	// RangeKnown classifies a Range violation as a known finding (returns its key or "").
	RangeKnown func(cfg []float64, in [][]float64, pos int, out []float64) string
	// ScaleKnown classifies a homogeneity violation as a known finding (returns its key or "").
	ScaleKnown func(cfg []float64, volume bool) string
	// Note documents reading choices (where the doc comment is shorthand).
	Note string
	// Periods lists the configuration components that are periods (nil = all of them).
	Periods []int
}

// Inds is the indicator catalogue.
var Inds []*Ind

// RegInd appends an entry.
func RegInd(e *Ind) { Inds = append(Inds, e) }

// FindInd looks an entry up by name.
func FindInd(name string) *Ind {
	for _, e := range Inds {
		if e.Name == name {
			return e
		}
	}
	return nil
}

// Adapters from typed Compute methods to the uniform shape.

func F11(f func(Ch) Ch) func([]Ch) []Ch { return func(i []Ch) []Ch { return []Ch{f(i[0])} } }
func F12(f func(Ch) (Ch, Ch)) func([]Ch) []Ch {
	return func(i []Ch) []Ch { a, b := f(i[0]); return []Ch{a, b} }
}
func F13(f func(Ch) (Ch, Ch, Ch)) func([]Ch) []Ch {
	return func(i []Ch) []Ch { a, b, c := f(i[0]); return []Ch{a, b, c} }
}
func F21(f func(Ch, Ch) Ch) func([]Ch) []Ch { return func(i []Ch) []Ch { return []Ch{f(i[0], i[1])} } }
func F22(f func(Ch, Ch) (Ch, Ch)) func([]Ch) []Ch {
	return func(i []Ch) []Ch { a, b := f(i[0], i[1]); return []Ch{a, b} }
}
func F31(f func(Ch, Ch, Ch) Ch) func([]Ch) []Ch {
	return func(i []Ch) []Ch { return []Ch{f(i[0], i[1], i[2])} }
}
func F32(f func(Ch, Ch, Ch) (Ch, Ch)) func([]Ch) []Ch {
	return func(i []Ch) []Ch { a, b := f(i[0], i[1], i[2]); return []Ch{a, b} }
}
func F33(f func(Ch, Ch, Ch) (Ch, Ch, Ch)) func([]Ch) []Ch {
	return func(i []Ch) []Ch { a, b, c := f(i[0], i[1], i[2]); return []Ch{a, b, c} }
}
func F35(f func(Ch, Ch, Ch) (Ch, Ch, Ch, Ch, Ch)) func([]Ch) []Ch {
	return func(i []Ch) []Ch { a, b, c, d, e := f(i[0], i[1], i[2]); return []Ch{a, b, c, d, e} }
}
func F41(f func(Ch, Ch, Ch, Ch) Ch) func([]Ch) []Ch {
	return func(i []Ch) []Ch { return []Ch{f(i[0], i[1], i[2], i[3])} }
}
func F42(f func(Ch, Ch, Ch, Ch) (Ch, Ch)) func([]Ch) []Ch {
	return func(i []Ch) []Ch { a, b := f(i[0], i[1], i[2], i[3]); return []Ch{a, b} }
}

// Period boxes.

// Box1 lists single periods lo..hi.
func Box1(lo, hi int) [][]float64 {
	var r [][]float64
	for p := lo; p <= hi; p++ {
		r = append(r, []float64{float64(p)})
	}
	return r
}

// Box enumerates all vectors with the given per-component ranges that satisfy ok.
func Box(lo, hi []int, ok func(v []int) bool) [][]float64 {
	var r [][]float64
	v := make([]int, len(lo))
	var rec func(k int)
	rec = func(k int) {
		if k == len(lo) {
			if ok == nil || ok(v) {
				f := make([]float64, len(v))
				for i, x := range v {
					f[i] = float64(x)
				}
				r = append(r, f)
			}
			return
		}
		for x := lo[k]; x <= hi[k]; x++ {
			v[k] = x
			rec(k + 1)
		}
	}
	rec(0)
	return r
}

// Hi picks the upper period bound per tier.
func Hi(thorough bool, quick, deep int) int {
	if thorough {
		return deep
	}
	return quick
}

// I converts a configuration component to int.
func I(cfg []float64, k int) int { return int(cfg[k]) }
