package core

import (
	"math"
	"reflect"
)

// JSONSafe converts v into a tree of maps/slices/scalars in which non-finite
// floats are rendered as strings, so that encoding/json never fails on it.
func JSONSafe(v any) any {
	return safe(reflect.ValueOf(v), 0)
}

func safe(v reflect.Value, depth int) any {
	if !v.IsValid() || depth > 50 {
		return nil
	}
	switch v.Kind() {
	case reflect.Float32, reflect.Float64:
		f := v.Float()
		switch {
		case math.IsNaN(f):
			return "NaN"
		case math.IsInf(f, 1):
			return "+Inf"
		case math.IsInf(f, -1):
			return "-Inf"
		}
		return f
	case reflect.Pointer, reflect.Interface:
		if v.IsNil() {
			return nil
		}
		return safe(v.Elem(), depth+1)
	case reflect.Slice, reflect.Array:
		if v.Kind() == reflect.Slice && v.IsNil() {
			return nil
		}
		out := make([]any, v.Len())
		for i := range out {
			out[i] = safe(v.Index(i), depth+1)
		}
		return out
	case reflect.Map:
		out := map[string]any{}
		for _, k := range v.MapKeys() {
			ks, ok := safe(k, depth+1).(string)
			if !ok {
				ks = reflect.ValueOf(safe(k, depth+1)).String()
			}
			out[ks] = safe(v.MapIndex(k), depth+1)
		}
		return out
	case reflect.Struct:
		out := map[string]any{}
		t := v.Type()
		for i := 0; i < v.NumField(); i++ {
			f := t.Field(i)
			if !f.IsExported() {
				continue
			}
			name := f.Name
			if tag := f.Tag.Get("json"); tag != "" {
				for j := 0; j < len(tag); j++ {
					if tag[j] == ',' {
						tag = tag[:j]
						break
					}
				}
				if tag == "-" {
					continue
				}
				if tag != "" {
					name = tag
				}
			}
			out[name] = safe(v.Field(i), depth+1)
		}
		return out
	case reflect.Chan, reflect.Func, reflect.UnsafePointer:
		return nil
	default:
		return v.Interface()
	}
}
