package core

import (
	"fmt"
	"reflect"
	"sort"
	"strings"
	"unsafe"
)

// Dump renders the complete concrete state reachable from v (exported and
// unexported fields, following pointers, with sharing/cycles rendered as
// back-references) as a canonical string. It does not depend on field names of
// the dumped types, so it survives refactoring.
func Dump(v any) string {
	var sb strings.Builder
	d := &dumper{sb: &sb, seen: map[unsafe.Pointer]int{}}
	d.dump(reflect.ValueOf(v), 0)
	return sb.String()
}

type dumper struct {
	sb   *strings.Builder
	seen map[unsafe.Pointer]int
}

func (d *dumper) dump(v reflect.Value, depth int) {
	if depth > 200 {
		d.sb.WriteString("<deep>")
		return
	}
	if !v.IsValid() {
		d.sb.WriteString("nil")
		return
	}
	switch v.Kind() {
	case reflect.Pointer:
		if v.IsNil() {
			d.sb.WriteString("nil")
			return
		}
		p := v.UnsafePointer()
		if id, ok := d.seen[p]; ok {
			fmt.Fprintf(d.sb, "^%d", id)
			return
		}
		d.seen[p] = len(d.seen)
		d.sb.WriteByte('&')
		d.dump(v.Elem(), depth+1)
	case reflect.Interface:
		if v.IsNil() {
			d.sb.WriteString("nil")
			return
		}
		fmt.Fprintf(d.sb, "(%s)", v.Elem().Type())
		d.dump(v.Elem(), depth+1)
	case reflect.Struct:
		d.sb.WriteByte('{')
		for i := 0; i < v.NumField(); i++ {
			if i > 0 {
				d.sb.WriteByte(' ')
			}
			f := v.Field(i)
			if !f.CanInterface() && f.CanAddr() {
				f = reflect.NewAt(f.Type(), unsafe.Pointer(f.UnsafeAddr())).Elem()
			}
			fmt.Fprintf(d.sb, "%s:", v.Type().Field(i).Name)
			d.dump(f, depth+1)
		}
		d.sb.WriteByte('}')
	case reflect.Slice, reflect.Array:
		if v.Kind() == reflect.Slice && v.IsNil() {
			d.sb.WriteString("[]")
			return
		}
		d.sb.WriteByte('[')
		for i := 0; i < v.Len(); i++ {
			if i > 0 {
				d.sb.WriteByte(' ')
			}
			d.dump(v.Index(i), depth+1)
		}
		d.sb.WriteByte(']')
	case reflect.Map:
		keys := v.MapKeys()
		ss := make([]string, len(keys))
		for i, k := range keys {
			var kb strings.Builder
			kd := &dumper{sb: &kb, seen: d.seen}
			kd.dump(k, depth+1)
			kb.WriteByte('=')
			kd.dump(v.MapIndex(k), depth+1)
			ss[i] = kb.String()
		}
		sort.Strings(ss)
		d.sb.WriteString("map[" + strings.Join(ss, " ") + "]")
	case reflect.Chan, reflect.Func, reflect.UnsafePointer:
		if v.IsNil() {
			d.sb.WriteString("nil")
		} else {
			d.sb.WriteString("<" + v.Kind().String() + ">")
		}
	case reflect.Float32, reflect.Float64:
		fmt.Fprintf(d.sb, "%v", v.Float())
	case reflect.Int, reflect.Int8, reflect.Int16, reflect.Int32, reflect.Int64:
		fmt.Fprintf(d.sb, "%d", v.Int())
	case reflect.Uint, reflect.Uint8, reflect.Uint16, reflect.Uint32, reflect.Uint64, reflect.Uintptr:
		fmt.Fprintf(d.sb, "%d", v.Uint())
	case reflect.Bool:
		fmt.Fprintf(d.sb, "%v", v.Bool())
	case reflect.String:
		fmt.Fprintf(d.sb, "%q", v.String())
	default:
		fmt.Fprintf(d.sb, "<%s>", v.Kind())
	}
}

// MakeAddressable copies v into a fresh addressable value so that unexported
// fields of a struct passed by value can be read.
func MakeAddressable(v any) any {
	rv := reflect.ValueOf(v)
	if rv.Kind() == reflect.Pointer {
		return v
	}
	p := reflect.New(rv.Type())
	p.Elem().Set(rv)
	return p.Interface()
}
