// Package core is the check driver: work units, sharding over worker
// processes, merging, known-finding classification, evidence and replay files.
package core

import (
	"crypto/sha256"
	"encoding/json"
	"fmt"
	"os"
	"os/exec"
	"path/filepath"
	"runtime"
	"sort"
	"strconv"
	"strings"
	"sync"
	"time"
)

// Finding is one observed property violation (before known-finding classification).
type Finding struct {
	Prop string `json:"property"`
	Key  string `json:"key"` // known-defect model that explains it ("" = unexplained)
	Msg  string `json:"message"`
	Unit string `json:"unit"`
	Case any    `json:"case,omitempty"`
}

// Ctx accumulates what a worker covered.
type Ctx struct {
	Prop         string                     `json:"property"`
	Tier         string                     `json:"tier"`
	Seed         int64                      `json:"seed"`
	States       int64                      `json:"states"`
	Transitions  int64                      `json:"transitions"`
	Executions   int64                      `json:"executions"`
	Evaluations  int64                      `json:"evaluations"`
	Nontrivial   int64                      `json:"distinct_nontrivial"`
	Samples      []any                      `json:"samples"`
	Findings     []Finding                  `json:"findings"`
	FindCount    map[string]int64           `json:"find_count"`
	Notes        map[string]any             `json:"notes"`
	Counters     map[string]int64           `json:"counters"`
	Sets         map[string]map[string]bool `json:"sets"`
	Inexhaustive []string                   `json:"inexhaustive"`
	Internal     []string                   `json:"internal"`
	Unit         string                     `json:"-"`
	Only         string                     `json:"-"` // replay: restrict to this case id
	mu           sync.Mutex
}

// NewCtx makes an empty context.
func NewCtx(prop, tier string, seed int64) *Ctx {
	return &Ctx{Prop: prop, Tier: tier, Seed: seed, FindCount: map[string]int64{}, Notes: map[string]any{}, Counters: map[string]int64{}, Sets: map[string]map[string]bool{}}
}

// Thorough reports whether the thorough tier is running.
func (c *Ctx) Thorough() bool { return c.Tier == "thorough" }

// Sample keeps up to a few sample cases.
func (c *Ctx) Sample(v any) {
	if len(c.Samples) < 4 {
		c.Samples = append(c.Samples, JSONSafe(v))
	}
}

// Count bumps a named counter.
func (c *Ctx) Count(name string, n int64) { c.Counters[name] += n }

// SetAdd adds an element to a named set (used for distinct-outcome counting).
func (c *Ctx) SetAdd(set, el string) {
	m := c.Sets[set]
	if m == nil {
		m = map[string]bool{}
		c.Sets[set] = m
	}
	if len(m) < 100000 {
		m[el] = true
	}
}

// Fail records a violation. key names the known-defect model that explains the
// observation ("" if none does).
func (c *Ctx) Fail(key, msg string, cs any) {
	k := key + "|" + c.Unit
	c.FindCount[key]++
	n := 0
	for _, f := range c.Findings {
		if f.Key+"|"+f.Unit == k {
			n++
		}
	}
	if n >= 2 || len(c.Findings) > 400 {
		return
	}
	c.Findings = append(c.Findings, Finding{Prop: c.Prop, Key: key, Msg: msg, Unit: c.Unit, Case: JSONSafe(cs)})
}

// NotExhaustive notes that a cap cut the exploration.
func (c *Ctx) NotExhaustive(why string) {
	for _, w := range c.Inexhaustive {
		if w == why {
			return
		}
	}
	if len(c.Inexhaustive) < 20 {
		c.Inexhaustive = append(c.Inexhaustive, why)
	}
}

// InternalError notes a failure of the machinery itself (never a VIOLATION).
func (c *Ctx) InternalError(msg string) {
	if len(c.Internal) < 20 {
		c.Internal = append(c.Internal, c.Unit+": "+msg)
	}
}

// Unit is an independently runnable piece of a check.
type Unit struct {
	Key  string
	Cost int
	Run  func(c *Ctx)
	// First: scheduled before the units ordered by cost (cheap units that look at a whole class of defects at once).
	First bool
}

// Check describes one property check.
type Check struct {
	ID     string
	Rule   string   // how cases are enumerated / what is non-trivial
	Assume []string // assumptions / trusted base
	Units  func(tier string) []Unit
	// Coverage optionally reports which types of the repository the check's catalogue covers.
	Coverage func() any
}

var registry = map[string]*Check{}

// Register adds a check.
func Register(c *Check) { registry[c.ID] = c }

// Lookup finds a check.
func Lookup(id string) *Check { return registry[id] }

// IDs lists the registered checks.
func IDs() []string {
	var ids []string
	for k := range registry {
		ids = append(ids, k)
	}
	sort.Strings(ids)
	return ids
}

// RunShard runs shard i of n of a check in this process.
func RunShard(ch *Check, tier string, seed int64, i, n int, only string, unitFilter string) *Ctx {
	ctx := NewCtx(ch.ID, tier, seed)
	ctx.Only = only
	units := ch.Units(tier)
	sort.SliceStable(units, func(a, b int) bool {
		if units[a].First != units[b].First {
			return units[a].First
		}
		return units[a].Cost > units[b].Cost
	})
	// Two guards against a tree on which the exploration explodes (a change that makes every pipeline touch one shared
	// object turns each scenario's DPOR into thousands of traces): no shard starts further units (beyond its first four) once any shard of
	// the run holds an unexplained violation (the verdict is settled), and once the tier's time budget is used up (25 min quick, 150 min
	// thorough; ten times what the slowest check needs on the unchanged tree). Units not run are reported: the run
	// is then not exhaustive, which a violation-free run on the unchanged tree never is for this reason.
	budget := 25 * time.Minute
	if tier == "thorough" {
		budget = 150 * time.Minute
	}
	if v, err := strconv.Atoi(os.Getenv("VERIF_SHARD_BUDGET_S")); err == nil && v > 0 {
		budget = time.Duration(v) * time.Second
	}
	deadline := time.Now().Add(budget)
	skippedViol, skippedTime := 0, 0
	for k, u := range units {
		if k%n != i {
			continue
		}
		if unitFilter != "" && u.Key != unitFilter {
			continue
		}
		if pre := os.Getenv("VERIF_ONLY"); pre != "" && !matchAny(u.Key, pre) {
			continue
		}
		unexplained := 0
		for _, f := range ctx.Findings {
			if f.Key == "" {
				unexplained++
			}
		}
		stop := os.Getenv("VERIF_STOPFILE")
		if unexplained > 0 && stop != "" {
			os.WriteFile(stop, []byte(ctx.Findings[0].Unit), 0o600) // tells the other shards of this run
		}
		if unitFilter == "" && stop != "" {
			if _, err := os.Stat(stop); err == nil && k >= 4*n {
				// some shard holds an unexplained violation: the verdict is settled, no further units are started
				// (every shard still runs its first four units, so that a run reports more than one witness)
				skippedViol++
				continue
			}
		}
		if time.Now().After(deadline) {
			skippedTime++
			continue
		}
		ctx.Unit = u.Key
		func() {
			defer func() {
				if r := recover(); r != nil {
					buf := make([]byte, 4096)
					m := runtime.Stack(buf, false)
					ctx.InternalError(fmt.Sprintf("harness panic: %v\n%s", r, buf[:m]))
				}
			}()
			u.Run(ctx)
		}()
	}
	ctx.Unit = ""
	if skippedViol > 0 {
		ctx.NotExhaustive(fmt.Sprintf("an unexplained violation was found: remaining units not run (%d in one shard)", skippedViol))
	}
	if skippedTime > 0 {
		ctx.NotExhaustive(fmt.Sprintf("a shard used up its time budget of %v (%d units of it not run)", budget, skippedTime))
	}
	return ctx
}

// Stopped reports whether some shard of this run already holds an unexplained violation (see RunShard): long units
// poll it between scenarios.
func Stopped() bool {
	stop := os.Getenv("VERIF_STOPFILE")
	if stop == "" {
		return false
	}
	_, err := os.Stat(stop)
	return err == nil
}

// KnownFindings is the committed list of recorded defects.
type KnownFindings struct {
	Findings []struct {
		Property string `json:"property"`
		Key      string `json:"key"`
		What     string `json:"what"`
	} `json:"findings"`
	Fixed []string `json:"fixed"`
}

// LoadKnown reads known_findings.json.
func LoadKnown(root string) KnownFindings {
	var k KnownFindings
	b, err := os.ReadFile(filepath.Join(root, "known_findings.json"))
	if err == nil {
		json.Unmarshal(b, &k)
	}
	return k
}

// Drive runs the whole check with worker processes, writes evidence, prints the
// interface lines and returns the exit code.
func Drive(ch *Check, tier string, seed int64, root string, workers int, self string) int {
	t0 := time.Now()
	nunits := len(ch.Units(tier))
	if workers > nunits {
		workers = nunits
	}
	if workers < 1 {
		workers = 1
	}
	tmp, _ := os.MkdirTemp(filepath.Join(root, ".cache"), "run-")
	defer os.RemoveAll(tmp)
	var wg sync.WaitGroup
	outs := make([]*Ctx, workers)
	errs := make([]string, workers)
	for i := 0; i < workers; i++ {
		wg.Add(1)
		go func(i int) {
			defer wg.Done()
			of := filepath.Join(tmp, fmt.Sprintf("shard-%d.json", i))
			cmd := exec.Command(self, "worker", ch.ID, tier, strconv.Itoa(i), strconv.Itoa(workers), of)
			gmp := "GOMAXPROCS=1"
			if os.Getenv("VERIF_FREE") != "" {
				gmp = "GOMAXPROCS=4" // free-running pass: real parallelism for the race detector
			}
			cmd.Env = append(os.Environ(), gmp, "VERIF_SEED="+strconv.FormatInt(seed, 10), "VERIF_STOPFILE="+filepath.Join(tmp, "violation-found"))
			cmd.Stderr = os.Stderr
			var sb strings.Builder
			cmd.Stdout = &sb
			if err := cmd.Run(); err != nil {
				errs[i] = fmt.Sprintf("worker %d: %v: %s", i, err, tail(sb.String(), 2000))
				return
			}
			b, err := os.ReadFile(of)
			if err != nil {
				errs[i] = fmt.Sprintf("worker %d: %v", i, err)
				return
			}
			c := NewCtx(ch.ID, tier, seed)
			if err := json.Unmarshal(b, c); err != nil {
				errs[i] = fmt.Sprintf("worker %d: %v", i, err)
				return
			}
			outs[i] = c
		}(i)
	}
	wg.Wait()
	total := NewCtx(ch.ID, tier, seed)
	for i, c := range outs {
		if c == nil {
			total.Internal = append(total.Internal, errs[i])
			continue
		}
		total.merge(c)
	}
	return Finish(ch, total, root, time.Since(t0))
}

// matchAny reports whether key starts with one of the comma-separated prefixes.
func matchAny(key, prefixes string) bool {
	for _, p := range strings.Split(prefixes, ",") {
		if p != "" && strings.HasPrefix(key, p) {
			return true
		}
	}
	return false
}

func tail(s string, n int) string {
	if len(s) > n {
		return s[len(s)-n:]
	}
	return s
}

func (c *Ctx) merge(o *Ctx) {
	c.States += o.States
	c.Transitions += o.Transitions
	c.Executions += o.Executions
	c.Evaluations += o.Evaluations
	c.Nontrivial += o.Nontrivial
	for _, s := range o.Samples {
		c.Sample(s)
	}
	c.Findings = append(c.Findings, o.Findings...)
	for k, v := range o.FindCount {
		c.FindCount[k] += v
	}
	for k, v := range o.Notes {
		c.Notes[k] = v
	}
	for k, v := range o.Counters {
		c.Counters[k] += v
	}
	for k, v := range o.Sets {
		for e := range v {
			c.SetAdd(k, e)
		}
	}
	for _, w := range o.Inexhaustive {
		c.NotExhaustive(w)
	}
	c.Internal = append(c.Internal, o.Internal...)
}

// Finish classifies findings, writes the evidence file and prints the interface lines.
func Finish(ch *Check, c *Ctx, root string, wall time.Duration) int {
	known := LoadKnown(root)
	kn := map[string]string{}
	for _, f := range known.Findings {
		if f.Property == ch.ID {
			kn[f.Key] = f.What
		}
	}
	exit := 0
	printedKnown := map[string]bool{}
	var knownKeys []string
	violations := 0
	os.MkdirAll(filepath.Join(root, "replays"), 0o755)
	printedViol := map[string]bool{}
	sort.SliceStable(c.Findings, func(a, b int) bool {
		_, ka := kn[c.Findings[a].Key]
		_, kb := kn[c.Findings[b].Key]
		if ka != kb {
			return ka
		}
		if (c.Findings[a].Key == "") != (c.Findings[b].Key == "") {
			return c.Findings[a].Key == ""
		}
		return false
	})
	for _, f := range c.Findings {
		if what, ok := kn[f.Key]; ok && f.Key != "" {
			if !printedKnown[f.Key] {
				printedKnown[f.Key] = true
				knownKeys = append(knownKeys, f.Key)
				fmt.Printf("KNOWN-FINDING: property=%s %s: %s (e.g. %s)\n", ch.ID, f.Key, what, oneLine(f.Msg, 200))
			}
			continue
		}
		violations++
		vk := f.Key + "|" + f.Unit
		if printedViol[vk] || len(printedViol) >= 12 {
			continue
		}
		printedViol[vk] = true
		js, _ := json.MarshalIndent(f, "", " ")
		h := sha256.Sum256(js)
		path := filepath.Join(root, "replays", fmt.Sprintf("%s-%x.json", ch.ID, h[:6]))
		os.WriteFile(path, js, 0o644)
		fmt.Printf("VIOLATION property=%s replay=%s\n", ch.ID, path)
		fmt.Printf("  unit=%s key=%q %s\n", f.Unit, f.Key, oneLine(f.Msg, 600))
		exit = 1
	}
	// development aid: every finding of the last run, one per line
	{
		var sb strings.Builder
		for _, f := range c.Findings {
			fmt.Fprintf(&sb, "%s\t%s\t%s\n", f.Unit, f.Key, oneLine(f.Msg, 400))
		}
		os.WriteFile(filepath.Join(root, ".cache", "findings-"+ch.ID+".txt"), []byte(sb.String()), 0o644)
	}
	for _, m := range c.Internal {
		fmt.Fprintf(os.Stderr, "INTERNAL (machinery, not a property verdict): %s\n", oneLine(m, 1500))
	}
	exhaustive := len(c.Inexhaustive) == 0 && len(c.Internal) == 0
	sets := map[string]int{}
	setEx := map[string][]string{}
	for k, v := range c.Sets {
		sets[k] = len(v)
		var el []string
		for e := range v {
			el = append(el, e)
		}
		sort.Strings(el)
		if len(el) > 12 {
			el = el[:12]
		}
		setEx[k] = el
	}
	if len(c.Samples) == 0 {
		c.Samples = append(c.Samples, "no case was explored")
	}
	if ch.Coverage != nil {
		if cov := ch.Coverage(); cov != nil {
			c.Notes["catalogue coverage"] = cov
		}
	}
	states, trans := c.States, c.Transitions
	cov := map[string]any{
		"states": states, "transitions": trans, "traces_validated_against_impl": c.Executions,
		"evaluations": c.Evaluations, "distinct_nontrivial": c.Nontrivial, "rule": ch.Rule,
		"samples": c.Samples, "exhaustive": exhaustive, "caps_hit": c.Inexhaustive,
		"counters": c.Counters, "distinct_sets": sets, "distinct_sets_examples": setEx, "notes": c.Notes,
		"known_findings_seen": knownKeys, "finding_counts": c.FindCount, "internal_errors": c.Internal,
		"explanation": "every explored trace is an execution of the real (instrumented) implementation; states/transitions are the nodes/edges of the explored space as defined in rule",
	}
	ev := map[string]any{
		"property_id": ch.ID, "tier": c.Tier, "seed": c.Seed, "level": "model_checking",
		"coverage": cov, "assumptions": ch.Assume, "wall_s": wall.Seconds(), "violations": violations,
	}
	js, _ := json.MarshalIndent(ev, "", " ")
	// VERIF_EVIDENCE_DIR: runs against a scratch tree (tools/runseeded.sh) must not overwrite the evidence of /repo
	evdir := os.Getenv("VERIF_EVIDENCE_DIR")
	if evdir == "" {
		evdir = filepath.Join(root, "evidence")
	}
	os.MkdirAll(evdir, 0o755)
	os.WriteFile(filepath.Join(evdir, ch.ID+".json"), js, 0o644)
	fmt.Printf("%s %s: states=%d transitions=%d executions=%d evaluations=%d nontrivial=%d exhaustive=%v violations=%d known=%d wall=%.1fs\n",
		ch.ID, c.Tier, states, trans, c.Executions, c.Evaluations, c.Nontrivial, exhaustive, violations, len(knownKeys), wall.Seconds())
	if exit == 0 && len(c.Internal) > 0 {
		return 2
	}
	return exit
}

func oneLine(s string, n int) string {
	s = strings.ReplaceAll(s, "\n", " / ")
	if len(s) > n {
		s = s[:n] + "…"
	}
	return s
}
