package core

import (
	"crypto/sha256"
	"encoding/json"
	"fmt"
	"os"
	"path/filepath"
	"regexp"
	"sort"
	"strings"
)

// RaceFilter reads the reports Go's race detector wrote during the free-running pass (GORACE log_path files) and keeps
// the ones whose two conflicting accesses both lie in the library (top frames under srcDir, the instrumented copy of the
// repository, and not in the verification runtime mounted inside it): the harness itself is written for one goroutine
// at a time and its own accesses are of no interest. Every distinct library race is a VIOLATION of the property (a
// report of the race detector is never a false positive); the pass and its numbers are recorded in the evidence file.
func RaceFilter(id, root, srcDir string, logs []string) int {
	type access struct{ fn, file string }
	frameRe := regexp.MustCompile(`^\s+(\S+)\(`)
	fileRe := regexp.MustCompile(`^\s+(/\S+\.go):(\d+)`)
	total, harnessOnly := 0, 0
	lib := map[string]string{}
	for _, lf := range logs {
		b, err := os.ReadFile(lf)
		if err != nil {
			continue
		}
		for _, rep := range strings.Split(string(b), "WARNING: DATA RACE")[1:] {
			if i := strings.Index(rep, "=================="); i >= 0 {
				rep = rep[:i]
			}
			total++
			lines := strings.Split(rep, "\n")
			var acc []access
			for i := 0; i < len(lines); i++ {
				l := lines[i]
				if strings.Contains(l, " by goroutine ") || strings.Contains(l, " by main goroutine") {
					if strings.HasPrefix(strings.TrimSpace(l), "Goroutine") {
						continue
					}
					// the first frame that is not a verification shim is the accessing code
					for j := i + 1; j+1 < len(lines) && strings.TrimSpace(lines[j]) != ""; j += 2 {
						fm, fl := frameRe.FindStringSubmatch(lines[j]), fileRe.FindStringSubmatch(lines[j+1])
						if fm == nil || fl == nil {
							break
						}
						if strings.Contains(fl[1], "/verifmc/") || strings.HasPrefix(fm[1], "runtime.") || strings.HasPrefix(fm[1], "sync.") || strings.HasPrefix(fm[1], "sync/atomic.") {
							continue
						}
						acc = append(acc, access{fm[1], fl[1] + ":" + fl[2]})
						break
					}
				}
			}
			if len(acc) < 2 {
				harnessOnly++
				continue
			}
			inLib := func(a access) bool {
				return strings.HasPrefix(a.file, srcDir+"/") || strings.HasPrefix(a.file, "/repo/") || strings.HasPrefix(a.fn, "github.com/cinar/indicator/v2/")
			}
			if !inLib(acc[0]) || !inLib(acc[1]) {
				harnessOnly++
				continue
			}
			strip := func(a access) string {
				f := strings.TrimPrefix(strings.TrimPrefix(a.file, srcDir+"/"), "/repo/")
				if k := strings.LastIndex(f, ":"); k >= 0 {
					f = f[:k]
				}
				return a.fn + " (" + f + ")"
			}
			pair := []string{strip(acc[0]), strip(acc[1])}
			sort.Strings(pair)
			key := pair[0] + " <> " + pair[1]
			if _, ok := lib[key]; !ok {
				lib[key] = "WARNING: DATA RACE" + rep
			}
		}
	}
	known := LoadKnown(root)
	rc := 0
	var keys []string
	for k := range lib {
		keys = append(keys, k)
	}
	sort.Strings(keys)
	var listed []string
	for _, k := range keys {
		kk := "free-race:" + k
		isKnown := false
		for _, f := range known.Findings {
			if f.Property == id && f.Key == kk {
				fmt.Printf("KNOWN-FINDING: property=%s %s: %s\n", id, kk, f.What)
				isKnown = true
			}
		}
		listed = append(listed, k)
		if isKnown {
			continue
		}
		h := sha256.Sum256([]byte(k))
		file := filepath.Join(root, "replays", fmt.Sprintf("%s-race-%x.txt", id, h[:6]))
		os.MkdirAll(filepath.Dir(file), 0o755)
		os.WriteFile(file, []byte("free-running pass under the Go race detector, property "+id+"\nkey: "+kk+"\n\n"+lib[k]), 0o644)
		fmt.Printf("VIOLATION property=%s replay=%s\n  data race in the library reported by Go's race detector in the free-running pass: %s\n", id, file, k)
		rc = 1
	}
	// record the pass in the evidence file written by the deciding run
	evdir := os.Getenv("VERIF_EVIDENCE_DIR")
	if evdir == "" {
		evdir = filepath.Join(root, "evidence")
	}
	ef := filepath.Join(evdir, id+".json")
	if b, err := os.ReadFile(ef); err == nil {
		var ev map[string]any
		if json.Unmarshal(b, &ev) == nil {
			cov, _ := ev["coverage"].(map[string]any)
			if cov != nil {
				cov["free_running_race_pass"] = map[string]any{
					"what":                      "the same harness bodies run as ordinary goroutines (GOMAXPROCS=4 per worker) in a binary built with -race; a sample that complements the happens-before detector of the exhaustive exploration, it decides nothing by itself",
					"reports_total":             total,
					"reports_involving_harness": harnessOnly,
					"distinct_library_races":    listed,
					"log_files":                 len(logs),
				}
				if rc != 0 {
					ev["violations"] = append(toSlice(ev["violations"]), map[string]any{"kind": "free-running race", "races": listed})
				}
				if js, err := json.MarshalIndent(ev, "", " "); err == nil {
					os.WriteFile(ef, js, 0o644)
				}
			}
		}
	}
	fmt.Printf("%s race pass: reports=%d harness-only=%d library-races=%d\n", id, total, harnessOnly, len(lib))
	return rc
}

func toSlice(v any) []any {
	if s, ok := v.([]any); ok {
		return s
	}
	return nil
}
