// Package explore holds the schedule explorers that drive the mc runtime:
// S0 (canonical schedule), S2 (delay-bounded DFS, no independence assumption),
// S1 (stateless DPOR over Mazurkiewicz traces) and an unreduced full DFS used by
// the engine self-tests.
package explore

import (
	"fmt"
	"sort"
	"strings"
	"time"

	"github.com/cinar/indicator/v2/verifmc/mc"
)

// Exec is one fresh instance of a scenario: Body runs as goroutine 0; Observe is
// called at quiescence and returns (outcome fingerprint, violation text or "").
type Exec struct {
	Body    func()
	Observe func(res *mc.Result) (outcome string, violation string)
	OnPoint func(s *mc.Sched)
	Cleanup func() // always called after the execution (also when it was abandoned)
}

// Scenario creates a fresh Exec for every execution.
type Scenario func() Exec

// Violation is a property violation found in one execution.
type Violation struct {
	Text    string
	Choices []int
	Outcome string
}

// Stats summarises an exploration.
type Stats struct {
	Executions   int
	Events       int
	MaxEvents    int
	MaxEnabled   int
	Outcomes     map[string]int
	OutcomeChoic map[string][]int
	Deadlocks    int
	Panics       int
	Races        int
	RacePairs    map[string]int
	RacesBranch  int // DPOR: number of backtrack points added
	SleepBlocked int // DPOR: executions abandoned because every continuation was asleep
	Cut          int
	Exhaustive   bool
	CapHit       string
	Violations   []Violation
	Internal     string
	SampleTrace  []string
}

func newStats() *Stats {
	return &Stats{Outcomes: map[string]int{}, OutcomeChoic: map[string][]int{}, RacePairs: map[string]int{}, Exhaustive: true}
}

// Merge adds o into s.
func (s *Stats) Merge(o *Stats) {
	s.Executions += o.Executions
	s.Events += o.Events
	if o.MaxEvents > s.MaxEvents {
		s.MaxEvents = o.MaxEvents
	}
	if o.MaxEnabled > s.MaxEnabled {
		s.MaxEnabled = o.MaxEnabled
	}
	for k, v := range o.Outcomes {
		s.Outcomes[k] += v
	}
	for k, v := range o.RacePairs {
		s.RacePairs[k] += v
	}
	s.Deadlocks += o.Deadlocks
	s.Panics += o.Panics
	s.Races += o.Races
	s.RacesBranch += o.RacesBranch
	s.SleepBlocked += o.SleepBlocked
	s.Cut += o.Cut
	if !o.Exhaustive {
		s.Exhaustive = false
		if s.CapHit == "" {
			s.CapHit = o.CapHit
		}
	}
	s.Violations = append(s.Violations, o.Violations...)
	if s.Internal == "" {
		s.Internal = o.Internal
	}
}

// Opts are exploration options.
type Opts struct {
	Races     bool
	MaxExec   int // cap on executions (0 = 200000)
	MaxEvents int
	Sites     bool
	Budget    time.Duration // wall-clock budget for one exploration (0 = none); exceeding it ends the exploration with Exhaustive=false
}

type runOut struct {
	res     *mc.Result
	outcome string
	viol    string
	choices []int
}

// runPrefix runs one execution following prefix (choice indices into the
// canonical enabled list), then choice 0.
func runPrefix(sc Scenario, prefix []int, o Opts, record bool) runOut {
	ex := sc()
	step := 0
	var choices []int
	bad := ""
	chooser := func(s *mc.Sched, en []*mc.G) int {
		i := step
		step++
		c := 0
		if i < len(prefix) {
			c = prefix[i]
			if c >= len(en) {
				bad = fmt.Sprintf("replay divergence at point %d: choice %d of %d enabled", i, c, len(en))
				c = 0
			}
		}
		choices = append(choices, c)
		return c
	}
	altChooser := func(s *mc.Sched, n int) int {
		i := step
		step++
		c := 0
		if i < len(prefix) {
			c = prefix[i]
			if c >= n {
				bad = fmt.Sprintf("replay divergence at point %d: alternative %d of %d", i, c, n)
				c = 0
			}
		}
		choices = append(choices, c)
		return c
	}
	res := mc.Run(ex.Body, mc.Options{Chooser: chooser, AltChooser: altChooser, Record: record, RecordN: !record, Clocks: record || o.Races, Races: o.Races, MaxEvents: o.MaxEvents, OnPoint: ex.OnPoint, Sites: o.Sites})
	if bad != "" && res.Internal == "" {
		res.Internal = bad
	}
	out, viol := ex.Observe(res)
	if ex.Cleanup != nil {
		ex.Cleanup()
	}
	return runOut{res: res, outcome: out, viol: viol, choices: choices}
}

func (s *Stats) account(r runOut) {
	s.Executions++
	s.Events += r.res.Events
	if r.res.Events > s.MaxEvents {
		s.MaxEvents = r.res.Events
	}
	if r.res.MaxEnabled > s.MaxEnabled {
		s.MaxEnabled = r.res.MaxEnabled
	}
	if _, ok := s.Outcomes[r.outcome]; !ok {
		s.OutcomeChoic[r.outcome] = append([]int{}, r.choices...)
	}
	s.Outcomes[r.outcome]++
	if r.res.Deadlock {
		s.Deadlocks++
	}
	if len(r.res.Panics) > 0 {
		s.Panics++
	}
	if r.res.Cut {
		s.Cut++
		s.Exhaustive = false
		s.CapHit = "events per execution"
	}
	for _, rc := range r.res.Races {
		s.Races++
		a, b := rc.Site1, rc.Site2
		if a > b {
			a, b = b, a
		}
		s.RacePairs[a+" <> "+b]++
	}
	if r.res.Internal != "" && s.Internal == "" {
		s.Internal = r.res.Internal
	}
	if r.viol != "" && len(s.Violations) < 8 {
		s.Violations = append(s.Violations, Violation{Text: r.viol, Choices: append([]int{}, r.choices...), Outcome: r.outcome})
	}
}

// S0 runs the canonical schedule once.
// FreeReps is the number of free-running executions per scenario in free mode.
var FreeReps = 6

// freeRuns runs the scenario a few times as ordinary goroutines (free mode, see mc.SetFree): a sample for Go's race
// detector, never a decision; the oracle is still evaluated on each run.
func freeRuns(sc Scenario) *Stats {
	st := newStats()
	st.Exhaustive = false
	st.CapHit = "free-running sample"
	for i := 0; i < FreeReps; i++ {
		ex := sc()
		res := mc.Run(ex.Body, mc.Options{})
		if res.Cut {
			if ex.Cleanup != nil {
				ex.Cleanup()
			}
			break
		}
		out, viol := ex.Observe(res)
		if ex.Cleanup != nil {
			ex.Cleanup()
		}
		if res.Deadlock {
			viol = "" // a free run that did not finish in time proves nothing
		}
		st.account(runOut{res: res, outcome: out, viol: viol})
	}
	return st
}

func S0(sc Scenario, o Opts) *Stats {
	if mc.Free() {
		return freeRuns(sc)
	}
	st := newStats()
	ex := sc()
	res := mc.Run(ex.Body, mc.Options{Races: o.Races, MaxEvents: o.MaxEvents, OnPoint: ex.OnPoint, Sites: o.Sites})
	out, viol := ex.Observe(res)
	if ex.Cleanup != nil {
		ex.Cleanup()
	}
	st.account(runOut{res: res, outcome: out, viol: viol})
	return st
}

// Replay runs one recorded choice list and returns the outcome; used to confirm
// counterexamples and replay determinism.
func Replay(sc Scenario, choices []int, o Opts) (string, string, *mc.Result) {
	r := runPrefix(sc, choices, o, true)
	return r.outcome, r.viol, r.res
}

// DelayBounded explores every schedule that deviates at most d times from the
// canonical choice (S2). No independence is assumed.
func DelayBounded(sc Scenario, d int, o Opts) *Stats {
	if mc.Free() {
		return freeRuns(sc)
	}
	st := newStats()
	if o.MaxExec == 0 {
		o.MaxExec = 200000
	}
	t0 := time.Now()
	var rec func(prefix []int, devs int)
	rec = func(prefix []int, devs int) {
		if st.Executions >= o.MaxExec {
			st.Exhaustive = false
			st.CapHit = "executions"
			return
		}
		if o.Budget > 0 && time.Since(t0) > o.Budget {
			st.Exhaustive = false
			st.CapHit = "time budget"
			return
		}
		r := runPrefix(sc, prefix, o, false)
		st.account(r)
		if devs >= d || r.res.Internal != "" {
			return
		}
		pts := r.res.NEnabled
		for i := len(prefix); i < len(pts); i++ {
			for alt := 1; alt < int(pts[i]); alt++ {
				np := make([]int, i+1)
				copy(np, r.choices[:i])
				np[i] = alt
				rec(np, devs+1)
			}
		}
	}
	rec(nil, 0)
	return st
}

// FullDFS explores every schedule (unreduced); only for tiny self-test programs.
func FullDFS(sc Scenario, o Opts) *Stats {
	if mc.Free() {
		return freeRuns(sc)
	}
	return DelayBounded(sc, 1<<30, o)
}

// ---------------------------------------------------------------- DPOR

type node struct {
	enabled   []int
	pend      map[int]mc.Pending
	chosen    int
	backtrack map[int]bool
	done      map[int]bool
	sleep     map[int]bool // goroutines whose exploration from this node is redundant
	// data choices made while executing this node's event (which ready select case proceeds): all alternatives are explored
	alts []*altNode
}

type altNode struct {
	n      int
	chosen int
}

func sendSide(k mc.OpKind) bool { return k == mc.OpSend || k == mc.OpClose }

// depOps reports whether two operations of different goroutines on the same
// object do not commute.
func depOps(ak mc.OpKind, aobj, aarg int, bk mc.OpKind, bobj, barg int) bool {
	if aobj != bobj || aobj < 0 {
		return false
	}
	switch {
	case sendSide(ak) && sendSide(bk):
		return true
	case ak == mc.OpRecv && bk == mc.OpRecv:
		return true
	case isMu(ak) && isMu(bk):
		// Only the order of acquisitions matters: two acquisitions conflict unless both are read locks.
		// An unlock commutes with a blocking acquisition (lock-blocks; unlock-wakes; retry == unlock; lock),
		// exactly as send/recv do on a channel; only TryLock (Arg 1) observes whether the unlock happened.
		acq := func(k mc.OpKind) bool { return k == mc.OpLock || k == mc.OpRLock }
		if acq(ak) && acq(bk) {
			return !(ak == mc.OpRLock && bk == mc.OpRLock)
		}
		if (ak == mc.OpLock && aarg == 1 && !acq(bk)) || (bk == mc.OpLock && barg == 1 && !acq(ak)) {
			return true
		}
		return false
	case ak == mc.OpOnce && bk == mc.OpOnce:
		return true
	case ak == mc.OpAtomic && bk == mc.OpAtomic:
		return true
	case ak == mc.OpWgAdd && bk == mc.OpWgWait:
		return aarg > 0
	case ak == mc.OpWgWait && bk == mc.OpWgAdd:
		return barg > 0
	}
	return false
}

func dependent(a, b mc.Event) bool {
	if a.Kind == mc.OpSelect || b.Kind == mc.OpSelect {
		return selDep(a.Kind, a.Obj, a.Objs, b.Kind, b.Obj, b.Objs)
	}
	return depOps(a.Kind, a.Obj, a.Arg, b.Kind, b.Obj, b.Arg)
}

// selDep: a select observes the readiness of all its channels (and may take a default), so it conflicts with every
// operation on any of them, on either side, and with every select sharing a channel.
func selDep(ak mc.OpKind, aobj int, aobjs []int, bk mc.OpKind, bobj int, bobjs []int) bool {
	objsOf := func(k mc.OpKind, o int, os []int) []int {
		if k == mc.OpSelect {
			return os
		}
		if k == mc.OpSend || k == mc.OpRecv || k == mc.OpClose {
			return []int{o}
		}
		return nil
	}
	for _, x := range objsOf(ak, aobj, aobjs) {
		for _, y := range objsOf(bk, bobj, bobjs) {
			if x == y && x >= 0 {
				return true
			}
		}
	}
	return false
}

func pendDep(p mc.Pending, ev mc.Pending) bool {
	if p.Kind == mc.OpSelect || ev.Kind == mc.OpSelect {
		return selDep(p.Kind, p.Obj, p.Objs, ev.Kind, ev.Obj, ev.Objs)
	}
	return depOps(p.Kind, p.Obj, p.Arg, ev.Kind, ev.Obj, ev.Arg)
}

func isMu(k mc.OpKind) bool {
	return k == mc.OpLock || k == mc.OpUnlock || k == mc.OpRLock || k == mc.OpRUnlock
}

// DPOR explores one representative of every Mazurkiewicz trace (S1): stateless
// dynamic partial-order reduction (Flanagan-Godefroid) with sleep sets.
func DPOR(sc Scenario, o Opts) *Stats {
	if mc.Free() {
		return freeRuns(sc)
	}
	st := newStats()
	if o.MaxExec == 0 {
		o.MaxExec = 200000
	}
	var stack []*node
	t0 := time.Now()
	for {
		if st.Executions >= o.MaxExec || st.SleepBlocked >= 8*o.MaxExec {
			st.Exhaustive = false
			st.CapHit = "executions"
			break
		}
		if o.Budget > 0 && time.Since(t0) > o.Budget {
			st.Exhaustive = false
			st.CapHit = "time budget"
			break
		}
		ex := sc()
		step := 0
		bad := ""
		var choices []int
		chooser := func(s *mc.Sched, en []*mc.G) int {
			i := step
			step++
			if i < len(stack) {
				want := stack[i].chosen
				for k, g := range en {
					if g.ID == want {
						choices = append(choices, k)
						return k
					}
				}
				bad = fmt.Sprintf("DPOR replay divergence at point %d: goroutine %d not enabled", i, want)
				choices = append(choices, 0)
				return 0
			}
			n := &node{enabled: make([]int, len(en)), pend: make(map[int]mc.Pending, len(en)), backtrack: map[int]bool{}, done: map[int]bool{}, sleep: map[int]bool{}}
			for k, g := range en {
				n.enabled[k] = g.ID
				n.pend[g.ID] = g.PendingOp()
			}
			if i > 0 {
				// sleep set at entry: what was asleep or already explored at the parent and is independent of the step taken
				par := stack[i-1]
				ev := par.pend[par.chosen]
				for q := range par.sleep {
					if pq, ok := par.pend[q]; ok && q != par.chosen && !pendDep(pq, ev) {
						n.sleep[q] = true
					}
				}
			}
			pick := -1
			for k, g := range en {
				if !n.sleep[g.ID] {
					pick = k
					break
				}
			}
			if pick < 0 {
				return -1 // sleep-set blocked: every continuation is covered elsewhere
			}
			n.chosen = n.enabled[pick]
			n.backtrack[n.chosen] = true
			n.done[n.chosen] = true
			stack = append(stack, n)
			choices = append(choices, pick)
			return pick
		}
		altSeen := map[int]int{} // per node index: how many data choices were made so far in this run
		altChooser := func(s *mc.Sched, n int) int {
			ni := step - 1 // the node whose event is executing
			if ni < 0 || ni >= len(stack) {
				bad = "data choice outside a node"
				return 0
			}
			nd := stack[ni]
			k := altSeen[ni]
			altSeen[ni]++
			if k < len(nd.alts) {
				if nd.alts[k].n != n {
					bad = fmt.Sprintf("DPOR replay divergence at node %d: %d alternatives, recorded %d", ni, n, nd.alts[k].n)
					choices = append(choices, 0)
					return 0
				}
				choices = append(choices, nd.alts[k].chosen)
				return nd.alts[k].chosen
			}
			nd.alts = append(nd.alts, &altNode{n: n})
			choices = append(choices, 0)
			return 0
		}
		res := mc.Run(ex.Body, mc.Options{Chooser: chooser, AltChooser: altChooser, Record: true, Clocks: true, Races: o.Races, MaxEvents: o.MaxEvents, OnPoint: ex.OnPoint, Sites: o.Sites})
		if bad != "" && res.Internal == "" {
			res.Internal = bad
		}
		if res.Aborted {
			st.SleepBlocked++
		} else {
			out, viol := ex.Observe(res)
			st.account(runOut{res: res, outcome: out, viol: viol, choices: choices})
			if st.Executions == 1 {
				st.SampleTrace = FormatTrace(res, 40)
			}
		}
		if ex.Cleanup != nil {
			ex.Cleanup()
		}
		if res.Internal != "" {
			st.Internal = res.Internal
			st.Exhaustive = false
			break
		}
		// race analysis on the executed trace: for every event find the latest dependent,
		// not happens-before-ordered event of another goroutine
		tr := res.Trace
		if len(tr) > len(stack) {
			st.Internal = fmt.Sprintf("trace (%d) longer than stack (%d)", len(tr), len(stack))
			st.Exhaustive = false
			break
		}
		byObj := map[int][]int{}
		for j, e := range tr {
			objs := []int{e.Obj}
			if e.Kind == mc.OpSelect {
				objs = e.Objs
			}
			if e.Kind == mc.OpContinue || e.Kind == mc.OpStart {
				continue
			}
			// candidates: earlier events on any of the objects, latest first
			var lst []int
			for _, ob := range objs {
				if ob >= 0 {
					lst = append(lst, byObj[ob]...)
				}
			}
			if len(objs) > 1 {
				sort.Ints(lst)
			}
			if len(lst) > 0 || true {
				for x := len(lst) - 1; x >= 0; x-- {
					i := lst[x]
					ep := tr[i]
					if ep.G == e.G || !dependent(ep, e) {
						continue
					}
					if ep.Clock[ep.G] <= vcGet(e.Clock, ep.G) {
						continue // happens-before
					}
					nd := stack[i]
					added := false
					if contains(nd.enabled, e.G) {
						if !nd.backtrack[e.G] {
							nd.backtrack[e.G] = true
							added = true
						}
					} else {
						for _, g := range nd.enabled {
							if !nd.backtrack[g] {
								nd.backtrack[g] = true
								added = true
							}
						}
					}
					if added {
						st.RacesBranch++
					}
					break
				}
				for _, ob := range objs {
					if ob >= 0 {
						byObj[ob] = append(byObj[ob], j)
					}
				}
			}
		}
		// find the deepest node with work left; an explored choice goes to sleep at its node
		stack = stack[:len(tr)]
		k := len(stack) - 1
		for ; k >= 0; k-- {
			nd := stack[k]
			// remaining alternatives of the data choices of this node (last choice first)
			advanced := false
			for a := len(nd.alts) - 1; a >= 0; a-- {
				if nd.alts[a].chosen+1 < nd.alts[a].n {
					nd.alts[a].chosen++
					nd.alts = nd.alts[:a+1]
					advanced = true
					break
				}
			}
			if advanced {
				stack = stack[:k+1]
				break
			}
			nd.alts = nil
			nd.sleep[nd.chosen] = true
			next := -1
			for _, g := range nd.enabled {
				if nd.backtrack[g] && !nd.done[g] && !nd.sleep[g] {
					next = g
					break
				}
			}
			if next >= 0 {
				nd.chosen = next
				nd.done[next] = true
				stack = stack[:k+1]
				break
			}
		}
		if k < 0 {
			break
		}
	}
	return st
}

func vcGet(v mc.VC, i int) uint32 {
	if i < len(v) {
		return v[i]
	}
	return 0
}

func contains(xs []int, x int) bool {
	for _, y := range xs {
		if y == x {
			return true
		}
	}
	return false
}

// FormatTrace renders the first n events of an execution.
func FormatTrace(res *mc.Result, n int) []string {
	var out []string
	for i, e := range res.Trace {
		if i >= n {
			out = append(out, fmt.Sprintf("... (%d events)", len(res.Trace)))
			break
		}
		b := ""
		if e.Blocked {
			b = " (blocks)"
		}
		out = append(out, fmt.Sprintf("g%d %s obj%d%s", e.G, e.Kind, e.Obj, b))
	}
	return out
}

// OutcomeKeys returns the sorted outcome fingerprints.
func (s *Stats) OutcomeKeys() []string {
	var ks []string
	for k := range s.Outcomes {
		ks = append(ks, k)
	}
	sort.Strings(ks)
	return ks
}

// Describe renders a one-line summary.
func (s *Stats) Describe() string {
	return fmt.Sprintf("exec=%d sleepblocked=%d events=%d outcomes=%d deadlocks=%d panics=%d races=%d branches=%d exhaustive=%v %s", s.Executions, s.SleepBlocked, s.Events, len(s.Outcomes), s.Deadlocks, s.Panics, s.Races, s.RacesBranch, s.Exhaustive, strings.TrimSpace(s.CapHit+" "+s.Internal))
}
