package ref

// Helpers for the trend catalogue (file ind_trend_a.go).

// WmaDoc is the weighted moving average exactly as the Wma doc comment states it:
// ((v1 * 1/N) + (v2 * 2/N) + ... + (vN * N/N)) / 2, v1 the oldest value of the window.
func WmaDoc(a S, p int) S {
	return Window(a, p, func(w []float64) float64 {
		t := 0.0
		for j, x := range w {
			t += x * float64(j+1) / float64(p)
		}
		return t / 2
	})
}

// WmaStd is the textbook weighted moving average: sum(j*v_j) / (N*(N+1)/2).
func WmaStd(a S, p int) S {
	return Window(a, p, func(w []float64) float64 {
		t := 0.0
		for j, x := range w {
			t += x * float64(j+1)
		}
		return t / (float64(p) * float64(p+1) / 2)
	})
}

// SinceExtreme is the number of positions since the extreme (max when hi, else min)
// of the last p positions occurred; with ties the most recent occurrence counts.
func SinceExtreme(a S, p int, hi bool) S {
	return Window(a, p, func(w []float64) float64 {
		best := len(w) - 1
		for j := len(w) - 2; j >= 0; j-- {
			if (hi && w[j] > w[best]) || (!hi && w[j] < w[best]) {
				best = j
			}
		}
		return float64(len(w) - 1 - best)
	})
}

// SinceChange counts, from the first defined position, the positions since the
// value of the series last changed (0 at the first position and at every change).
func SinceChange(a S) S {
	o := New(a.Len())
	st := sticky(a)
	s := a.Start()
	cnt := 0.0
	for i := s; i < a.Len(); i++ {
		if st[i] {
			o.X[i] = true
			continue
		}
		if i == s || a.V[i] != a.V[i-1] {
			cnt = 0
		} else {
			cnt++
		}
		o.V[i] = cnt
	}
	return o
}
