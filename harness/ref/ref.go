// Package ref is a small library of position-aligned reference operators on
// slices, used to restate the documented formulas of the indicators.
//
// A series S has one entry per INPUT position. V[i] is NaN while the quantity is
// not yet defined (warm-up). X[i] marks a position as exempt: the documented
// formula is undefined or ill-conditioned there (zero / cancelling denominator),
// or it depends on such a position through a stateful operator (the
// implementation's running sums never recover from a NaN/Inf, so exemption is
// sticky through every windowed or recursive operator).
package ref

import "math"

// Scale is the magnitude of the current input (max |x|, at least 1); the runner
// sets it before evaluating a reference. Denominators at or below Tol*Scale are
// treated as zero.
var Scale = 1.0

// Tol is the relative tolerance for "zero denominator".
const Tol = 1e-9

// S is a position-aligned series.
type S struct {
	V []float64
	X []bool
	// Pure: every value is a pointwise function of the inputs at its own (or a lagged) position, computed by the
	// implementation with the same operations in the same order. For such a series a position that is exempt because
	// a denominator is EXACTLY zero still has a definite IEEE value (NaN or +-Inf), recorded in V and flagged in Z: a
	// decision rule applied to it has a definite answer (every comparison with NaN is false).
	Pure bool
	Z    []bool
}

func (s S) z(i int) bool { return s.Z != nil && s.Z[i] }

func (s *S) setZ(i int) {
	if s.Z == nil {
		s.Z = make([]bool, len(s.V))
	}
	s.Z[i] = true
}

// NaN is the undefined marker.
var NaN = math.NaN()

// New makes an undefined series of length n.
func New(n int) S {
	s := S{V: make([]float64, n), X: make([]bool, n)}
	for i := range s.V {
		s.V[i] = NaN
	}
	return s
}

// From wraps raw input values.
func From(x []float64) S {
	s := S{V: append([]float64{}, x...), X: make([]bool, len(x)), Pure: true}
	return s
}

// Len is the number of positions.
func (s S) Len() int { return len(s.V) }

// Def reports whether position i is past the warm-up (defined or exempt).
func (s S) Def(i int) bool { return i >= 0 && i < len(s.V) && (s.X[i] || !math.IsNaN(s.V[i])) }

// Start is the first defined position (Len if none).
func (s S) Start() int {
	for i := range s.V {
		if s.Def(i) {
			return i
		}
	}
	return len(s.V)
}

// Const is a constant series.
func Const(n int, v float64) S {
	s := New(n)
	s.Pure = true
	for i := range s.V {
		s.V[i] = v
	}
	return s
}

// Map1 applies f pointwise.
func Map1(a S, f func(x float64) float64) S {
	o := New(a.Len())
	o.Pure = a.Pure
	for i := range a.V {
		if !a.Def(i) {
			continue
		}
		if a.X[i] {
			o.X[i] = true
			if o.Pure && a.z(i) {
				o.V[i] = f(a.V[i])
				o.setZ(i)
			}
			continue
		}
		o.V[i] = f(a.V[i])
	}
	return o
}

// Map2 applies f pointwise to two series.
func Map2(a, b S, f func(x, y float64) float64) S {
	o := New(a.Len())
	o.Pure = a.Pure && b.Pure
	for i := range a.V {
		if !a.Def(i) || !b.Def(i) {
			continue
		}
		if a.X[i] || b.X[i] {
			o.X[i] = true
			if o.Pure && (!a.X[i] || a.z(i)) && (!b.X[i] || b.z(i)) {
				o.V[i] = f(a.V[i], b.V[i])
				o.setZ(i)
			}
			continue
		}
		o.V[i] = f(a.V[i], b.V[i])
	}
	return o
}

// Map3 applies f pointwise to three series.
func Map3(a, b, c S, f func(x, y, z float64) float64) S {
	o := New(a.Len())
	o.Pure = a.Pure && b.Pure && c.Pure
	for i := range a.V {
		if !a.Def(i) || !b.Def(i) || !c.Def(i) {
			continue
		}
		if a.X[i] || b.X[i] || c.X[i] {
			o.X[i] = true
			if o.Pure && (!a.X[i] || a.z(i)) && (!b.X[i] || b.z(i)) && (!c.X[i] || c.z(i)) {
				o.V[i] = f(a.V[i], b.V[i], c.V[i])
				o.setZ(i)
			}
			continue
		}
		o.V[i] = f(a.V[i], b.V[i], c.V[i])
	}
	return o
}

// Add is a+b.
func Add(a, b S) S { return Map2(a, b, func(x, y float64) float64 { return x + y }) }

// Sub is a-b.
func Sub(a, b S) S { return Map2(a, b, func(x, y float64) float64 { return x - y }) }

// Mul is a*b.
func Mul(a, b S) S { return Map2(a, b, func(x, y float64) float64 { return x * y }) }

// Scl is a*k.
func Scl(a S, k float64) S { return Map1(a, func(x float64) float64 { return x * k }) }

// Abs is |a|.
func Abs(a S) S { return Map1(a, math.Abs) }

// Div is a/b; positions whose denominator is (numerically) zero are exempt.
func Div(a, b S) S {
	o := New(a.Len())
	o.Pure = a.Pure && b.Pure
	for i := range a.V {
		if !a.Def(i) || !b.Def(i) {
			continue
		}
		if a.X[i] || b.X[i] || math.Abs(b.V[i]) <= Tol*Scale {
			o.X[i] = true
			// an exactly zero denominator of a pointwise formula: the IEEE quotient (NaN or +-Inf) is what the formula gives
			if o.Pure && (!a.X[i] || a.z(i)) && ((!b.X[i] && b.V[i] == 0) || b.z(i)) {
				o.V[i] = a.V[i] / b.V[i]
				o.setZ(i)
			}
			continue
		}
		o.V[i] = a.V[i] / b.V[i]
	}
	return o
}

// DivScaled is Div with an explicit magnitude for the zero test (for
// denominators whose natural scale is not that of the prices, e.g. products).
func DivScaled(a, b S, scale float64) S {
	o := New(a.Len())
	for i := range a.V {
		if !a.Def(i) || !b.Def(i) {
			continue
		}
		if a.X[i] || b.X[i] || math.Abs(b.V[i]) <= Tol*scale {
			o.X[i] = true
			continue
		}
		o.V[i] = a.V[i] / b.V[i]
	}
	return o
}

// Lag shifts by k positions: out[i] = a[i-k].
func Lag(a S, k int) S {
	o := New(a.Len())
	o.Pure = a.Pure
	for i := range a.V {
		if a.Def(i - k) {
			o.V[i], o.X[i] = a.V[i-k], a.X[i-k]
			if a.z(i - k) {
				o.setZ(i)
			}
		}
	}
	return o
}

// Diff is a[i]-a[i-k].
func Diff(a S, k int) S { return Sub(a, Lag(a, k)) }

// sticky reports, per position, whether any exempt position occurred at or before it.
func sticky(a S) []bool {
	st := make([]bool, a.Len())
	seen := false
	for i := range a.V {
		if a.X[i] {
			seen = true
		}
		st[i] = seen
	}
	return st
}

// Window applies f to the last p defined values ending at i (oldest first).
// Exemption is sticky.
func Window(a S, p int, f func(w []float64) float64) S {
	o := New(a.Len())
	if p < 1 {
		return o
	}
	st := sticky(a)
	for i := range a.V {
		if !a.Def(i-p+1) || !a.Def(i) {
			continue
		}
		if st[i] {
			o.X[i] = true
			continue
		}
		o.V[i] = f(a.V[i-p+1 : i+1])
	}
	return o
}

// Sum is the moving sum over p positions.
func Sum(a S, p int) S {
	return Window(a, p, func(w []float64) float64 {
		t := 0.0
		for _, x := range w {
			t += x
		}
		return t
	})
}

// Sma is the simple moving average over p positions.
func Sma(a S, p int) S { return Scl(Sum(a, p), 1/float64(p)) }

// Max is the moving maximum over p positions.
func Max(a S, p int) S {
	return Window(a, p, func(w []float64) float64 {
		m := w[0]
		for _, x := range w {
			m = math.Max(m, x)
		}
		return m
	})
}

// Min is the moving minimum over p positions.
func Min(a S, p int) S {
	return Window(a, p, func(w []float64) float64 {
		m := w[0]
		for _, x := range w {
			m = math.Min(m, x)
		}
		return m
	})
}

// Std is the population standard deviation over p positions.
func Std(a S, p int) S {
	return Window(a, p, func(w []float64) float64 {
		m := 0.0
		for _, x := range w {
			m += x
		}
		m /= float64(len(w))
		v := 0.0
		for _, x := range w {
			v += (x - m) * (x - m)
		}
		return math.Sqrt(v / float64(len(w)))
	})
}

// EmaK is the exponential moving average with seed SMA(p) at the p-th defined
// position and multiplier k afterwards: e[i] = (a[i]-e[i-1])*k + e[i-1].
func EmaK(a S, p int, k float64) S {
	o := New(a.Len())
	s := a.Start()
	if p < 1 || s+p-1 >= a.Len() {
		return o
	}
	st := sticky(a)
	seedPos := s + p - 1
	seed := 0.0
	for i := s; i <= seedPos; i++ {
		seed += a.V[i]
	}
	seed /= float64(p)
	prev := seed
	for i := seedPos; i < a.Len(); i++ {
		if st[i] {
			o.X[i] = true
			continue
		}
		if i > seedPos {
			prev = (a.V[i]-prev)*k + prev
		}
		o.V[i] = prev
	}
	return o
}

// EmaSmoothing is the smoothing constant of the exponential averages the references are built from (the library's
// Ema.Smoothing, 2 by default; a unit that sets the exported field on the real objects sets this too).
var EmaSmoothing = 2.0

// Ema is the EMA with the multiplier smoothing/(p+1), smoothing 2 unless a unit says otherwise.
func Ema(a S, p int) S { return EmaK(a, p, EmaSmoothing/float64(p+1)) }

// Rma is Wilder's moving average: seed SMA(p), then (prev*(p-1)+x)/p.
func Rma(a S, p int) S {
	o := New(a.Len())
	s := a.Start()
	if p < 1 || s+p-1 >= a.Len() {
		return o
	}
	st := sticky(a)
	seedPos := s + p - 1
	seed := 0.0
	for i := s; i <= seedPos; i++ {
		seed += a.V[i]
	}
	prev := seed / float64(p)
	for i := seedPos; i < a.Len(); i++ {
		if st[i] {
			o.X[i] = true
			continue
		}
		if i > seedPos {
			prev = (prev*float64(p-1) + a.V[i]) / float64(p)
		}
		o.V[i] = prev
	}
	return o
}

// Cum is the running total from the first defined position.
func Cum(a S) S {
	o := New(a.Len())
	st := sticky(a)
	t := 0.0
	for i := a.Start(); i < a.Len(); i++ {
		if st[i] {
			o.X[i] = true
			continue
		}
		t += a.V[i]
		o.V[i] = t
	}
	return o
}

// Rec builds a recursive series: out[s] = init(s), out[i] = step(i, out[i-1])
// from the first position s where all deps are defined. Exemption of any dep is sticky.
func Rec(n int, deps []S, init func(i int) float64, step func(i int, prev float64) float64) S {
	o := New(n)
	s := 0
	for _, d := range deps {
		if d.Start() > s {
			s = d.Start()
		}
	}
	ex := false
	var prev float64
	for i := s; i < n; i++ {
		for _, d := range deps {
			if d.X[i] {
				ex = true
			}
		}
		if ex {
			o.X[i] = true
			continue
		}
		if i == s {
			prev = init(i)
		} else {
			prev = step(i, prev)
		}
		o.V[i] = prev
	}
	return o
}

// ExemptWhere marks positions where cond holds as exempt (and everything after,
// if stickyAfter).
func ExemptWhere(a S, cond func(i int) bool, stickyAfter bool) S {
	o := S{V: append([]float64{}, a.V...), X: append([]bool{}, a.X...)}
	seen := false
	for i := range o.V {
		if a.Def(i) && cond(i) {
			seen = true
			o.X[i] = true
		}
		if stickyAfter && seen && a.Def(i) {
			o.X[i] = true
		}
	}
	return o
}

// Rel is the relative rounding tolerance of Close (1e-9 for the short series of the tries; the long series
// scale it with their length: running sums and recursions accumulate one rounding per step).
var Rel = 1e-9

// Floor is the magnitude below which a difference is rounding for the output being compared (0: max(Scale, 1)).
var Floor float64

// LongSeries is set while a long (thousands of values) series is judged: exact equalities of computed quantities are then ties.
var LongSeries bool

// Close reports whether got matches want within rounding tolerance.
func Close(got, want float64) bool {
	if math.IsNaN(got) || math.IsInf(got, 0) {
		return false
	}
	d := math.Abs(got - want)
	fl := Floor
	if fl == 0 {
		fl = math.Max(Scale, 1)
	}
	return d <= Rel*math.Max(fl, math.Abs(want))
}
