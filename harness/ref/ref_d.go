package ref

import "math"

// Helpers for the volatility catalogue.

// Wma is the library's documented weighted moving average over p positions:
// ((v1 * 1/p) + (v2 * 2/p) + ... + (vp * p/p)) / 2, v1 the oldest value.
func Wma(a S, p int) S {
	return Window(a, p, func(w []float64) float64 {
		t := 0.0
		for i, x := range w {
			t += x * float64(i+1) / float64(len(w))
		}
		return t / 2
	})
}

// Hma is the documented Hull moving average: WMA(sqrt(p), 2*WMA(p/2, a) - WMA(p, a));
// the doc is silent on rounding of p/2 and sqrt(p): nearest integer as in the code.
func Hma(a S, p int) S {
	h := int(math.Round(float64(p) / 2))
	q := int(math.Round(math.Sqrt(float64(p))))
	return Wma(Sub(Scl(Wma(a, h), 2), Wma(a, p)), q)
}

// TrueRange is max(H-L, H-prevC, prevC-L), defined from position 1.
func TrueRange(h, l, c S) S {
	return Map3(h, l, Lag(c, 1), func(hi, lo, pc float64) float64 {
		return math.Max(hi-lo, math.Max(hi-pc, pc-lo))
	})
}

// Slope is the least-squares slope of the last p values against a counter that
// advances by one per position (the slope does not depend on the counter's origin):
// m = (p*sumXY - sumX*sumY) / (p*sumX2 - sumX*sumX).
func Slope(a S, p int) S {
	return Window(a, p, func(w []float64) float64 {
		n := float64(len(w))
		var sx, sy, sxy, sx2 float64
		for i, y := range w {
			x := float64(i + 1)
			sx += x
			sy += y
			sxy += x * y
			sx2 += x * x
		}
		return (n*sxy - sx*sy) / (n*sx2 - sx*sx)
	})
}
