package checks

import (
	"fmt"
	"math"
	"strings"

	"verifharness/cat"
	"verifharness/core"

	"github.com/cinar/indicator/v2/verifmc/mc"
)

// 2^-10 brings prices to the order of 0.005, where rounding to cents or absolute thresholds bite
var priceFactors = []float64{1.0 / (1 << 40), 1.0 / (1 << 20), 0.125, 1024, 1 << 30}
var volumeFactors = []float64{1.0 / (1 << 20), 32, 1 << 30}

func isVolumeField(f string) bool { return f == "V" }

func scaleCols(fields []string, in [][]float64, factor float64, volume bool) [][]float64 {
	out := make([][]float64, len(in))
	for i, col := range in {
		if isVolumeField(fields[i]) != volume {
			out[i] = col
			continue
		}
		c := make([]float64, len(col))
		for j, x := range col {
			c[j] = x * factor
		}
		out[i] = c
	}
	return out
}

func c18IndUnit(c *core.Ctx, e *cat.Ind, cfg []float64) {
	if e.PriceDeg == nil && e.VolDeg == nil {
		return
	}
	w := e.New(cfg).Idle
	budget, extra := 700, 2
	if c.Thorough() {
		budget, extra = 6000, 4
	}
	rows := alphabet(e.In, true)
	rowSets := [][][]float64{rows}
	if len(e.In) > 1 && len(rows) == len(sigmaBars) {
		// the four bars with positive range and volume; and the two zero-volume bars (one of them flat) with two regular
		// ones: a halted session makes a ratio infinite or undefined in every unit alike (Inf and NaN scale to themselves)
		rowSets = [][][]float64{rows[:4], {rows[5], rows[6], rows[0], rows[1]}}
	} else if len(e.In) > 1 {
		rowSets = [][][]float64{rows[:min(4, len(rows))]}
	}
	rows = rowSets[0]
	k, n := trieShape(w, len(rows), extra, budget)
	label := e.Name + fmtCfg(cfg)
	hasVol := false
	for _, f := range e.In {
		if isVolumeField(f) {
			hasVol = true
		}
	}
	var nodes, nontriv, compared int64
	exec := func(in [][]float64) *IndRun { return RunInd(e.New(cfg), in, 0, mc.Options{}) }
	for _, rows := range rowSets {
		walkTrie(k, n, rows, len(e.In), exec, func(nd, _ *trieNode) {
			nodes++
			c.Executions++
			c.Transitions += int64(nd.run.Res.Events)
			if !nd.run.Healthy() || len(nd.word) <= w {
				return
			}
			nontriv++
			check := func(factor float64, volume bool, degs []int) {
				if degs == nil {
					return
				}
				r2 := exec(scaleCols(e.In, nd.in, factor, volume))
				c.Executions++
				c.Transitions += int64(r2.Res.Events)
				if !r2.Healthy() {
					return
				}
				for j := range nd.run.Outs {
					a, b := nd.run.Outs[j], r2.Outs[j]
					if len(a) != len(b) {
						c.Fail("", fmt.Sprintf("%s input %s: output %d has %d values, %d after rescaling", label, fmtCols(nd.in), j, len(a), len(b)), nil)
						return
					}
					f := math.Pow(factor, float64(degs[j]))
					for i := range a {
						compared++
						want := a[i] * f
						if !(bitsEq(b[i], want) || (math.IsNaN(a[i]) && math.IsNaN(b[i])) || (a[i] == 0 && b[i] == 0)) {
							what := "prices"
							if volume {
								what = "volumes"
							}
							key := ""
							if e.ScaleKnown != nil {
								key = e.ScaleKnown(cfg, volume)
							}
							c.Fail(key, fmt.Sprintf("%s input %s: multiplying all %s by %g changes output %d value %d from %.17g to %.17g, homogeneity of degree %d requires %.17g", label, fmtCols(nd.in), what, factor, j, i, a[i], b[i], degs[j], want),
								map[string]any{"indicator": e.Name, "config": cfg, "input": nd.in, "factor": factor, "volume": volume})
							return
						}
					}
				}
			}
			for _, f := range priceFactors {
				check(f, false, e.PriceDeg)
			}
			if hasVol {
				for _, f := range volumeFactors {
					check(f, true, e.VolDeg)
				}
			}
			if nodes == 30 {
				c.Sample(map[string]any{"indicator": e.Name, "config": cfg, "input": nd.in, "price_factors": priceFactors, "price_degrees": e.PriceDeg})
			}
		})
	}
	c.States += nodes
	c.Evaluations += nodes
	c.Nontrivial += nontriv
	c.Count("values compared bit-for-bit", compared)
	c.Notes[label] = map[string]any{"alphabet": k, "depth": n, "nodes": nodes}
}

func c18StratUnit(c *core.Ctx, e *cat.Strat, cfg []float64) {
	if !e.ScaleFree {
		return
	}
	w := e.Warm(cfg)
	budget, extra := 500, 2
	if c.Thorough() {
		budget, extra = 4000, 4
	}
	k, n := trieShape(w, 4, extra, budget)
	label := e.Name + fmtCfg(cfg)
	var nodes, nontriv int64
	rules := []func([]float64, cat.Bars) cat.RuleFn{e.Rule}
	for _, m := range e.AsIs {
		rules = append(rules, m)
	}
	// two bar alphabets: the four regular bars, and the two zero-volume bars (one of them flat) with two regular ones - a
	// halted session makes ratios infinite or undefined in every unit alike, so the recommendations must still agree
	for si, symbols := range [][]int{{0, 1, 2, 3}, {5, 6, 0, 1}, {0, 1, 2, 3}} {
		symbols := symbols
		if si == 2 {
			if e.Rule == nil {
				continue
			}
			rowsSrc = fineBars // closes and volumes one part in 10^4 apart (see checks/strat.go)
		}
		walkWords(k, n, func(word []int, _ any) any {
			mapped := make([]int, len(word))
			for i, sy := range word {
				mapped[i] = symbols[sy%len(symbols)]
			}
			rows := rowsOf(mapped)
			base := RunStrategy(e.New(cfg), cat.Snapshots(rows), 0, mc.Options{})
			nodes++
			c.Executions++
			c.Transitions += int64(base.Res.Events)
			if !base.Healthy() || len(word) <= w {
				return nil
			}
			nontriv++
			try := func(factor float64, volume bool) {
				r2rows := make([][5]float64, len(rows))
				for i, r := range rows {
					r2rows[i] = r
					if volume {
						r2rows[i][4] *= factor
					} else {
						for f := 0; f < 4; f++ {
							r2rows[i][f] *= factor
						}
					}
				}
				r2 := RunStrategy(e.New(cfg), cat.Snapshots(r2rows), 0, mc.Options{})
				c.Executions++
				c.Transitions += int64(r2.Res.Events)
				if r2.Healthy() && fmt.Sprint(r2.Actions) != fmt.Sprint(base.Actions) {
					what := "prices"
					if volume {
						what = "volumes"
					}
					c.Fail("", fmt.Sprintf("%s bars %v: multiplying all %s by %g changes the recommendations from %v to %v", label, rows, what, factor, base.Actions, r2.Actions),
						map[string]any{"strategy": e.Name, "config": cfg, "bars": rows, "factor": factor, "volume": volume})
				}
			}
			if si < 2 {
				for _, f := range priceFactors {
					try(f, false)
				}
				for _, f := range volumeFactors {
					try(f, true)
				}
			}
			// factors that are no powers of two (dollars to cents, lots of three): the scaled arithmetic rounds differently,
			// so only the positions where the documented rule compares quantities that are NOT equal within rounding are
			// judged (C06's tie exemption, evaluated on the original and on the scaled bars)
			// (a strategy with a recorded deviation from its documented rule compares other quantities than the rule does:
			// a position is judged only if neither the documented rule nor any recorded as-is model has a tie there;
			// runs with a recorded extra action are left out, their positions are shifted)
			if si != 1 && e.Rule != nil && len(base.Actions) == len(rows) {
				for _, f := range []float64{100, 3, 0.01} {
					r2rows := make([][5]float64, len(rows))
					for i, r := range rows {
						r2rows[i] = r
						for k2 := 0; k2 < 4; k2++ {
							r2rows[i][k2] *= f
						}
					}
					r2 := RunStrategy(e.New(cfg), cat.Snapshots(r2rows), 0, mc.Options{})
					c.Executions++
					c.Transitions += int64(r2.Res.Events)
					if !r2.Healthy() || len(r2.Actions) != len(base.Actions) {
						continue
					}
					b1, b2 := cat.MakeBars(rows), cat.MakeBars(r2rows)
					ex := make([]bool, len(rows))
					for _, mk := range rules {
						setScale([][]float64{b1.H.V})
						_, ex1 := expected(mk(cfg, b1), len(rows))
						setScale([][]float64{b2.H.V})
						_, ex2 := expected(mk(cfg, b2), len(rows))
						for i := range ex {
							ex[i] = ex[i] || ex1[i] || ex2[i]
						}
					}
					for i := range base.Actions {
						if i < len(ex) && !ex[i] && base.Actions[i] != r2.Actions[i] {
							c.Fail("", fmt.Sprintf("%s bars %v: multiplying all prices by %g changes the recommendation at position %d from %d to %d (no tie at that position)", label, rows, f, i, base.Actions[i], r2.Actions[i]),
								map[string]any{"strategy": e.Name, "config": cfg, "bars": rows, "factor": f})
							break
						}
					}
				}
			}
			if nodes == 20 {
				c.Sample(map[string]any{"strategy": e.Name, "config": cfg, "bars": rows, "actions": base.Actions})
			}
			return nil
		})
		rowsSrc = sigmaBars
	}
	c.States += nodes
	c.Evaluations += nodes
	c.Nontrivial += nontriv
	c.Notes[label] = map[string]any{"alphabet": k, "depth": n, "nodes": nodes}
}

func init() {
	core.Register(&core.Check{
		ID:     "C18",
		Rule:   "input tries (positive alphabets / bars with positive range and volume, for strategies also the alphabet with the two zero-volume bars, depth w+2 quick / w+4 thorough) for every indicator with catalogued homogeneity degrees, every scale-free strategy x configuration, every decorator and a quarter (thorough: all) of the compounds over scale-free strategies; every node is executed on the original series and on the series with all prices multiplied by 2^-40, 2^-20, 2^-3, 2^10, 2^30 and (separately) all volumes by 2^-20, 2^5, 2^30; oracle: indicator outputs equal original x factor^degree bit-for-bit, strategy actions identical; states = trie nodes, non-trivial = nodes longer than the warm-up",
		Assume: []string{"scale factors are powers of two (IEEE arithmetic is exactly covariant, so no tolerance); magnitudes stay far from under/overflow", "homogeneity degrees per output come from the catalogue (documented formulas)"},
		Units: func(tier string) []core.Unit {
			var us []core.Unit
			for _, e := range cat.Inds {
				e := e
				for _, cfg := range e.Cfgs(tier == "thorough") {
					cfg := cfg
					us = append(us, core.Unit{Key: e.Name + fmtCfg(cfg), Cost: 2 + e.New(cfg).Idle, Run: func(c *core.Ctx) { c18IndUnit(c, e, cfg) }})
				}
			}
			for _, e := range cat.Strats {
				e := e
				for _, cfg := range e.Cfgs(tier == "thorough") {
					cfg := cfg
					us = append(us, core.Unit{Key: e.Name + fmtCfg(cfg), Cost: 2 * (2 + e.Warm(cfg)), Run: func(c *core.Ctx) { c18StratUnit(c, e, cfg) }})
				}
			}
			// decorators (the stop-loss keeps a price level of its own) and compounds over unit-independent strategies
			for i, e := range wrapperEntries() {
				e := e
				if !e.ScaleFree || (tier != "thorough" && !strings.HasPrefix(e.Name, "decorator.") && i%4 != 0) {
					continue
				}
				us = append(us, core.Unit{Key: e.Name, Cost: 2 * (2 + e.Warm(nil)), Run: func(c *core.Ctx) { c18StratUnit(c, e, []float64{}) }})
			}
			return us
		},
	})
}
