package checks

import (
	"fmt"
	"math"

	"verifharness/core"

	"github.com/cinar/indicator/v2/helper"
	"github.com/cinar/indicator/v2/momentum"
	"github.com/cinar/indicator/v2/trend"
	"github.com/cinar/indicator/v2/verifmc/mc"
	"github.com/cinar/indicator/v2/volatility"
	"github.com/cinar/indicator/v2/volume"
)

// Element types other than float64. Every indicator is generic over helper.Number; the catalogue (documented
// formulas, references) instantiates float64. The units below instantiate the basic single-stream building blocks with
// int, int32, int64 and float32 as well, where an oracle needs no reference formula: window extremes bracket the value and
// equal the brute-force extremes (C15), and the result of a computation does not depend on which other instances -
// of whatever element type - computed before it in the same process (C09).

type typedKind struct {
	name string
	run  func(t string, period int, xs []float64) (out string, res *mc.Result)
}

func typedCompute[T helper.Number](period int, xs []float64, mk func(int) func(<-chan T) []<-chan T) (string, *mc.Result) {
	in := make([]T, len(xs))
	for i, x := range xs {
		in[i] = T(x)
	}
	var sinks []*Sink[T]
	res := mc.Run(func() {
		for _, o := range mk(period)(Feed(in, 0)) {
			sinks = append(sinks, Collect(o))
		}
	}, mc.Options{})
	out := ""
	for _, s := range sinks {
		out += fmt.Sprint(s.Vals, s.Closed) + ";"
	}
	return out, res
}

func one1[T helper.Number](f func(<-chan T) <-chan T) func(<-chan T) []<-chan T {
	return func(c <-chan T) []<-chan T { return []<-chan T{f(c)} }
}

func typedDispatch(t string, period int, xs []float64,
	f64 func(int) func(<-chan float64) []<-chan float64, f32 func(int) func(<-chan float32) []<-chan float32,
	i func(int) func(<-chan int) []<-chan int, i32 func(int) func(<-chan int32) []<-chan int32, i64 func(int) func(<-chan int64) []<-chan int64) (string, *mc.Result) {
	switch t {
	case "float32":
		return typedCompute(period, xs, f32)
	case "int":
		return typedCompute(period, xs, i)
	case "int32":
		return typedCompute(period, xs, i32)
	case "int64":
		return typedCompute(period, xs, i64)
	}
	return typedCompute(period, xs, f64)
}

func typedKinds() []typedKind {
	return []typedKind{
		{"trend.Sma", func(t string, p int, xs []float64) (string, *mc.Result) {
			return typedDispatch(t, p, xs,
				func(p int) func(<-chan float64) []<-chan float64 {
					return one1(trend.NewSmaWithPeriod[float64](p).Compute)
				},
				func(p int) func(<-chan float32) []<-chan float32 {
					return one1(trend.NewSmaWithPeriod[float32](p).Compute)
				},
				func(p int) func(<-chan int) []<-chan int { return one1(trend.NewSmaWithPeriod[int](p).Compute) },
				func(p int) func(<-chan int32) []<-chan int32 { return one1(trend.NewSmaWithPeriod[int32](p).Compute) },
				func(p int) func(<-chan int64) []<-chan int64 { return one1(trend.NewSmaWithPeriod[int64](p).Compute) })
		}},
		{"trend.Ema", func(t string, p int, xs []float64) (string, *mc.Result) {
			return typedDispatch(t, p, xs,
				func(p int) func(<-chan float64) []<-chan float64 {
					return one1(trend.NewEmaWithPeriod[float64](p).Compute)
				},
				func(p int) func(<-chan float32) []<-chan float32 {
					return one1(trend.NewEmaWithPeriod[float32](p).Compute)
				},
				func(p int) func(<-chan int) []<-chan int { return one1(trend.NewEmaWithPeriod[int](p).Compute) },
				func(p int) func(<-chan int32) []<-chan int32 { return one1(trend.NewEmaWithPeriod[int32](p).Compute) },
				func(p int) func(<-chan int64) []<-chan int64 { return one1(trend.NewEmaWithPeriod[int64](p).Compute) })
		}},
		{"trend.Wma", func(t string, p int, xs []float64) (string, *mc.Result) {
			return typedDispatch(t, p, xs,
				func(p int) func(<-chan float64) []<-chan float64 { return one1(trend.NewWmaWith[float64](p).Compute) },
				func(p int) func(<-chan float32) []<-chan float32 { return one1(trend.NewWmaWith[float32](p).Compute) },
				func(p int) func(<-chan int) []<-chan int { return one1(trend.NewWmaWith[int](p).Compute) },
				func(p int) func(<-chan int32) []<-chan int32 { return one1(trend.NewWmaWith[int32](p).Compute) },
				func(p int) func(<-chan int64) []<-chan int64 { return one1(trend.NewWmaWith[int64](p).Compute) })
		}},
		{"trend.MovingSum", func(t string, p int, xs []float64) (string, *mc.Result) {
			return typedDispatch(t, p, xs,
				func(p int) func(<-chan float64) []<-chan float64 {
					return one1(trend.NewMovingSumWithPeriod[float64](p).Compute)
				},
				func(p int) func(<-chan float32) []<-chan float32 {
					return one1(trend.NewMovingSumWithPeriod[float32](p).Compute)
				},
				func(p int) func(<-chan int) []<-chan int { return one1(trend.NewMovingSumWithPeriod[int](p).Compute) },
				func(p int) func(<-chan int32) []<-chan int32 {
					return one1(trend.NewMovingSumWithPeriod[int32](p).Compute)
				},
				func(p int) func(<-chan int64) []<-chan int64 {
					return one1(trend.NewMovingSumWithPeriod[int64](p).Compute)
				})
		}},
		{"trend.MovingMax", func(t string, p int, xs []float64) (string, *mc.Result) {
			return typedDispatch(t, p, xs,
				func(p int) func(<-chan float64) []<-chan float64 {
					return one1(trend.NewMovingMaxWithPeriod[float64](p).Compute)
				},
				func(p int) func(<-chan float32) []<-chan float32 {
					return one1(trend.NewMovingMaxWithPeriod[float32](p).Compute)
				},
				func(p int) func(<-chan int) []<-chan int { return one1(trend.NewMovingMaxWithPeriod[int](p).Compute) },
				func(p int) func(<-chan int32) []<-chan int32 {
					return one1(trend.NewMovingMaxWithPeriod[int32](p).Compute)
				},
				func(p int) func(<-chan int64) []<-chan int64 {
					return one1(trend.NewMovingMaxWithPeriod[int64](p).Compute)
				})
		}},
		{"trend.MovingMin", func(t string, p int, xs []float64) (string, *mc.Result) {
			return typedDispatch(t, p, xs,
				func(p int) func(<-chan float64) []<-chan float64 {
					return one1(trend.NewMovingMinWithPeriod[float64](p).Compute)
				},
				func(p int) func(<-chan float32) []<-chan float32 {
					return one1(trend.NewMovingMinWithPeriod[float32](p).Compute)
				},
				func(p int) func(<-chan int) []<-chan int { return one1(trend.NewMovingMinWithPeriod[int](p).Compute) },
				func(p int) func(<-chan int32) []<-chan int32 {
					return one1(trend.NewMovingMinWithPeriod[int32](p).Compute)
				},
				func(p int) func(<-chan int64) []<-chan int64 {
					return one1(trend.NewMovingMinWithPeriod[int64](p).Compute)
				})
		}},
		{"volatility.MovingStd", func(t string, p int, xs []float64) (string, *mc.Result) {
			return typedDispatch(t, p, xs,
				func(p int) func(<-chan float64) []<-chan float64 {
					return one1(volatility.NewMovingStdWithPeriod[float64](p).Compute)
				},
				func(p int) func(<-chan float32) []<-chan float32 {
					return one1(volatility.NewMovingStdWithPeriod[float32](p).Compute)
				},
				func(p int) func(<-chan int) []<-chan int {
					return one1(volatility.NewMovingStdWithPeriod[int](p).Compute)
				},
				func(p int) func(<-chan int32) []<-chan int32 {
					return one1(volatility.NewMovingStdWithPeriod[int32](p).Compute)
				},
				func(p int) func(<-chan int64) []<-chan int64 {
					return one1(volatility.NewMovingStdWithPeriod[int64](p).Compute)
				})
		}},
		{"volatility.BollingerBands", func(t string, p int, xs []float64) (string, *mc.Result) {
			return typedDispatch(t, p, xs,
				func(p int) func(<-chan float64) []<-chan float64 {
					return func(c <-chan float64) []<-chan float64 {
						a, b, d := volatility.NewBollingerBandsWithPeriod[float64](p).Compute(c)
						return []<-chan float64{a, b, d}
					}
				},
				func(p int) func(<-chan float32) []<-chan float32 {
					return func(c <-chan float32) []<-chan float32 {
						a, b, d := volatility.NewBollingerBandsWithPeriod[float32](p).Compute(c)
						return []<-chan float32{a, b, d}
					}
				},
				func(p int) func(<-chan int) []<-chan int {
					return func(c <-chan int) []<-chan int {
						a, b, d := volatility.NewBollingerBandsWithPeriod[int](p).Compute(c)
						return []<-chan int{a, b, d}
					}
				},
				func(p int) func(<-chan int32) []<-chan int32 {
					return func(c <-chan int32) []<-chan int32 {
						a, b, d := volatility.NewBollingerBandsWithPeriod[int32](p).Compute(c)
						return []<-chan int32{a, b, d}
					}
				},
				func(p int) func(<-chan int64) []<-chan int64 {
					return func(c <-chan int64) []<-chan int64 {
						a, b, d := volatility.NewBollingerBandsWithPeriod[int64](p).Compute(c)
						return []<-chan int64{a, b, d}
					}
				})
		}},
	}
}

// c09TypedUnit: every ordered sequence of three element types (all 125 of them) x periods {2, 4}: the same series is
// computed by instances of the three element types one after the other; the result for an element type must be the
// same wherever in a sequence (and in the process) it is computed, and every computation must terminate cleanly.
func c09TypedUnit(c *core.Ctx, k typedKind) {
	types := []string{"float64", "float32", "int", "int32", "int64"}
	xs := []float64{3, 9, 4, 12, 7, 7, 2, 15, 6, 10}
	first := map[string]string{}
	for _, p := range []int{2, 4} {
		for _, a := range types {
			for _, b := range types {
				for _, d := range types {
					seq := []string{a, b, d}
					for step, t := range seq {
						out, res := k.run(t, p, xs)
						c.Executions++
						c.Transitions += int64(res.Events)
						cs := map[string]any{"indicator": k.name, "period": p, "element_types_in_order": seq, "failing_call": step}
						if len(res.Panics) > 0 {
							c.Fail("", fmt.Sprintf("%s[%s] period %d, computed after instances of element types %v in the same process: panic %s", k.name, t, p, seq[:step], res.Panics[0].Value), cs)
							return
						}
						if res.Deadlock {
							c.Fail("", fmt.Sprintf("%s[%s] period %d, computed after instances of element types %v: did not terminate cleanly (%s)", k.name, t, p, seq[:step], blockedDesc(res)), cs)
							return
						}
						key := fmt.Sprint(t, p)
						if w, ok := first[key]; !ok {
							first[key] = out
						} else if w != out {
							c.Fail("", fmt.Sprintf("%s[%s] period %d returns %s after instances of element types %v computed in the same process, %s before", k.name, t, p, out, seq[:step], w), cs)
							return
						}
					}
					c.States++
					c.Evaluations++
					c.Nontrivial++
				}
			}
		}
	}
}

// c15TypedExtremes: moving min <= value <= moving max, and both equal the brute-force window extremes, for integer and
// float32 element types over neighbouring values that collapse when converted to float64 / float32.
func typedExtremes[T helper.Number](c *core.Ctx, tname string, alphabet []T, maxLen int) {
	var n int64
	for l := 1; l <= maxLen; l++ {
		for _, w := range words(len(alphabet), l) {
			xs := make([]T, l)
			for i, s := range w {
				xs[i] = alphabet[s]
			}
			for p := 1; p <= 3 && p <= l; p++ {
				var mx, mn *Sink[T]
				res := mc.Run(func() {
					mx = Collect(trend.NewMovingMaxWithPeriod[T](p).Compute(Feed(xs, 0)))
					mn = Collect(trend.NewMovingMinWithPeriod[T](p).Compute(Feed(xs, 0)))
				}, mc.Options{})
				n++
				c.Executions++
				c.Transitions += int64(res.Events)
				cs := map[string]any{"element_type": tname, "values": fmt.Sprint(xs), "period": p}
				if len(res.Panics) > 0 || res.Deadlock || len(mx.Vals) != l-p+1 || len(mn.Vals) != l-p+1 {
					c.Fail("", fmt.Sprintf("MovingMax/MovingMin[%s] period %d on %v: did not terminate cleanly with %d values each", tname, p, xs, l-p+1), cs)
					continue
				}
				for k := 0; k <= l-p; k++ {
					lo, hi := xs[k], xs[k]
					for _, v := range xs[k : k+p] {
						if v < lo {
							lo = v
						}
						if v > hi {
							hi = v
						}
					}
					cur := xs[k+p-1]
					if mn.Vals[k] > cur || mx.Vals[k] < cur {
						c.Fail("", fmt.Sprintf("MovingMax/MovingMin[%s] period %d on %v: at position %d the value %v is outside [moving min %v, moving max %v]", tname, p, xs, k+p-1, cur, mn.Vals[k], mx.Vals[k]), cs)
						break
					}
					if mn.Vals[k] != lo || mx.Vals[k] != hi {
						c.Fail("", fmt.Sprintf("MovingMax/MovingMin[%s] period %d on %v: at position %d moving min/max = %v/%v, the window holds %v/%v", tname, p, xs, k+p-1, mn.Vals[k], mx.Vals[k], lo, hi), cs)
						break
					}
				}
			}
		}
	}
	c.States += n
	c.Evaluations += n
	c.Nontrivial += n
}

func c15TypedUnit(c *core.Ctx, maxLen int) {
	typedExtremes(c, "int64", []int64{1 << 53, 1<<53 + 1, 1<<53 + 3, math.MaxInt64 - 1, math.MaxInt64}, maxLen)
	typedExtremes(c, "int", []int{-(1 << 60) - 1, -(1 << 60), 1<<60 + 1, 1<<60 + 3}, maxLen)
	typedExtremes(c, "int32", []int32{1 << 24, 1<<24 + 1, math.MaxInt32 - 1, math.MaxInt32}, maxLen)
	typedExtremes(c, "int8", []int8{math.MinInt8, -1, 0, math.MaxInt8}, maxLen)
	typedExtremes(c, "float32", []float32{1, math.Nextafter32(1, 2), 16777216, 3.4e38}, maxLen)
}

// typedBounded: the bounded oscillators instantiated with float32 at an index-like price level with bars a few dozen
// ulps wide, and with float64 at prices near 2^52: quiet bars relative to the precision of the price, closes on the high,
// on the low and in between. The bounds are properties of the exact formulas AND of their documented evaluation order
// (differences of nearby same-sign values are exact), so they hold to within a few ulps of the result's own scale.
type tbar[T helper.Number] struct{ h, l, c, v T }

func typedBounded[T helper.Number](c *core.Ctx, tname string, bars []tbar[T], maxLen int, eps float64) {
	var n int64
	for l := 1; l <= maxLen; l++ {
		for _, w := range words(len(bars), l) {
			hs, ls, cs, vs := make([]T, l), make([]T, l), make([]T, l), make([]T, l)
			for i, s := range w {
				hs[i], ls[i], cs[i], vs[i] = bars[s].h, bars[s].l, bars[s].c, bars[s].v
			}
			for p := 1; p <= 2 && p <= l; p++ {
				var mfm, cmf, wr, sk, sd *Sink[T]
				res := mc.Run(func() {
					mfm = Collect(volume.NewMfm[T]().Compute(Feed(hs, 0), Feed(ls, 0), Feed(cs, 0)))
					cmf = Collect(volume.NewCmfWithPeriod[T](p).Compute(Feed(hs, 0), Feed(ls, 0), Feed(cs, 0), Feed(vs, 0)))
					w2 := momentum.NewWilliamsR[T]()
					w2.Max.Period, w2.Min.Period = p, p
					wr = Collect(w2.Compute(Feed(hs, 0), Feed(ls, 0), Feed(cs, 0)))
					so := momentum.NewStochasticOscillator[T]()
					so.Max.Period, so.Min.Period, so.Sma.Period = p, p, p
					k, d := so.Compute(Feed(hs, 0), Feed(ls, 0), Feed(cs, 0))
					sk, sd = Collect(k), Collect(d)
				}, mc.Options{})
				n++
				c.Executions++
				c.Transitions += int64(res.Events)
				if len(res.Panics) > 0 || res.Deadlock {
					continue // termination is C03's business
				}
				info := map[string]any{"element_type": tname, "highs": fmt.Sprint(hs), "lows": fmt.Sprint(ls), "closings": fmt.Sprint(cs), "period": p}
				chk := func(name string, s *Sink[T], lo, hi float64) bool {
					for i, x := range s.Vals {
						v := float64(x)
						if math.IsNaN(v) {
							continue
						}
						if v < lo-eps*math.Max(1, math.Abs(lo)) || v > hi+eps*math.Max(1, math.Abs(hi)) {
							c.Fail("", fmt.Sprintf("%s[%s] period %d on highs %v lows %v closings %v: value %d is %v, outside [%v, %v]", name, tname, p, hs, ls, cs, i, x, lo, hi), info)
							return false
						}
					}
					return true
				}
				_ = chk("volume.Mfm", mfm, -1, 1) && chk("volume.Cmf", cmf, -1, 1) && chk("momentum.WilliamsR", wr, -100, 0) &&
					chk("momentum.StochasticOscillator %K", sk, 0, 100) && chk("momentum.StochasticOscillator %D", sd, 0, 100)
			}
		}
	}
	c.States += n
	c.Evaluations += n
	c.Nontrivial += n
}

func c15TypedBoundedUnit(c *core.Ctx, maxLen int) {
	u32 := func(x float32, k int) float32 { // k ulps above x
		for i := 0; i < k; i++ {
			x = math.Nextafter32(x, float32(math.Inf(1)))
		}
		return x
	}
	l1, l2 := float32(5000), float32(5000.5)
	typedBounded(c, "float32", []tbar[float32]{
		{u32(l1, 21), l1, u32(l1, 21), 10}, {u32(l1, 21), l1, l1, 10}, {u32(l1, 21), l1, u32(l1, 10), 5},
		{u32(l2, 7), l2, u32(l2, 7), 10}, {u32(l2, 7), l2, l2, 20},
	}, maxLen, 1e-5)
	b := float64(1 << 52)
	typedBounded(c, "float64", []tbar[float64]{
		{b + 1, b, b + 1, 10}, {b + 1, b, b, 10}, {b + 6, b + 3, b + 4, 5}, {b + 6, b + 3, b + 6, 10}, {b + 6, b + 3, b + 3, 20},
	}, maxLen, 1e-9)
	typedBounded(c, "float64", []tbar[float64]{
		{6, 3, 6, 10}, {6, 3, 3, 10}, {6.002, 3, 5.004, 10}, {8, 5, 8, 20}, {7, 2, 2, 5},
	}, maxLen, 1e-9)
}
