package checks

import (
	"fmt"
	"os"
	"path/filepath"
	"sort"
	"strings"
	"sync/atomic"
	"time"

	"verifharness/core"
	"verifharness/explore"

	"github.com/cinar/indicator/v2/asset"
	"github.com/cinar/indicator/v2/verifmc/mc"
)

// dayBase is day(0); the "far-dates" initial states move it (see replayRepo).
var dayBase = time.Date(2021, 3, 1, 0, 0, 0, 0, time.UTC)

func day(i int) time.Time { return dayBase.AddDate(0, 0, i) }

// renamed presents a repository under other asset names (the model keeps the short logical names).
type renamed struct {
	inner    asset.Repository
	to, from map[string]string
}

func newRenamed(inner asset.Repository, to map[string]string) *renamed {
	r := &renamed{inner: inner, to: to, from: map[string]string{}}
	for k, v := range to {
		r.from[v] = k
	}
	return r
}

func (r *renamed) real(n string) string {
	if v, ok := r.to[n]; ok {
		return v
	}
	return n
}

func (r *renamed) Assets() ([]string, error) {
	as, err := r.inner.Assets()
	out := make([]string, len(as))
	for i, a := range as {
		out[i] = a
		if v, ok := r.from[a]; ok {
			out[i] = v
		}
	}
	return out, err
}
func (r *renamed) Get(n string) (<-chan *asset.Snapshot, error) { return r.inner.Get(r.real(n)) }
func (r *renamed) GetSince(n string, d time.Time) (<-chan *asset.Snapshot, error) {
	return r.inner.GetSince(r.real(n), d)
}
func (r *renamed) LastDate(n string) (time.Time, error) { return r.inner.LastDate(r.real(n)) }
func (r *renamed) Append(n string, c <-chan *asset.Snapshot) error {
	return r.inner.Append(r.real(n), c)
}

// snap builds a snapshot with awkward but finite float values.
func snap(d int, variant int) *asset.Snapshot {
	if variant == 3 {
		// every number at its widest decimal rendering (24 characters): a stored row of more than 128 bytes
		return &asset.Snapshot{Date: day(d), Open: -1.7976931348623157e+308, High: 1.7976931348623157e+308, Low: -2.2250738585072014e-308, Close: -1.2345678901234567e-123 * float64(d+1), Volume: 1.2345678901234567e+123}
	}
	b := float64(d*10 + variant)
	return &asset.Snapshot{Date: day(d), Open: b + 0.1, High: b + 1.0/3, Low: b - 1e-9, Close: b + 0.5, Volume: 1e21 + b}
}

func snapEq(a, b *asset.Snapshot) bool {
	return a.Date.Equal(b.Date) && bitsEq(a.Open, b.Open) && bitsEq(a.High, b.High) && bitsEq(a.Low, b.Low) && bitsEq(a.Close, b.Close) && bitsEq(a.Volume, b.Volume)
}

type repoOp struct {
	Name  string
	Batch []int // day indices
	Var   int
}

func (o repoOp) String() string { return fmt.Sprintf("Append(%s,%v)", o.Name, o.Batch) }

type repoKind struct {
	name  string
	inits []string
	// open creates a fresh repository in the given initial state; state() renders its concrete persisted state.
	open func(init string) (repo asset.Repository, state func() string, cleanup func())
	// second returns another repository object on the same persisted store as repo (nil: the kind has no such notion)
	second func(repo asset.Repository) asset.Repository
}

var repoSeq int64

var procTmp string

// tmpBase returns a per-process scratch directory (removed by CleanupTmp).
func tmpBase() string {
	if procTmp != "" {
		return procTmp
	}
	base := os.Getenv("VERIF_TMP")
	if base == "" {
		if st, err := os.Stat("/dev/shm"); err == nil && st.IsDir() {
			base = "/dev/shm"
		} else {
			base = os.TempDir()
		}
	}
	d, err := os.MkdirTemp(base, "verif-proc-")
	if err != nil {
		panic("cannot create scratch directory: " + err.Error())
	}
	procTmp = d
	return d
}

// CleanupTmp removes the per-process scratch directory.
func CleanupTmp() {
	if procTmp != "" {
		os.RemoveAll(procTmp)
		procTmp = ""
	}
}

func mustTempDir(tag string) string {
	d, err := os.MkdirTemp(tmpBase(), "verif-"+tag+"-")
	if err != nil {
		panic("cannot create scratch directory: " + err.Error())
	}
	return d
}

func dirState(dir string) string {
	ents, _ := os.ReadDir(dir)
	var parts []string
	for _, e := range ents {
		b, _ := os.ReadFile(filepath.Join(dir, e.Name()))
		parts = append(parts, e.Name()+"="+string(b))
	}
	sort.Strings(parts)
	return strings.Join(parts, "\x00")
}

// fsBase / sqlDsn remember where an opened repository object lives so that a second object can be opened on the same store.
var (
	fsBase = map[asset.Repository]string{}
	sqlDsn = map[asset.Repository]string{}
)

func repoKinds() []repoKind {
	return []repoKind{
		{name: "memory", inits: []string{"empty", "reads-between-appends", "far-dates-2262", "far-dates-9999", "dotted-names"}, open: func(string) (asset.Repository, func() string, func()) {
			r := asset.NewInMemoryRepository()
			return r, func() string { return core.Dump(r) }, func() {}
		}},
		{name: "filesystem", inits: []string{"empty", "empty-file-A", "header-only-A", "base-path-with-pattern-characters", "reads-between-appends", "two-objects", "process-zone-utc+9", "process-zone-utc-5", "far-dates-2262", "far-dates-9999", "dotted-names"},
			second: func(r asset.Repository) asset.Repository { return asset.NewFileSystemRepository(fsBase[r]) },
			open: func(init string) (asset.Repository, func() string, func()) {
				dir := mustTempDir("c10")
				top := dir
				switch init {
				case "base-path-with-pattern-characters":
					// the base directory is a path, not a pattern: "r[1]*? e" is a legal directory name, and the sibling "r1 e"
					// (which a glob reading of the base would match) holds an asset of another repository
					sib := filepath.Join(top, "r1 e")
					os.Mkdir(sib, 0o700)
					os.WriteFile(filepath.Join(sib, "Q.csv"), []byte("Date,Open,High,Low,Close,Volume\n2021-03-01,1,1,1,1,1\n"), 0o600)
					dir = filepath.Join(top, "r[1]*? e")
					if err := os.Mkdir(dir, 0o700); err != nil {
						panic(err)
					}
				}
				switch init {
				case "empty-file-A":
					os.WriteFile(filepath.Join(dir, "A.csv"), nil, 0o600)
				case "header-only-A":
					os.WriteFile(filepath.Join(dir, "A.csv"), []byte("Date,Open,High,Low,Close,Volume\n"), 0o600)
				}
				r := asset.NewFileSystemRepository(dir)
				fsBase[r] = dir
				return r, func() string { return dirState(dir) }, func() { os.RemoveAll(top); delete(fsBase, r) }
			}},
		{name: "sql", inits: []string{"empty", "reads-between-appends", "two-objects", "far-dates-2262", "far-dates-9999", "dotted-names"},
			second: func(r asset.Repository) asset.Repository {
				r2, err := asset.NewSQLRepository("verifsql", sqlDsn[r], fakeDialect{})
				if err != nil {
					panic(err)
				}
				return r2
			},
			open: func(string) (asset.Repository, func() string, func()) {
				dsn := fmt.Sprintf("c10-%d-%d", os.Getpid(), atomic.AddInt64(&repoSeq, 1))
				r, err := asset.NewSQLRepository("verifsql", dsn, fakeDialect{})
				if err != nil {
					panic(err)
				}
				sqlDsn[r] = dsn
				return r, func() string { return theFakeDriver.dump(dsn) }, func() { r.Close(); theFakeDriver.drop(dsn); delete(sqlDsn, r) }
			}},
	}
}

type repoModel struct {
	data     map[string][]*asset.Snapshot
	appended map[string]bool
}

func drainSnaps(c <-chan *asset.Snapshot) []*asset.Snapshot {
	var out []*asset.Snapshot
	for {
		s, ok := mc.Recv2(c)
		if !ok {
			return out
		}
		out = append(out, s)
	}
}

func sameSnaps(a, b []*asset.Snapshot) bool {
	if len(a) != len(b) {
		return false
	}
	for i := range a {
		if a[i] == nil || b[i] == nil || !snapEq(a[i], b[i]) {
			return false
		}
	}
	return true
}

func descSnaps(a []*asset.Snapshot) string {
	var p []string
	for _, s := range a {
		if s == nil {
			p = append(p, "nil")
			continue
		}
		p = append(p, fmt.Sprintf("%s/%v", s.Date.Format("01-02"), s.Close))
	}
	return "[" + strings.Join(p, " ") + "]"
}

// checkReads issues every read against the repository and compares with the model.
// Returns (violation, knownKey).
func checkReads(repo asset.Repository, m *repoModel, kind string, tolerateKnown bool) (string, string) {
	for _, name := range []string{"A", "gs", "Z"} {
		want := m.data[name]
		ch, err := repo.Get(name)
		switch {
		case len(want) > 0:
			if err != nil {
				return fmt.Sprintf("Get(%s) failed: %v; the asset holds %s", name, err, descSnaps(want)), ""
			}
			if got := drainSnaps(ch); !sameSnaps(got, want) {
				return fmt.Sprintf("Get(%s) = %s, appended so far %s", name, descSnaps(got), descSnaps(want)), ""
			}
		case !m.appended[name]:
			if err == nil {
				got := drainSnaps(ch)
				key := ""
				if kind == "sql" && len(got) == 0 {
					key = "sql-unknown-asset-reads-as-empty"
				}
				if !(tolerateKnown && key != "") {
					return fmt.Sprintf("Get(%s) of a never-appended asset succeeded with %s (an error is required)", name, descSnaps(got)), key
				}
			}
		default: // appended with empty batches only: error or empty stream are both acceptable
			if err == nil {
				if got := drainSnaps(ch); len(got) != 0 {
					return fmt.Sprintf("Get(%s) = %s although nothing was appended", name, descSnaps(got)), ""
				}
			}
		}
		// GetSince at every date and between dates
		for h := -1; h <= 9; h++ {
			bound := day(0).Add(time.Duration(h) * 12 * time.Hour)
			var exp []*asset.Snapshot
			for _, s := range want {
				if !s.Date.Before(bound) {
					exp = append(exp, s)
				}
			}
			ch, err := repo.GetSince(name, bound)
			if len(want) > 0 {
				if err != nil {
					return fmt.Sprintf("GetSince(%s,%s) failed: %v", name, bound.Format("01-02T15"), err), ""
				}
				if got := drainSnaps(ch); !sameSnaps(got, exp) {
					return fmt.Sprintf("GetSince(%s,%s) = %s, expected %s", name, bound.Format("01-02T15"), descSnaps(got), descSnaps(exp)), ""
				}
			} else if err == nil {
				got := drainSnaps(ch)
				if len(got) != 0 {
					return fmt.Sprintf("GetSince(%s) = %s on an asset without snapshots", name, descSnaps(got)), ""
				}
				if !m.appended[name] {
					key := ""
					if kind == "sql" {
						key = "sql-unknown-asset-reads-as-empty"
					}
					if !(tolerateKnown && key != "") {
						return fmt.Sprintf("GetSince(%s) of a never-appended asset succeeded (an error is required)", name), key
					}
				}
			}
			if h > 1 && len(want) == 0 {
				break
			}
		}
		ld, err := repo.LastDate(name)
		if len(want) > 0 {
			if err != nil || !ld.Equal(want[len(want)-1].Date) {
				return fmt.Sprintf("LastDate(%s) = %v, %v; last appended snapshot is dated %v", name, ld, err, want[len(want)-1].Date), ""
			}
		} else if err == nil {
			return fmt.Sprintf("LastDate(%s) = %v without error although the asset has no snapshots", name, ld), ""
		}
	}
	assets, err := repo.Assets()
	if err != nil {
		return fmt.Sprintf("Assets() failed: %v", err), ""
	}
	set := map[string]int{}
	for _, a := range assets {
		set[a]++
	}
	for a, n := range set {
		if n > 1 {
			return fmt.Sprintf("Assets() lists %s %d times", a, n), ""
		}
		if !m.appended[a] {
			return fmt.Sprintf("Assets() lists %s which was never appended", a), ""
		}
	}
	for a, s := range m.data {
		if len(s) > 0 && set[a] == 0 {
			return fmt.Sprintf("Assets() = %v misses %s which holds snapshots", assets, a), ""
		}
	}
	return "", ""
}

// replayRepo replays hist on a fresh repository inside one controlled execution;
// after the last operation every read is issued.
func replayRepo(k repoKind, init string, hist []repoOp) (state string, viol string, key string) {
	// the persisted dates are calendar days written without a zone: what comes back must not depend on the time zone the
	// process happens to run in (TZ, /etc/localtime)
	if strings.HasPrefix(init, "process-zone-utc") {
		saved := time.Local
		off := 9
		if strings.HasSuffix(init, "-5") {
			off = -5
		}
		time.Local = time.FixedZone("process zone", off*3600)
		defer func() { time.Local = saved }()
	}
	// whole-day dates far from today: around 2262-04-11 (where a count of nanoseconds since 1970 leaves int64) and at the
	// end of the four-digit years
	if strings.HasPrefix(init, "far-dates-") {
		saved := dayBase
		dayBase = time.Date(2262, 4, 10, 0, 0, 0, 0, time.UTC)
		if init == "far-dates-9999" {
			dayBase = time.Date(9999, 12, 24, 0, 0, 0, 0, time.UTC)
		}
		defer func() { dayBase = saved }()
	}
	repo, stateFn, cleanup := k.open(init)
	defer cleanup()
	if init == "dotted-names" {
		// ticker symbols with a dot (share classes), and a name that itself ends in the data files' suffix
		repo = newRenamed(repo, map[string]string{"A": "BRK.B", "gs": "x.csv", "Z": "BF.A"})
	}
	m := &repoModel{data: map[string][]*asset.Snapshot{}, appended: map[string]bool{}}
	if init != "empty" {
		m.appended["A"] = true // the file exists (without snapshots), as after an Append of an empty batch
	}
	if init != "empty" && init != "empty-file-A" && init != "header-only-A" {
		delete(m.appended, "A")
	}
	// "reads-between-appends": every read is issued on the same object before the first and after every Append (an object
	// may not remember what it read earlier); "two-objects": in addition the Appends at odd steps go through a second
	// object on the same store (another process, another part of the program): the persisted map is the store, not the object
	interleave := init == "reads-between-appends" || init == "two-objects"
	var other asset.Repository
	res := mc.Run(func() {
		if init == "two-objects" && k.second != nil {
			other = k.second(repo)
		}
		if interleave {
			if v, ky := checkReads(repo, m, k.name, true); v != "" {
				viol, key = "before the first Append: "+v, ky
				return
			}
		}
		for i, op := range hist {
			var batch []*asset.Snapshot
			for _, d := range op.Batch {
				batch = append(batch, snap(d, op.Var))
			}
			w := repo
			if other != nil && i%2 == 1 {
				w = other
			}
			if err := w.Append(op.Name, Feed(batch, 0)); err != nil {
				viol = fmt.Sprintf("step %d %v failed: %v", i, op, err)
				return
			}
			m.data[op.Name] = append(m.data[op.Name], batch...)
			m.appended[op.Name] = true
			if interleave && i < len(hist)-1 {
				if v, ky := checkReads(repo, m, k.name, true); v != "" {
					viol, key = fmt.Sprintf("reads after step %d of %d: %s", i, len(hist), v), ky
					return
				}
			}
		}
		before := stateFn()
		viol, key = checkReads(repo, m, k.name, false)
		if viol != "" && key != "" {
			// a recorded finding: report it, and check everything else in this state as well
			if v2, k2 := checkReads(repo, m, k.name, true); v2 != "" {
				viol, key = v2, k2
			}
		}
		if viol == "" || key != "" {
			if after := stateFn(); after != before {
				viol, key = "reads changed the persisted state", ""
			}
		}
	}, mc.Options{})
	if viol == "" {
		switch {
		case len(res.Panics) > 0:
			viol = "panic: " + res.Panics[0].Value
		case res.Deadlock:
			viol = fmt.Sprintf("an operation never returned or left %d goroutines blocked (%s)", len(res.Blocked), blockedDesc(res))
		}
	}
	if res.Internal != "" {
		viol, key = "INTERNAL "+res.Internal, "internal"
	}
	return stateFn(), viol, key
}

func repoUnit(c *core.Ctx, k repoKind, init string, depth int) {
	batches := [][]int{{}, {0}, {1, 2}, {2}, {3}}
	monotone := k.name == "sql" // the order a SQL dialect returns rows in is its own business; the other two store append order
	if !monotone {
		batches = append(batches, []int{3, 1}) // a back-fill: stored order is not date order
	}
	type st struct {
		h    []repoOp
		last map[string]int
	}
	s0, viol, key := replayRepo(k, init, nil)
	c.Executions++
	if viol != "" {
		c.Fail(key, fmt.Sprintf("%s repository (initial state %s), no operations: %s", k.name, init, viol), nil)
	}
	seen := map[string]bool{s0: true}
	frontier := []st{{nil, map[string]int{"A": -1, "gs": -1}}}
	for d := 0; d < depth && len(frontier) > 0; d++ {
		var next []st
		for _, s := range frontier {
			for _, name := range []string{"A", "gs"} { // "gs" ends in characters of the ".csv" suffix
				for bi, b := range batches {
					if monotone && len(b) > 0 && b[0] < s.last[name] {
						continue // dates are monotone per asset (equal dates allowed)
					}
					op := repoOp{Name: name, Batch: b, Var: (len(s.h) + bi) % 4}
					h2 := append(append([]repoOp{}, s.h...), op)
					state, viol, key := replayRepo(k, init, h2)
					c.Transitions++
					c.Executions++
					if key == "internal" {
						c.InternalError(viol)
						continue
					}
					if viol != "" {
						c.Fail(key, fmt.Sprintf("%s repository (initial state %s) after %v: %s", k.name, init, h2, viol), map[string]any{"repository": k.name, "init": init, "history": fmt.Sprint(h2)})
						if key == "" {
							continue
						}
					}
					if !seen[state] {
						seen[state] = true
						l2 := map[string]int{"A": s.last["A"], "gs": s.last["gs"]}
						if len(b) > 0 {
							l2[name] = b[len(b)-1]
						}
						next = append(next, st{h2, l2})
						if len(seen) == 6 {
							c.Sample(map[string]any{"repository": k.name, "init": init, "history": fmt.Sprint(h2), "state": state})
						}
					}
				}
			}
		}
		frontier = next
	}
	c.States += int64(len(seen))
	c.Evaluations += int64(len(seen))
	c.Nontrivial += int64(len(seen) - 1)
	c.Notes[k.name+"/"+init] = map[string]any{"states": len(seen), "depth": depth}
}

// memConcurrentUnit: overlapping Appends on the in-memory repository (it is the target of multi-worker syncs):
// every Append that has returned must be visible afterwards, whatever the interleaving.
func memConcurrentUnit(c *core.Ctx) {
	type job struct {
		name string
		days []int
	}
	cases := [][]job{
		{{"A", []int{1, 2}}, {"A", []int{3}}},
		{{"A", []int{1}}, {"gs", []int{1, 2}}},
		{{"A", []int{1, 2}}, {"A", []int{2, 3}}, {"gs", []int{0}}},
	}
	for ci, jobs := range cases {
		sc := func() explore.Exec {
			var got map[string][]*asset.Snapshot
			returned := 0
			body := func() {
				r := asset.NewInMemoryRepository()
				r.Append("A", Feed([]*asset.Snapshot{snap(0, 0)}, 0))
				var wg mc.WaitGroup
				for ji, j := range jobs {
					j := j
					var sn []*asset.Snapshot
					for _, d := range j.days {
						sn = append(sn, snap(d, 1+ji))
					}
					wg.Add(1)
					mc.Go(func() {
						defer wg.Done()
						if r.Append(j.name, Feed(sn, 0)) == nil {
							returned++
						}
					})
				}
				wg.Wait()
				got = map[string][]*asset.Snapshot{}
				for _, name := range []string{"A", "gs"} {
					if ch, err := r.Get(name); err == nil {
						got[name] = drainSnaps(ch)
					}
				}
			}
			observe := func(res *mc.Result) (string, string) {
				if res.Deadlock || len(res.Panics) > 0 {
					return "HANG", fmt.Sprintf("concurrent Appends did not finish (deadlock=%v panics=%d)", res.Deadlock, len(res.Panics))
				}
				want := map[string]int{"A": 1}
				for _, j := range jobs {
					want[j.name] += len(j.days)
				}
				out := ""
				for _, name := range []string{"A", "gs"} {
					out += fmt.Sprintf("%s:%d ", name, len(got[name]))
					if len(got[name]) != want[name] {
						return out, fmt.Sprintf("%d Appends returned, asset %s should hold %d snapshots but Get returns %s", returned, name, want[name], descSnaps(got[name]))
					}
				}
				return out, ""
			}
			return explore.Exec{Body: body, Observe: observe}
		}
		st := explore.DPOR(sc, explore.Opts{Races: true, MaxExec: 20000})
		c.States++
		c.Evaluations++
		c.Nontrivial++
		c.Executions += int64(st.Executions)
		c.Transitions += int64(st.Events)
		if st.Internal != "" {
			c.InternalError(st.Internal)
		}
		if !st.Exhaustive {
			c.NotExhaustive("DPOR cap on concurrent appends: " + st.CapHit)
		}
		for _, v := range st.Violations {
			c.Fail("", fmt.Sprintf("in-memory repository, overlapping Appends (case %d, schedule %v): %s", ci, compact(v.Choices), v.Text), map[string]any{"case": ci, "choices": compact(v.Choices)})
			break
		}
		for pair := range st.RacePairs {
			c.Fail(raceKey(pair), fmt.Sprintf("in-memory repository, overlapping Appends: data race between %s", pair), nil)
		}
		c.Notes[fmt.Sprintf("memory concurrent appends case %d", ci)] = map[string]any{"dpor_traces": st.Executions}
	}
}

func init() {
	core.Register(&core.Check{
		ID:   "C10",
		Rule: "explicit-state BFS over Append histories (2 asset names x 5 batches incl. empty and equal-date boundary, plus out-of-date-order back-fills for the in-memory and file-system repositories, depth 4 / 5 thorough) on the real in-memory, file-system (initial states: empty dir, existing empty file, header-only file; also process zones UTC+9 / UTC-5, dates around 2262-04-11 and in December 9999, asset names with dots) and SQL (over an in-harness conforming database/sql driver) repositories, deduplicated on the concrete persisted state; in every state every read (Get, GetSince at every date and between dates, LastDate, Assets for two known and one unknown name) is compared with the map model and must leave the state unchanged; every history runs as one controlled execution, so 'Append has returned => visible' and hangs are decided without clocks; plus 2-3 overlapping Appends on the in-memory repository explored over all schedules by DPOR (every returned Append must be visible); non-trivial = non-initial states",
		Assume: []string{"SQL repository is exercised over the harness's fake driver only (rows in insertion order, positional parameters)", "snapshot values: finite floats incl. 0.1, 1/3, 1e21; whole-day UTC dates in 2021 (and, in the far-dates units, in 2262 and 9999)",
			"an asset that was appended with empty batches only may or may not be listed / readable (not constrained by the property)"},
		Units: func(tier string) []core.Unit {
			depth := 4
			if tier == "thorough" {
				depth = 5
			}
			var us []core.Unit
			for _, k := range repoKinds() {
				k := k
				for _, in := range k.inits {
					in := in
					cost := 10
					if k.name == "filesystem" {
						cost = 30
					}
					us = append(us, core.Unit{Key: "repo-" + k.name + "-" + in, Cost: cost, Run: func(c *core.Ctx) { repoUnit(c, k, in, depth) }})
				}
			}
			us = append(us, core.Unit{Key: "repo-memory-concurrent-appends", Cost: 5, Run: memConcurrentUnit})
			return us
		},
	})
}
