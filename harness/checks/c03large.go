package checks

import (
	"fmt"
	"time"

	"verifharness/cat"
	"verifharness/core"
	"verifharness/explore"
	"verifharness/ref"

	"github.com/cinar/indicator/v2/strategy"
	"github.com/cinar/indicator/v2/verifmc/mc"
)

// Large periods. The period boxes of the catalogue stay small so that every length and capacity can be enumerated; a
// pipeline whose termination depends on some fixed amount of buffering (a constant capacity where the lag between two
// branches is a period difference) behaves the same on all of them. Here every catalogued configuration shape is
// blown up: the components that are periods (all of them unless the entry says otherwise) are multiplied by 70 (thorough: also by 150
// and 330, past 64, 128, 256 and 1024 values in flight between the branches), everything else is kept; the network is
// explored with DPOR on inputs a little longer than the warm-up and twice the warm-up.

func periodComponents(cfg []float64, periods []int) []bool {
	isP := make([]bool, len(cfg))
	if periods == nil {
		for k := range isP {
			isP[k] = true
		}
		return isP
	}
	for _, k := range periods {
		isP[k] = true
	}
	return isP
}

// largeCfgs picks the configuration shapes to blow up: the last of the box and the one with the widest spread.
func largeCfgs(cfgs [][]float64, periods []int, factor float64) [][]float64 {
	if len(cfgs) == 0 {
		return nil
	}
	pick := map[int]bool{len(cfgs) - 1: true}
	best, bestSpread := -1, 0.0
	for i, c := range cfgs {
		isP := periodComponents(c, periods)
		lo, hi, any := 0.0, 0.0, false
		for k, v := range c {
			if !isP[k] {
				continue
			}
			if !any || v < lo {
				lo = v
			}
			if !any || v > hi {
				hi = v
			}
			any = true
		}
		if any && hi-lo > bestSpread {
			best, bestSpread = i, hi-lo
		}
	}
	if best >= 0 {
		pick[best] = true
	}
	var out [][]float64
	for i, c := range cfgs {
		if !pick[i] {
			continue
		}
		isP := periodComponents(c, periods)
		c2 := append([]float64{}, c...)
		scaled := false
		for k := range c2 {
			if isP[k] {
				c2[k] *= factor
				scaled = true
			}
		}
		if scaled {
			out = append(out, c2)
		}
	}
	return out
}

func largeFactors(thorough bool) []float64 {
	if thorough {
		return []float64{70, 150, 330}
	}
	return []float64{70}
}

func exploreLarge(c *core.Ctx, label string, sc explore.Scenario, cs map[string]any) {
	st := explore.DPOR(sc, explore.Opts{MaxExec: 40, Budget: 60 * time.Second})
	c.Executions += int64(st.Executions)
	c.Transitions += int64(st.Events)
	c.States++
	c.Evaluations++
	c.Nontrivial++
	if st.Internal != "" {
		c.InternalError(label + ": " + st.Internal)
		return
	}
	if !st.Exhaustive {
		c.Count("large-period scenarios where DPOR stopped at its cap of 40 traces (all explored traces are checked)", 1)
	}
	if len(st.Outcomes) > 1 {
		c.Fail("", fmt.Sprintf("%s: %d different outcomes depending on the schedule", label, len(st.Outcomes)), cs)
	}
	for _, v := range st.Violations {
		c.Fail("", fmt.Sprintf("%s (DPOR, schedule %v): %s", label, compact(v.Choices), v.Text), cs)
		break
	}
}

func indLargeUnit(c *core.Ctx, e *cat.Ind) {
	idle := func(cfg []float64) int { return e.New(cfg).Idle }
	for _, f := range largeFactors(c.Thorough()) {
		for _, cfg := range largeCfgs(e.Cfgs(false), e.Periods, f) {
			w := idle(cfg)
			for _, n := range []int{w + 3, 2*w + 2} {
				in := make([][]float64, len(e.In))
				rows := fixedRows(n)
				for fi := range e.In {
					col := make([]float64, n)
					for i := range col {
						if idxF, ok := fieldIdx[e.In[fi]]; ok {
							col[i] = rows[i][idxF]
						} else {
							col[i] = rows[i][3] + float64(fi)
						}
					}
					in[fi] = col
				}
				cs := map[string]any{"indicator": e.Name, "config": cfg, "input_length": n, "capacity": 0}
				exploreLarge(c, fmt.Sprintf("%s%s on %d values", e.Name, fmtCfg(cfg), n), indPipeScenario(e, cfg, in, 0), cs)
			}
		}
	}
}

func stratLargeUnit(c *core.Ctx, e *cat.Strat) {
	for _, f := range largeFactors(c.Thorough()) {
		for _, cfg := range largeCfgs(e.Cfgs(false), e.Periods, f) {
			cfg := cfg
			w := e.Warm(cfg)
			for _, n := range []int{w + 3, 2*w + 2} {
				snaps := cat.Snapshots(fixedRows(n))
				cs := map[string]any{"strategy": e.Name, "config": cfg, "snapshots": n, "capacity": 0}
				exploreLarge(c, fmt.Sprintf("%s%s on %d snapshots", e.Name, fmtCfg(cfg), n), stratPipeScenario(func() strategy.Strategy { return e.New(cfg) }, snaps, 0), cs)
			}
		}
	}
}

// indLargeValuesUnit is the value / count side of the large periods (C01, C02): one de Bruijn series of 2 200 values through
// every blown-up configuration shape, outputs counted against the warm-up contract (also for inputs of w-1 .. w+2 values)
// and compared with the documented formula. A computation that switches to another algorithm from some window length on
// is not reached by the period boxes.
func indLargeValuesUnit(c *core.Ctx, e *cat.Ind, prop string) {
	lrows := alphabet(e.In, true)
	if len(e.In) > 2 || (len(e.In) == 2 && len(lrows[0]) == len(e.In) && len(lrows) == len(sigmaBars)) {
		lrows = lrows[:5]
	}
	word, _ := deBruijn(len(lrows), 2200)
	word = word[:2200]
	mkIn := func(n int) [][]float64 {
		in := make([][]float64, len(e.In))
		for f := range in {
			col := make([]float64, n)
			for i := range col {
				col[i] = lrows[word[i]][f]
			}
			in[f] = col
		}
		return in
	}
	for _, f := range largeFactors(c.Thorough()) {
		for _, cfg := range largeCfgs(e.Cfgs(false), e.Periods, f) {
			w := e.New(cfg).Idle
			label := e.Name + fmtCfg(cfg)
			lens := []int{len(word)}
			if prop == "C02" {
				lens = []int{max(0, w-1), w, w + 1, w + 2, len(word)}
			}
			for _, n := range lens {
				if n > len(word) {
					continue
				}
				in := mkIn(n)
				r := RunInd(e.New(cfg), in, 0, mc.Options{})
				c.Executions++
				c.Transitions += int64(r.Res.Events)
				c.States++
				c.Evaluations++
				if !r.Healthy() {
					c.Count("large-period runs that did not reach clean quiescence (left to C03)", 1)
					continue
				}
				cs := indCase{Indicator: e.Name, Cfg: cfg, Fields: e.In, Idle: w}
				switch prop {
				case "C02":
					want := max(0, n-w)
					if want > 0 {
						c.Nontrivial++
					}
					for j, o := range r.Outs {
						if len(o) != want {
							key := ""
							if e.Name == "momentum.IchimokuCloud" && j == 4 && len(o) == max(0, n+cat.I(cfg, 3)-w) {
								key = "ichimoku-lagging-span-longer"
							}
							c.Fail(key, fmt.Sprintf("%s n=%d: output %d (%s) has %d values, warm-up contract n-w = %d (w=%d)", label, n, j, e.Out[j], len(o), want, w), cs)
							break
						}
					}
				case "C01":
					setScaleFields(e.In, in)
					ref.Rel, ref.LongSeries = 1e-9*float64(n)/10, true
					refs := e.Ref(cfg, toRef(in))
					msg, cm, _ := compareRef(e, r.Outs, refs, w)
					if cm > 0 {
						c.Nontrivial++
					}
					if msg != "" {
						key := ""
						for k2, fn := range e.AsIs {
							if m2, _, _ := compareRef(e, r.Outs, fn(cfg, toRef(in)), w); m2 == "" {
								key = k2
								break
							}
						}
						c.Fail(key, label+" on the de Bruijn series of "+fmt.Sprint(n)+" values: "+msg, cs)
					}
					ref.Rel, ref.LongSeries = 1e-9, false
				}
			}
		}
	}
}

// Wide networks. Nothing in a pipeline may depend on how many other pipelines are alive in the process: forty pipelines
// of one indicator side by side in one execution (each with its own producers and readers), and a Majority vote over
// forty instances of one strategy, must terminate like a single one (a process-wide pool, cache or limit shared between
// pipelines shows here and nowhere else). One canonical schedule per network: the networks are Kahn networks (their termination does not depend on
// the schedule), C03's DPOR units decide schedule independence on single pipelines.
const wideN = 40

func indWideUnit(c *core.Ctx, e *cat.Ind) {
	cfgs := e.Cfgs(false)
	if len(cfgs) == 0 {
		return
	}
	cfg := cfgs[len(cfgs)-1]
	w := e.New(cfg).Idle
	n := w + 60
	rows := fixedRows(n)
	in := make([][]float64, len(e.In))
	for fi := range e.In {
		col := make([]float64, n)
		for i := range col {
			if idxF, ok := fieldIdx[e.In[fi]]; ok {
				col[i] = rows[i][idxF]
			} else {
				col[i] = rows[i][3] + float64(fi)
			}
		}
		in[fi] = col
	}
	sc := func() explore.Exec {
		var sinks []*Sink[float64]
		body := func() {
			for p := 0; p < wideN; p++ {
				inst := e.New(cfg)
				chans := make([]cat.Ch, len(in))
				for i := range in {
					chans[i] = Feed(in[i], 0)
				}
				for _, o := range inst.Compute(chans) {
					sinks = append(sinks, Collect(o))
				}
			}
		}
		observe := func(res *mc.Result) (string, string) {
			out := ""
			per := len(sinks) / wideN
			for i, s := range sinks {
				if i >= per && fmtF(s.Vals) != fmtF(sinks[i%per].Vals) {
					out = fmt.Sprintf("pipeline %d delivers other values than pipeline 0", i/per)
				}
			}
			return out, quiescenceVerdict(res, func() (int, int) {
				open := 0
				for _, s := range sinks {
					if !s.Closed {
						open++
					}
				}
				return open, len(sinks)
			})
		}
		return explore.Exec{Body: body, Observe: observe}
	}
	cs := map[string]any{"indicator": e.Name, "config": cfg, "pipelines": wideN, "input_length": n}
	exploreWide(c, fmt.Sprintf("%d pipelines of %s%s side by side on %d values", wideN, e.Name, fmtCfg(cfg), n), sc, cs, true)
}

func stratWideUnit(c *core.Ctx, e *cat.Strat) {
	cfgs := e.Cfgs(false)
	if len(cfgs) == 0 {
		return
	}
	cfg := cfgs[len(cfgs)-1]
	n := e.Warm(cfg) + 60 // far more than the slack of the stages: every member is alive for most of the run
	snaps := cat.Snapshots(fixedRows(n))
	mk := func() strategy.Strategy {
		members := make([]strategy.Strategy, wideN)
		for i := range members {
			members[i] = e.New(cfg)
		}
		return strategy.NewMajorityStrategyWith("wide", members)
	}
	cs := map[string]any{"strategy": e.Name, "config": cfg, "members": wideN, "snapshots": n}
	exploreWide(c, fmt.Sprintf("Majority over %d instances of %s%s on %d snapshots", wideN, e.Name, fmtCfg(cfg), n), stratPipeScenario(mk, snaps, 0), cs, false)
}

func exploreWide(c *core.Ctx, label string, sc explore.Scenario, cs map[string]any, outcomeIsMessage bool) {
	for _, st := range []*explore.Stats{explore.S0(sc, explore.Opts{})} {
		c.Executions += int64(st.Executions)
		c.Transitions += int64(st.Events)
		if st.Internal != "" {
			c.InternalError(label + ": " + st.Internal)
			return
		}
		for o := range st.Outcomes {
			if o != "" && outcomeIsMessage {
				c.Fail("", label+": "+o, cs)
			}
		}
		for _, v := range st.Violations {
			c.Fail("", fmt.Sprintf("%s (schedule %v): %s", label, compact(v.Choices), v.Text), cs)
			break
		}
	}
	c.States++
	c.Evaluations++
	c.Nontrivial++
}
