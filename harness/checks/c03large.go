package checks

import (
	"fmt"
	"time"

	"verifharness/cat"
	"verifharness/core"
	"verifharness/explore"

	"github.com/cinar/indicator/v2/strategy"
)

// Large periods. The period boxes of the catalogue stay small so that every length and capacity can be enumerated; a
// pipeline whose termination depends on some fixed amount of buffering (a constant capacity where the lag between two
// branches is a period difference) behaves the same on all of them. Here every catalogued configuration shape is
// blown up: the components that are periods (all of them unless the entry says otherwise) are multiplied by 70 (thorough: also by 150
// and 330, past 64, 128, 256 and 1024 values in flight between the branches), everything else is kept; the network is
// explored with DPOR on inputs a little longer than the warm-up and twice the warm-up.

func periodComponents(cfg []float64, periods []int) []bool {
	isP := make([]bool, len(cfg))
	if periods == nil {
		for k := range isP {
			isP[k] = true
		}
		return isP
	}
	for _, k := range periods {
		isP[k] = true
	}
	return isP
}

// largeCfgs picks the configuration shapes to blow up: the last of the box and the one with the widest spread.
func largeCfgs(cfgs [][]float64, periods []int, factor float64) [][]float64 {
	if len(cfgs) == 0 {
		return nil
	}
	pick := map[int]bool{len(cfgs) - 1: true}
	best, bestSpread := -1, 0.0
	for i, c := range cfgs {
		isP := periodComponents(c, periods)
		lo, hi, any := 0.0, 0.0, false
		for k, v := range c {
			if !isP[k] {
				continue
			}
			if !any || v < lo {
				lo = v
			}
			if !any || v > hi {
				hi = v
			}
			any = true
		}
		if any && hi-lo > bestSpread {
			best, bestSpread = i, hi-lo
		}
	}
	if best >= 0 {
		pick[best] = true
	}
	var out [][]float64
	for i, c := range cfgs {
		if !pick[i] {
			continue
		}
		isP := periodComponents(c, periods)
		c2 := append([]float64{}, c...)
		scaled := false
		for k := range c2 {
			if isP[k] {
				c2[k] *= factor
				scaled = true
			}
		}
		if scaled {
			out = append(out, c2)
		}
	}
	return out
}

func largeFactors(thorough bool) []float64 {
	if thorough {
		return []float64{70, 150, 330}
	}
	return []float64{70}
}

func exploreLarge(c *core.Ctx, label string, sc explore.Scenario, cs map[string]any) {
	st := explore.DPOR(sc, explore.Opts{MaxExec: 40, Budget: 60 * time.Second})
	c.Executions += int64(st.Executions)
	c.Transitions += int64(st.Events)
	c.States++
	c.Evaluations++
	c.Nontrivial++
	if st.Internal != "" {
		c.InternalError(label + ": " + st.Internal)
		return
	}
	if !st.Exhaustive {
		c.Count("large-period scenarios where DPOR stopped at its cap of 40 traces (all explored traces are checked)", 1)
	}
	if len(st.Outcomes) > 1 {
		c.Fail("", fmt.Sprintf("%s: %d different outcomes depending on the schedule", label, len(st.Outcomes)), cs)
	}
	for _, v := range st.Violations {
		c.Fail("", fmt.Sprintf("%s (DPOR, schedule %v): %s", label, compact(v.Choices), v.Text), cs)
		break
	}
}

func indLargeUnit(c *core.Ctx, e *cat.Ind) {
	idle := func(cfg []float64) int { return e.New(cfg).Idle }
	for _, f := range largeFactors(c.Thorough()) {
		for _, cfg := range largeCfgs(e.Cfgs(false), e.Periods, f) {
			w := idle(cfg)
			for _, n := range []int{w + 3, 2*w + 2} {
				in := make([][]float64, len(e.In))
				rows := fixedRows(n)
				for fi := range e.In {
					col := make([]float64, n)
					for i := range col {
						if idxF, ok := fieldIdx[e.In[fi]]; ok {
							col[i] = rows[i][idxF]
						} else {
							col[i] = rows[i][3] + float64(fi)
						}
					}
					in[fi] = col
				}
				cs := map[string]any{"indicator": e.Name, "config": cfg, "input_length": n, "capacity": 0}
				exploreLarge(c, fmt.Sprintf("%s%s on %d values", e.Name, fmtCfg(cfg), n), indPipeScenario(e, cfg, in, 0), cs)
			}
		}
	}
}

func stratLargeUnit(c *core.Ctx, e *cat.Strat) {
	for _, f := range largeFactors(c.Thorough()) {
		for _, cfg := range largeCfgs(e.Cfgs(false), e.Periods, f) {
			cfg := cfg
			w := e.Warm(cfg)
			for _, n := range []int{w + 3, 2*w + 2} {
				snaps := cat.Snapshots(fixedRows(n))
				cs := map[string]any{"strategy": e.Name, "config": cfg, "snapshots": n, "capacity": 0}
				exploreLarge(c, fmt.Sprintf("%s%s on %d snapshots", e.Name, fmtCfg(cfg), n), stratPipeScenario(func() strategy.Strategy { return e.New(cfg) }, snaps, 0), cs)
			}
		}
	}
}
