package checks

import (
	"errors"
	"fmt"
	"math"
	"os"
	"path/filepath"
	"regexp"
	"sort"
	"strconv"
	"strings"
	"time"

	"verifharness/core"
	"verifharness/explore"

	"github.com/cinar/indicator/v2/asset"
	"github.com/cinar/indicator/v2/backtest"
	"github.com/cinar/indicator/v2/helper"
	"github.com/cinar/indicator/v2/strategy"
	"github.com/cinar/indicator/v2/verifmc/mc"
)

// scriptStrategy replays a word like stubStrategy and has a real Report.
type scriptStrategy struct {
	stubStrategy
	name string
}

func (s *scriptStrategy) Name() string { return s.name }
func (s *scriptStrategy) Report(c <-chan *asset.Snapshot) *helper.Report {
	snapshots := helper.Duplicate(c, 3)
	dates := asset.SnapshotsAsDates(snapshots[0])
	closings := asset.SnapshotsAsClosings(snapshots[1])
	actions, outcomes := strategy.ComputeWithOutcome(s, snapshots[2])
	annotations := strategy.ActionsToAnnotations(actions)
	report := helper.NewReport(s.Name(), dates)
	report.AddChart()
	report.AddColumn(helper.NewNumericReportColumn("Close", closings))
	report.AddColumn(helper.NewAnnotationReportColumn(annotations))
	report.AddColumn(helper.NewNumericReportColumn("Outcome", helper.MultiplyBy(outcomes, 100)), 1)
	return report
}

// recorder is a backtest.Report that records the protocol.
type recorder struct {
	// fail makes Write report an error for the chosen (asset, strategy) pairs - after it has consumed its streams, so that
	// the injected fault strands nobody; the backtest must go on with the remaining strategies and assets
	fail  func(asset, strategy string) bool
	calls []string
	res   map[string][]float64 // "asset/strategy" -> outcomes
	acts  map[string][]int
}

// The recorder is harness code running under the controlled scheduler (one goroutine at a
// time), so it needs no lock; a lock would only multiply the schedules to explore.
func (r *recorder) log(s string) {
	r.calls = append(r.calls, s)
}
func (r *recorder) Begin(names []string, _ []strategy.Strategy) error {
	r.log("begin")
	return nil
}
func (r *recorder) AssetBegin(name string, _ []strategy.Strategy) error {
	r.log("assetbegin " + name)
	return nil
}
func (r *recorder) Write(name string, s strategy.Strategy, sn <-chan *asset.Snapshot, actions <-chan strategy.Action, outcomes <-chan float64) error {
	mc.Go(func() { helper.Drain(sn) })
	var acts []int
	done := make(chan struct{})
	mc.Go(func() {
		for {
			a, ok := mc.Recv2(actions)
			if !ok {
				break
			}
			acts = append(acts, int(a))
		}
		mc.Close(done)
	})
	outs := drain(outcomes)
	mc.Recv2(done)
	r.calls = append(r.calls, "write "+name+"/"+s.Name())
	r.res[name+"/"+s.Name()] = outs
	r.acts[name+"/"+s.Name()] = acts
	if r.fail != nil && r.fail(name, s.Name()) {
		return errors.New("injected report failure")
	}
	return nil
}
func (r *recorder) AssetEnd(name string) error {
	r.log("assetend " + name)
	return nil
}
func (r *recorder) End() error {
	r.log("end")
	return nil
}

type btScen struct {
	NAssets   int
	Strats    int // index into strategy list variants
	Workers   int
	Report    string // recorder | data | html
	Explicit  bool
	Missing   int    // number of names that are not in the repository, listed first
	Mode      string // dpor | s0
	NoStrat   bool   // HTML: do not render the per-strategy reports (they are private to one worker and dominate the cost)
	FailWrite int    // recorder only: 1 = Write fails for the first strategy of the first asset, 2 = for every strategy of the first asset, 3 = for the first strategy of every asset
	NaNAsset  int    // 1 + index of the asset whose first close inside the window is NaN (0: none); the closes are then assigned to the assets in reverse order
	LastDays  int    // look-back in days (0: the scenarios' default of 5); values of 10 and more cover the whole repository
	Twice     bool   // Run is called twice on the same Backtest and report object; the second run is judged like the first
}

func (s btScen) String() string {
	return fmt.Sprintf("assets=%d unknown-names=%d strategies=#%d workers=%d report=%s explicit=%v mode=%s strategyReports=%v runs=%d lastDays=%d failingWrites=%d nanAsset=%d", s.NAssets, s.Missing, s.Strats, s.Workers, s.Report, s.Explicit, s.Mode, !s.NoStrat, map[bool]int{false: 1, true: 2}[s.Twice], max(s.LastDays, 5), s.FailWrite, s.NaNAsset)
}

func btStrategies(v int) []strategy.Strategy {
	stub := func() strategy.Strategy {
		return &scriptStrategy{stubStrategy{word: []strategy.Action{strategy.Hold, strategy.Buy, strategy.Hold, strategy.Hold}}, "late buyer"}
	}
	switch v {
	case 0:
		return []strategy.Strategy{strategy.NewBuyAndHoldStrategy()}
	case 1:
		return []strategy.Strategy{stub(), strategy.NewBuyAndHoldStrategy()}
	default:
		return []strategy.Strategy{strategy.NewBuyAndHoldStrategy(), stub()}
	}
}

// btCloses: per asset, closes for the snapshots inside the look-back window;
// outcomes of the strategies differ by less than one percentage point on purpose.
var btCloses = [][]float64{
	{100, 100.4, 100.9},
	{100, 100.2, 101.5},
	{50, 50.3, 50.35},
}

var outcomeRe = regexp.MustCompile(`(-?[0-9]+\.[0-9][0-9]|NaN)%`)

func btScenario(s btScen) explore.Scenario {
	return func() explore.Exec {
		var viol string
		var outcome string
		returned := false
		var dir string
		body := func() {
			repo := asset.NewInMemoryRepository()
			today := time.Now().UTC().Truncate(24 * time.Hour)
			var names []string
			expected := map[string][]float64{}
			expActs := map[string][]int{}
			for i := 0; i < s.NAssets; i++ {
				name := assetName(i)
				names = append(names, name)
				var all, window []*asset.Snapshot
				// two snapshots well outside the 5-day window, then the window
				for k, c := range []float64{10, 20} {
					all = append(all, &asset.Snapshot{Date: today.AddDate(0, 0, -9+k), Open: c, High: c, Low: c, Close: c, Volume: 1})
				}
				closes := btCloses[i]
				if s.NaNAsset > 0 {
					closes = append([]float64{}, btCloses[s.NAssets-1-i]...)
					if i == s.NaNAsset-1 {
						closes[0] = math.NaN()
					}
				}
				for k, c := range closes {
					sn := &asset.Snapshot{Date: today.AddDate(0, 0, -3+k), Open: c, High: c, Low: c, Close: c, Volume: 1}
					all = append(all, sn)
					window = append(window, sn)
				}
				if s.LastDays >= 10 {
					window = all // "whole history" look-backs: every snapshot of the repository is inside the window
				}
				repo.Append(name, Feed(all, 0))
				for _, st := range btStrategies(s.Strats) {
					a, o := strategy.ComputeWithOutcome(st, Feed(window, 0))
					var av []int
					adone := make(chan struct{})
					mc.Go(func() {
						for _, x := range drain(a) {
							av = append(av, int(x))
						}
						mc.Close(adone)
					})
					expected[name+"/"+st.Name()] = drain(o)
					mc.Recv2(adone)
					expActs[name+"/"+st.Name()] = av
				}
			}
			var rep backtest.Report
			rec := &recorder{res: map[string][]float64{}, acts: map[string][]int{}}
			if s.FailWrite > 0 {
				firstStrat := btStrategies(s.Strats)[0].Name()
				fw := s.FailWrite
				rec.fail = func(a, st string) bool {
					switch fw {
					case 1:
						return a == assetName(0) && st == firstStrat
					case 2:
						return a == assetName(0)
					}
					return st == firstStrat
				}
			}
			var data *backtest.DataReport
			switch s.Report {
			case "recorder":
				rep = rec
			case "data":
				data = backtest.NewDataReport()
				rep = data
			case "html":
				dir = mustTempDir("c13")
				h := backtest.NewHTMLReport(dir)
				h.Logger = quietLogger
				h.WriteStrategyReports = !s.NoStrat
				rep = h
			}
			bt := backtest.NewBacktest(repo, rep)
			bt.Workers, bt.LastDays, bt.Logger = s.Workers, 5, quietLogger
			if s.LastDays > 0 {
				bt.LastDays = s.LastDays
			}
			bt.Strategies = btStrategies(s.Strats)
			if s.Explicit {
				// names the repository does not know come first: they must be skipped, not stop a worker
				for i := 0; i < s.Missing; i++ {
					bt.Names = append(bt.Names, fmt.Sprintf("unknown-%d", i))
				}
				bt.Names = append(bt.Names, names...)
			} else {
				// the in-memory repository lists a map: fix the order for determinism without naming the assets ourselves
				got, _ := repo.Assets()
				sort.Strings(got)
				bt.Names = got
			}
			runs := 1
			if s.Twice {
				runs = 2
			}
			for pass := 1; pass <= runs; pass++ {
				if pass == 2 {
					if viol != "" {
						return
					}
					// the same Backtest and the same report object run again (a scheduled re-run): every run stands on its own
					rec.res, rec.acts, rec.calls = map[string][]float64{}, map[string][]int{}, nil
					returned = false
					outcome += " | second run: "
				}
				err := bt.Run()
				returned = true
				if err != nil {
					viol = "Run returned " + err.Error()
					return
				}
				pairs := len(names) * len(bt.Strategies)
				last := func(xs []float64) float64 {
					if len(xs) == 0 {
						return 0
					}
					return xs[len(xs)-1]
				}
				switch s.Report {
				case "recorder":
					outcome += fmt.Sprint(rec.res, rec.acts)
					viol = checkProtocol(rec.calls, names, bt.Strategies)
					if viol == "" && len(rec.res) != pairs {
						viol = fmt.Sprintf("%d results delivered for %d (asset, strategy) pairs", len(rec.res), pairs)
					}
					for k, want := range expected {
						if viol == "" && !eqF(rec.res[k], want) {
							viol = fmt.Sprintf("outcomes for %s = %v, direct evaluation on the window gives %v", k, rec.res[k], want)
						}
						if viol == "" && fmt.Sprint(rec.acts[k]) != fmt.Sprint(expActs[k]) {
							viol = fmt.Sprintf("actions for %s = %v, direct evaluation on the window gives %v", k, rec.acts[k], expActs[k])
						}
					}
				case "data":
					var keys []string
					n := 0
					for a, rs := range data.Results {
						for i, r := range rs {
							n++
							k := a + "/" + r.Strategy.Name()
							keys = append(keys, fmt.Sprintf("%s=%v/%d", k, r.Outcome, r.Action))
							if i < len(bt.Strategies) && r.Strategy != bt.Strategies[i] && viol == "" {
								viol = fmt.Sprintf("results of %s are not in strategy order", a)
							}
							if want, ok := expected[k]; !ok {
								viol = "result for unknown pair " + k
							} else if !bitsEq(r.Outcome, last(want)) && viol == "" {
								viol = fmt.Sprintf("DataReport outcome for %s = %v, direct evaluation gives %v", k, r.Outcome, last(want))
							} else if viol == "" && fmt.Sprint(toInts(r.Transactions)) != fmt.Sprint(expActs[k]) {
								viol = fmt.Sprintf("DataReport transactions for %s = %v, direct evaluation gives %v", k, r.Transactions, expActs[k])
							}
						}
					}
					sort.Strings(keys)
					outcome += strings.Join(keys, " ")
					if viol == "" && n != pairs {
						viol = fmt.Sprintf("DataReport holds %d results for %d (asset, strategy) pairs", n, pairs)
					}
				case "html":
					var parts []string
					for _, name := range names {
						b, err := os.ReadFile(filepath.Join(dir, name+".html"))
						if err != nil {
							viol = "asset report missing: " + err.Error()
							return
						}
						vals := parseOutcomes(string(b))
						parts = append(parts, fmt.Sprintf("%s:%v", name, sortedCopy(vals)))
						if len(vals) != len(bt.Strategies) && viol == "" {
							viol = fmt.Sprintf("asset report of %s lists %d results for %d strategies", name, len(vals), len(bt.Strategies))
						}
						var want []float64
						for _, st := range bt.Strategies {
							want = append(want, round2(last(expected[name+"/"+st.Name()])*100))
						}
						if viol == "" && fmt.Sprint(sortedCopy(vals)) != fmt.Sprint(sortedCopy(want)) {
							viol = fmt.Sprintf("asset report of %s shows outcomes %v, direct evaluation gives %v", name, vals, want)
						}
						if viol == "" && !nonIncreasing(vals) {
							viol = fmt.Sprintf("ranking in the report of asset %s is not in non-increasing outcome order: %v", name, vals)
							outcome += "KEY:ranking"
						}
					}
					b, err := os.ReadFile(filepath.Join(dir, "index.html"))
					if err != nil {
						viol = "index.html missing: " + err.Error()
						return
					}
					vals := parseOutcomes(string(b))
					parts = append(parts, fmt.Sprintf("index:%v", sortedCopy(vals)))
					if viol == "" && len(vals) != len(names) {
						viol = fmt.Sprintf("index lists %d best results for %d assets", len(vals), len(names))
					}
					if viol == "" && !nonIncreasing(vals) {
						viol = fmt.Sprintf("overall ranking (index.html) is not in non-increasing outcome order: %v", vals)
						outcome += "KEY:ranking"
					}
					outcome += strings.Join(parts, " ")
				}
				if pass == 2 && viol != "" {
					viol = "second Run on the same Backtest and report: " + viol
				}
			}
		}
		observe := func(res *mc.Result) (string, string) {
			switch {
			case len(res.Panics) > 0:
				return outcome + " PANIC", "panic: " + res.Panics[0].Value + " " + res.Panics[0].Stack
			case !returned || res.Deadlock:
				return outcome + " HANG", fmt.Sprintf("Backtest.Run did not return or left goroutines blocked (%d: %s)", len(res.Blocked), blockedDesc(res))
			}
			return outcome, viol
		}
		return explore.Exec{Body: body, Observe: observe, Cleanup: func() {
			if dir != "" {
				os.RemoveAll(dir)
			}
		}}
	}
}

func toInts(a []strategy.Action) []int {
	var o []int
	for _, x := range a {
		o = append(o, int(x))
	}
	return o
}

func round2(x float64) float64 {
	v, _ := strconv.ParseFloat(fmt.Sprintf("%.2f", x), 64)
	return v
}

func parseOutcomes(html string) []float64 {
	var out []float64
	for _, m := range outcomeRe.FindAllStringSubmatch(html, -1) {
		v, _ := strconv.ParseFloat(m[1], 64)
		out = append(out, v)
	}
	return out
}

func sortedCopy(xs []float64) []float64 {
	c := append([]float64{}, xs...)
	sort.Float64s(c)
	return c
}

// nonIncreasing judges the ranking of the results that have an order at all: a NaN outcome (an asset or strategy that
// traded on a day without a quote) may stand anywhere, the finite outcomes among themselves must not increase.
func nonIncreasing(xs []float64) bool {
	prev := math.Inf(1)
	for _, x := range xs {
		if math.IsNaN(x) {
			continue
		}
		if x > prev {
			return false
		}
		prev = x
	}
	return true
}

// checkProtocol validates the notification order.
func checkProtocol(calls []string, names []string, strats []strategy.Strategy) string {
	if len(calls) == 0 || calls[0] != "begin" {
		return fmt.Sprintf("first notification is not Begin: %v", calls)
	}
	if calls[len(calls)-1] != "end" {
		return fmt.Sprintf("last notification is not End: %v", calls)
	}
	state := map[string]int{} // asset -> number of writes, -1 = not begun, 100 = ended
	for _, n := range names {
		state[n] = -1
	}
	for i, c := range calls[1 : len(calls)-1] {
		f := strings.SplitN(c, " ", 2)
		if len(f) != 2 {
			return fmt.Sprintf("notification %d %q between Begin and End", i+1, c)
		}
		switch f[0] {
		case "assetbegin":
			if st, ok := state[f[1]]; !ok || st != -1 {
				return fmt.Sprintf("AssetBegin(%s) out of order: %v", f[1], calls)
			}
			state[f[1]] = 0
		case "write":
			p := strings.SplitN(f[1], "/", 2)
			st, ok := state[p[0]]
			if !ok || st < 0 || st >= len(strats) {
				return fmt.Sprintf("Write(%s) out of order: %v", f[1], calls)
			}
			if strats[st].Name() != p[1] {
				return fmt.Sprintf("Write(%s) not in strategy order: %v", f[1], calls)
			}
			state[p[0]] = st + 1
		case "assetend":
			if state[f[1]] != len(strats) {
				return fmt.Sprintf("AssetEnd(%s) after %d of %d writes: %v", f[1], state[f[1]], len(strats), calls)
			}
			state[f[1]] = 100
		}
	}
	for n, st := range state {
		if st != 100 {
			return fmt.Sprintf("asset %s was not completed (state %d): %v", n, st, calls)
		}
	}
	return ""
}

func btScens(tier string) []btScen {
	var out []btScen
	th := tier == "thorough"
	for _, rep := range []string{"recorder", "data", "html"} {
		for na := 1; na <= 3; na++ {
			for sv := 0; sv < 3; sv++ {
				for _, w := range []int{1, 2, 3} {
					sc := btScen{NAssets: na, Strats: sv, Workers: w, Report: rep, Explicit: true, Mode: "dpor"}
					if rep == "html" {
						// rendering makes every execution ~50x more expensive and the report mutex multiplies the
						// lock orders: all schedules for the small pools, canonical schedule beyond (thorough: more)
						sc.NoStrat = na > 1
						if (na > 2 || w > 2 || (na == 2 && sv > 0)) && !(th && sv < 2) {
							sc.Mode, sc.NoStrat = "s0", false
						}
					} else if na == 3 && (w == 3 || sv == 2 || (w == 2 && sv == 1)) && !th {
						sc.Mode = "s0"
					}
					out = append(out, sc)
				}
				for _, w := range []int{4, 8, 16} {
					out = append(out, btScen{NAssets: na, Strats: sv, Workers: w, Report: rep, Explicit: sv == 1, Mode: "s0"})
				}
				// as many unknown names as workers (and one more), listed before the real assets
				if rep != "html" && sv < 2 {
					for _, w := range []int{1, 2} {
						for _, miss := range []int{w, w + 1} {
							mode := "dpor"
							if na == 3 && !th {
								mode = "s0"
							}
							out = append(out, btScen{NAssets: na, Missing: miss, Strats: sv, Workers: w, Report: rep, Explicit: true, Mode: mode})
						}
					}
				}
			}
		}
	}
	// a report whose Write fails for some pairs (an unwritable file, a full disk): every other pair is still delivered, in
	// order, and every asset is ended
	for fw := 1; fw <= 3; fw++ {
		for _, sv := range []int{1, 2} {
			out = append(out, btScen{NAssets: 2, Strats: sv, Workers: 1, Report: "recorder", Explicit: true, Mode: "s0", FailWrite: fw})
			out = append(out, btScen{NAssets: 2, Strats: sv, Workers: 2, Report: "recorder", Explicit: true, Mode: "dpor", FailWrite: fw})
		}
	}
	// an asset without a quote on the first day of the window: buy-and-hold ends with a NaN outcome; the rankings keep
	// the finite results in order
	for na := 1; na <= 3; na++ {
		for sv := 0; sv <= 1; sv++ {
			out = append(out, btScen{NAssets: 3, Strats: sv, Workers: 1, Report: "html", Explicit: true, Mode: "s0", NoStrat: true, NaNAsset: na})
		}
		out = append(out, btScen{NAssets: 3, Strats: 0, Workers: 1, Report: "data", Explicit: true, Mode: "s0", NaNAsset: na})
	}
	// look-backs from two weeks to "everything" (the command line tool's -last flag): whatever the number of days, the window
	// is the calendar interval [now - days, now]
	for _, days := range []int{14, 3650, 106751, 106752, 200000, 1000000, 50000000} {
		for _, rep := range []string{"recorder", "data"} {
			out = append(out, btScen{NAssets: 2, Strats: 1, Workers: 2, Report: rep, Explicit: true, Mode: "s0", LastDays: days})
		}
	}
	// a second Run on the same Backtest / report object (canonical schedule; the first run's schedules are covered above)
	for _, rep := range []string{"recorder", "data", "html"} {
		for na := 1; na <= 3; na++ {
			for _, w := range []int{1, 2} {
				mode := "s0"
				if na == 1 && w == 2 && rep != "html" {
					mode = "dpor"
				}
				out = append(out, btScen{NAssets: na, Strats: 1, Workers: w, Report: rep, Explicit: true, Mode: mode, Twice: true, NoStrat: true})
			}
		}
	}
	return out
}

func btUnit(c *core.Ctx, scens []btScen) {
	for i, s := range scens {
		if os.Getenv("VERIF_DEBUG") != "" {
			fmt.Fprintln(os.Stderr, time.Now().Format("15:04:05"), "start", s)
		}
		sc := btScenario(s)
		var st *explore.Stats
		mode := "DPOR"
		if s.Mode == "s0" {
			st = explore.S0(sc, explore.Opts{Races: true})
			mode = "canonical schedule"
		} else {
			maxExec, budget := 4000, 60*time.Second
			if c.Thorough() {
				maxExec, budget = 30000, 10*time.Minute
			}
			st = explore.DPOR(sc, explore.Opts{Races: true, MaxExec: maxExec, Budget: budget})
		}
		c.States++
		c.Evaluations++
		c.Executions += int64(st.Executions)
		c.Transitions += int64(st.Events)
		if st.Executions > 1 {
			c.Nontrivial++
		}
		c.Count("traces ("+mode+")", int64(st.Executions))
		if st.Internal != "" {
			c.InternalError(st.Internal)
		}
		if !st.Exhaustive {
			c.NotExhaustive("DPOR cap on some scenarios: " + st.CapHit)
			c.SetAdd("cut", s.String())
		}
		cs := map[string]any{"scenario": s.String()}
		plain := map[string]bool{}
		for o := range st.Outcomes {
			plain[strings.ReplaceAll(o, "KEY:ranking", "")] = true
			c.SetAdd("outcomes", o)
		}
		if len(plain) > 1 {
			c.Fail("", fmt.Sprintf("Backtest %s: %d different result sets depending on the schedule", s, len(plain)), cs)
		}
		for _, v := range st.Violations {
			key := ""
			if strings.Contains(v.Outcome, "KEY:ranking") {
				key = "html-ranking-comparator-truncates"
			}
			c.Fail(key, fmt.Sprintf("Backtest %s (schedule %v): %s", s, compact(v.Choices), v.Text), map[string]any{"scenario": s.String(), "choices": compact(v.Choices)})
			break
		}
		for pair := range st.RacePairs {
			c.Fail(raceKey(pair), fmt.Sprintf("Backtest %s: data race between %s", s, pair), cs)
		}
		if i == 2 {
			c.Sample(map[string]any{"scenario": s.String(), "traces": st.Executions, "first_events": st.SampleTrace})
		}
	}
}

func init() {
	core.Register(&core.Check{
		ID:     "C13",
		Rule:   "scenarios = 1..3 assets (snapshots inside and outside the 5-day look-back window; outcomes less than one percentage point apart on purpose) x 3 strategy lists (BuyAndHold, scripted stub, both orders) x workers {1,2,3} explored by DPOR with sleep sets over all Mazurkiewicz traces of the real worker pool, workers {4,8,16} under the canonical schedule, x 3 reports (recording, DataReport, HTMLReport rendered and parsed); oracle per execution: Run returns, protocol order, one result per pair equal to direct ComputeWithOutcome on the window, same result set for every schedule, rankings non-increasing, no happens-before race; states = scenarios, non-trivial = scenarios with more than one trace",
		Assume: []string{"in-memory repository; dates are at least one day away from the look-back bound (time.Now is not controlled)", "HTML outcomes are compared at the two decimals the template prints"},
		Units: func(tier string) []core.Unit {
			sc := btScens(tier)
			var us []core.Unit
			for i := 0; i < len(sc); i += 2 {
				j := min(i+2, len(sc))
				part := sc[i:j]
				cost := 0
				for _, s := range part {
					w := min(s.Workers, 4)
					k := s.NAssets * s.NAssets * w * w * (1 + s.Strats)
					if s.Mode == "s0" {
						k = 1
					} else if s.Report == "html" {
						k *= 20
					}
					cost += k
				}
				us = append(us, core.Unit{Key: fmt.Sprintf("backtest-%03d", i), Cost: cost, Run: func(c *core.Ctx) { btUnit(c, part) }})
			}
			return us
		},
	})
}

// DebugBacktest prints exploration statistics for a few scenarios (development aid).
func DebugBacktest() {
	for _, s := range []btScen{
		{NAssets: 2, Strats: 1, Workers: 2, Report: "html", Explicit: true, NoStrat: true},
		{NAssets: 2, Strats: 2, Workers: 2, Report: "data", Explicit: true},
		{NAssets: 3, Strats: 1, Workers: 2, Report: "data", Explicit: true},
	} {
		t0 := time.Now()
		st := explore.DPOR(btScenario(s), explore.Opts{Races: true, MaxExec: 3000, MaxEvents: 200000})
		fmt.Println(s, "=>", st.Describe(), "maxEvents", st.MaxEvents, time.Since(t0))
		for _, v := range st.Violations {
			fmt.Println("   viol:", v.Text)
			break
		}
		for p, n := range st.RacePairs {
			fmt.Println("   race", p, n)
		}
	}
}
