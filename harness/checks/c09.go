package checks

import (
	"bytes"
	"fmt"
	"io"
	"strings"
	"time"

	"verifharness/cat"
	"verifharness/core"
	"verifharness/explore"

	"github.com/cinar/indicator/v2/asset"
	"github.com/cinar/indicator/v2/strategy"
	"github.com/cinar/indicator/v2/verifmc/mc"
)

func indInput(e *cat.Ind, n int, variant int) [][]float64 {
	rows := fixedRows(n + variant)
	rows = rows[variant:]
	in := make([][]float64, len(e.In))
	for f := range e.In {
		col := make([]float64, n)
		for i := range col {
			if idxF, ok := fieldIdx[e.In[f]]; ok {
				col[i] = rows[i][idxF]
			} else {
				col[i] = rows[i][3] + float64(f) + float64(variant)
			}
		}
		in[f] = col
	}
	return in
}

func outsKey(o [][]float64) string {
	s := ""
	for _, x := range o {
		s += fmtF(x) + ";"
	}
	return s
}

// c09IndUnit: sequential reuse and concurrent use of one indicator instance.
func c09IndUnit(c *core.Ctx, e *cat.Ind, cfg []float64) {
	w := e.New(cfg).Idle
	label := e.Name + fmtCfg(cfg)
	lengths := []int{0, w, w + 2, 2*w + 1, w + 1}
	fresh := map[int]string{}
	freshOuts := map[int][][]float64{}
	for i, n := range lengths {
		r := RunInd(e.New(cfg), indInput(e, n, i), 0, mc.Options{})
		c.Executions++
		if !r.Healthy() {
			c.Count("fresh runs not reaching clean quiescence (left to C03)", 1)
			return
		}
		fresh[i] = outsKey(r.Outs)
		freshOuts[i] = r.Outs
	}
	// (i) sequential reuse: every ordered pair and a few triples of calls on ONE instance
	var seqs [][]int
	for a := 0; a < 4; a++ {
		for b := 0; b < 4; b++ {
			seqs = append(seqs, []int{a, b})
		}
	}
	seqs = append(seqs, []int{3, 0, 3}, []int{2, 3, 1}, []int{1, 1, 1}, []int{3, 2, 3})
	for _, sq := range seqs {
		inst := e.New(cfg)
		d0 := core.Dump(inst.Obj)
		for step, li := range sq {
			r := RunInd(inst, indInput(e, lengths[li], li), 0, mc.Options{})
			c.Executions++
			c.Transitions += int64(r.Res.Events)
			cs := map[string]any{"indicator": e.Name, "config": cfg, "call_lengths": sq, "failing_call": step}
			if !r.Healthy() {
				c.Fail("", fmt.Sprintf("%s: call %d of the sequence (input lengths %v) on a reused instance did not terminate cleanly: %s", label, step+1, seqLens(sq, lengths), r.Problem()), cs)
				break
			}
			if outsKey(r.Outs) != fresh[li] {
				c.Fail("", fmt.Sprintf("%s: call %d on a reused instance (sequence of input lengths %v) returned %s, a fresh instance returns %s", label, step+1, seqLens(sq, lengths), outsKey(r.Outs), fresh[li]), cs)
				break
			}
			if d := core.Dump(inst.Obj); d != d0 {
				c.Fail("", fmt.Sprintf("%s: Compute changed the receiver: %s -> %s", label, d0, d), cs)
				break
			}
		}
		c.States++
		c.Evaluations++
	}
	// (ii) two concurrent Compute calls on one instance with different inputs
	// the last pair (two short inputs) is the one searched without independence assumptions
	pairs := [][2]int{{2, 3}, {3, 3}, {1, 3}, {4, 1}}
	for pi, p := range pairs {
		sc := func() explore.Exec {
			var inst *cat.Inst
			var sinks [2][]*Sink[float64]
			d0 := ""
			changed := ""
			body := func() {
				inst = e.New(cfg)
				d0 = core.Dump(inst.Obj)
				for k := 0; k < 2; k++ {
					k := k
					in := indInput(e, lengths[p[k]], p[k])
					mc.Go(func() {
						chans := make([]cat.Ch, len(in))
						for i := range in {
							chans[i] = Feed(in[i], 0)
						}
						for _, o := range inst.Compute(chans) {
							sinks[k] = append(sinks[k], Collect(o))
						}
					})
				}
			}
			observe := func(res *mc.Result) (string, string) {
				out := ""
				viol := changed
				for k := 0; k < 2; k++ {
					var o [][]float64
					for _, s := range sinks[k] {
						o = append(o, s.Vals)
					}
					out += outsKey(o) + "|"
					if viol == "" && outsKey(o) != fresh[p[k]] {
						viol = fmt.Sprintf("concurrent call %d returned %s, a fresh instance returns %s", k+1, outsKey(o), fresh[p[k]])
					}
				}
				if viol == "" {
					viol = quiescenceVerdict(res, func() (int, int) { return 0, 1 })
				}
				return out, viol
			}
			onPoint := func(s *mc.Sched) {
				if changed == "" && inst != nil {
					if d := core.Dump(inst.Obj); d != d0 {
						changed = fmt.Sprintf("the receiver changed during Compute: %s -> %s", d0, d)
					}
				}
			}
			return explore.Exec{Body: body, Observe: observe, OnPoint: onPoint}
		}
		cs := map[string]any{"indicator": e.Name, "config": cfg, "concurrent_input_lengths": []int{lengths[p[0]], lengths[p[1]]}}
		report := func(st *explore.Stats, mode string) {
			c.Executions += int64(st.Executions)
			c.Transitions += int64(st.Events)
			if st.Internal != "" {
				c.InternalError(label + ": " + st.Internal)
			}
			if !st.Exhaustive {
				if mode == "DPOR" {
					c.NotExhaustive(mode + " cap on some scenarios: " + st.CapHit)
				} else {
					// the auxiliary search is a prefix (in DFS order) of the one-deviation space; the deciding exploration is DPOR
					c.Count("auxiliary delay-bounded searches cut at 400 executions", 1)
				}
			}
			if len(st.Outcomes) > 1 {
				c.Fail("", fmt.Sprintf("%s: two concurrent Compute calls on one instance give %d different results depending on the schedule (%s)", label, len(st.Outcomes), mode), cs)
			}
			for _, v := range st.Violations {
				c.Fail("", fmt.Sprintf("%s, two concurrent Compute calls on one instance (%s, schedule %v): %s", label, mode, compact(v.Choices), v.Text), cs)
				break
			}
			for pair := range st.RacePairs {
				c.Fail(raceKey(pair), fmt.Sprintf("%s, two concurrent Compute calls on one instance: data race between %s", label, pair), cs)
			}
		}
		report(explore.DPOR(sc, explore.Opts{Races: true, MaxExec: 500, Budget: 20 * time.Second}), "DPOR")
		if pi == len(pairs)-1 {
			report(explore.DelayBounded(sc, 1, explore.Opts{Races: true, MaxExec: 400, Budget: 20 * time.Second}), "delay-bounded d<=1")
		}
		c.States++
		c.Evaluations++
		c.Nontrivial++
		if pi == 0 && len(c.Samples) < 2 {
			c.Sample(cs)
		}
	}
}

func seqLens(sq []int, lengths []int) []int {
	o := make([]int, len(sq))
	for i, x := range sq {
		o[i] = lengths[x]
	}
	return o
}

// c09StratUnit: the same for strategies (Compute and Report on one instance).
func c09StratUnit(c *core.Ctx, e *cat.Strat, cfg []float64) {
	w := e.Warm(cfg)
	label := e.Name + fmtCfg(cfg)
	lengths := []int{0, w, w + 2, 2*w + 1, w + 1}
	snapsOf := func(li int) []*asset.Snapshot {
		rows := fixedRows(lengths[li] + li)
		return cat.Snapshots(rows[li:])
	}
	fresh := map[int]string{}
	for i := range lengths {
		r := RunStrategy(e.New(cfg), snapsOf(i), 0, mc.Options{})
		c.Executions++
		if !r.Healthy() {
			c.Count("fresh runs not reaching clean quiescence (left to C03)", 1)
			return
		}
		fresh[i] = fmt.Sprint(r.Actions)
	}
	var seqs [][]int
	for a := 0; a < 4; a++ {
		for b := 0; b < 4; b++ {
			seqs = append(seqs, []int{a, b})
		}
	}
	seqs = append(seqs, []int{3, 0, 3}, []int{2, 3, 1})
	for _, sq := range seqs {
		inst := e.New(cfg)
		d0 := core.Dump(inst)
		for step, li := range sq {
			r := RunStrategy(inst, snapsOf(li), 0, mc.Options{})
			c.Executions++
			c.Transitions += int64(r.Res.Events)
			cs := map[string]any{"strategy": e.Name, "config": cfg, "call_lengths": seqLens(sq, lengths), "failing_call": step}
			if !r.Healthy() {
				c.Fail("", fmt.Sprintf("%s: call %d on a reused instance (snapshot counts %v) did not terminate cleanly", label, step+1, seqLens(sq, lengths)), cs)
				break
			}
			if fmt.Sprint(r.Actions) != fresh[li] {
				c.Fail("", fmt.Sprintf("%s: call %d on a reused instance (snapshot counts %v) returned %v, a fresh instance returns %s", label, step+1, seqLens(sq, lengths), r.Actions, fresh[li]), cs)
				break
			}
			if d := core.Dump(inst); d != d0 {
				c.Fail("", fmt.Sprintf("%s: Compute changed the receiver: %s -> %s", label, d0, d), cs)
				break
			}
		}
		c.States++
		c.Evaluations++
	}
	// Report and Compute interleaved on ONE instance: Compute, rendered Report, Compute again
	{
		inst := e.New(cfg)
		d0 := core.Dump(inst)
		for step, kind := range []string{"compute", "report", "compute", "report"} {
			li := 2 + step%2
			sn := snapsOf(li)
			cs := map[string]any{"strategy": e.Name, "config": cfg, "sequence": "compute, report, compute, report", "failing_call": step}
			if kind == "compute" {
				r := RunStrategy(inst, sn, 0, mc.Options{})
				c.Executions++
				c.Transitions += int64(r.Res.Events)
				if !r.Healthy() || fmt.Sprint(r.Actions) != fresh[li] {
					c.Fail("", fmt.Sprintf("%s: Compute after a Report on the same instance returned %v, a fresh instance returns %s", label, r.Actions, fresh[li]), cs)
					break
				}
			} else {
				render := func(s strategy.Strategy) (string, *mc.Result) {
					var buf bytes.Buffer
					res := mc.Run(func() {
						rep := s.Report(Feed(sn, 0))
						rep.GeneratedOn = ""
						rep.WriteToWriter(&buf)
					}, mc.Options{})
					return buf.String(), res
				}
				got, res := render(inst)
				want, _ := render(e.New(cfg))
				c.Executions += 2
				c.Transitions += int64(res.Events)
				if len(res.Panics) > 0 {
					c.Fail("", fmt.Sprintf("%s: Report on a reused instance panics: %s", label, res.Panics[0].Value), cs)
					break
				}
				if got != want {
					c.Fail("", fmt.Sprintf("%s: the report rendered from a reused instance differs from the one of a fresh instance", label), cs)
					break
				}
			}
			if d := core.Dump(inst); d != d0 {
				c.Fail("", fmt.Sprintf("%s: %s changed the receiver: %s -> %s", label, kind, d0, d), cs)
				break
			}
		}
		c.States++
		c.Evaluations++
	}
	// Inputs are shared objects: the backtester hands the SAME snapshot pointers to every strategy of an
	// asset and to the report, every Report runs Compute next to its own column branches over one Duplicate,
	// and InMemoryRepository.Get serves the stored pointers on every call. A Compute or Report that writes to
	// the snapshots it receives makes every later (or concurrent) call on those objects differ from a call of a
	// fresh instance on the pristine values, and races with the sibling readers. The series below uses all
	// seven bars (including the zero-volume and zero-range ones, where guards and clamps sit).
	{
		n := 2*w + 4
		rows := make([][5]float64, n)
		for i := range rows {
			rows[i] = sigmaBars[(i*5+i/2)%len(sigmaBars)]
		}
		snaps := cat.Snapshots(rows)
		pristine := core.Dump(snaps)
		cs := map[string]any{"strategy": e.Name, "config": cfg, "bars_OHLCV": rows}
		races := func(res *mc.Result, what string) {
			for _, rc := range res.Races {
				a, b := rc.Site1, rc.Site2
				if a > b {
					a, b = b, a
				}
				c.Fail(raceKey(a+" <> "+b), fmt.Sprintf("%s, %s on a series with zero-volume and zero-range bars: data race between %s <> %s", label, what, a, b), cs)
			}
		}
		r := RunStrategy(e.New(cfg), snaps, 0, mc.Options{Races: true})
		c.Executions++
		c.Transitions += int64(r.Res.Events)
		races(r.Res, "Compute")
		if d := core.Dump(snaps); d != pristine {
			c.Fail("", fmt.Sprintf("%s: Compute modified the snapshots it was given (they are shared with every other consumer of the same series, whose results then depend on the order of the calls)", label), cs)
		} else {
			res := mc.Run(func() {
				rep := e.New(cfg).Report(Feed(snaps, 0))
				rep.GeneratedOn = ""
				rep.WriteToWriter(io.Discard)
			}, mc.Options{Races: true})
			c.Executions++
			c.Transitions += int64(res.Events)
			races(res, "Report")
			if d := core.Dump(snaps); d != pristine {
				c.Fail("", fmt.Sprintf("%s: Report modified the snapshots it was given (they are shared with every other consumer of the same series)", label), cs)
			}
		}
		c.States++
		c.Evaluations++
		c.Nontrivial++
	}
	// concurrent: two Compute calls on one instance
	spairs := [][2]int{{2, 3}, {3, 3}, {4, 1}}
	for pi, p := range spairs {
		sc := func() explore.Exec {
			var inst strategy.Strategy
			var sinks [2]*Sink[strategy.Action]
			d0, changed := "", ""
			body := func() {
				inst = e.New(cfg)
				d0 = core.Dump(inst)
				for k := 0; k < 2; k++ {
					k := k
					sn := snapsOf(p[k])
					mc.Go(func() { sinks[k] = Collect(inst.Compute(Feed(sn, 0))) })
				}
			}
			observe := func(res *mc.Result) (string, string) {
				out, viol := "", changed
				for k := 0; k < 2; k++ {
					var a []int
					if sinks[k] != nil {
						for _, x := range sinks[k].Vals {
							a = append(a, int(x))
						}
					}
					out += fmt.Sprint(a) + "|"
					if viol == "" && fmt.Sprint(a) != fresh[p[k]] {
						viol = fmt.Sprintf("concurrent call %d returned %v, a fresh instance returns %s", k+1, a, fresh[p[k]])
					}
				}
				if viol == "" {
					viol = quiescenceVerdict(res, func() (int, int) { return 0, 1 })
				}
				return out, viol
			}
			onPoint := func(s *mc.Sched) {
				if changed == "" && inst != nil {
					if d := core.Dump(inst); d != d0 {
						changed = fmt.Sprintf("the receiver changed during Compute: %s -> %s", d0, d)
					}
				}
			}
			return explore.Exec{Body: body, Observe: observe, OnPoint: onPoint}
		}
		cs := map[string]any{"strategy": e.Name, "config": cfg, "concurrent_snapshot_counts": []int{lengths[p[0]], lengths[p[1]]}}
		report := func(st *explore.Stats, mode string) {
			c.Executions += int64(st.Executions)
			c.Transitions += int64(st.Events)
			if st.Internal != "" {
				c.InternalError(label + ": " + st.Internal)
			}
			if !st.Exhaustive {
				if mode == "DPOR" {
					c.NotExhaustive(mode + " cap on some scenarios: " + st.CapHit)
				} else {
					// the auxiliary search is a prefix (in DFS order) of the one-deviation space; the deciding exploration is DPOR
					c.Count("auxiliary delay-bounded searches cut at 400 executions", 1)
				}
			}
			if len(st.Outcomes) > 1 {
				c.Fail("", fmt.Sprintf("%s: two concurrent Compute calls on one instance give %d different results depending on the schedule (%s)", label, len(st.Outcomes), mode), cs)
			}
			for _, v := range st.Violations {
				c.Fail("", fmt.Sprintf("%s, two concurrent Compute calls on one instance (%s, schedule %v): %s", label, mode, compact(v.Choices), v.Text), cs)
				break
			}
			for pair := range st.RacePairs {
				c.Fail(raceKey(pair), fmt.Sprintf("%s, two concurrent Compute calls on one instance: data race between %s", label, pair), cs)
			}
		}
		report(explore.DPOR(sc, explore.Opts{Races: true, MaxExec: 500, Budget: 20 * time.Second}), "DPOR")
		if pi == len(spairs)-1 {
			report(explore.DelayBounded(sc, 1, explore.Opts{Races: true, MaxExec: 400, Budget: 20 * time.Second}), "delay-bounded d<=1")
		}
		c.States++
		c.Evaluations++
		c.Nontrivial++
	}
}

// c09SharedUnit: one strategy object shared by two compounds that run concurrently
// (as AllSplitStrategies / AllAndStrategies do inside a multi-worker backtest).
func c09SharedUnit(c *core.Ctx) {
	var bases []*cat.Strat
	for _, e := range cat.Strats {
		if e.CountKey == nil {
			bases = append(bases, e)
		}
	}
	for i := 0; i+2 < len(bases); i += 2 {
		a, b, d := bases[i], bases[i+1], bases[i+2]
		ca, cb, cd := a.Cfgs(false)[0], b.Cfgs(false)[0], d.Cfgs(false)[0]
		n := 2*max(a.Warm(ca), b.Warm(cb), d.Warm(cd)) + 2
		snaps := cat.Snapshots(fixedRows(n))
		mkPair := func(shared strategy.Strategy) (strategy.Strategy, strategy.Strategy) {
			return strategy.NewSplitStrategy(shared, b.New(cb)), strategy.NewAndStrategy("and", d.New(cd), shared)
		}
		f1, f2 := mkPair(a.New(ca))
		r1 := RunStrategy(f1, snaps, 0, mc.Options{})
		r2 := RunStrategy(f2, snaps, 0, mc.Options{})
		c.Executions += 2
		if !r1.Healthy() || !r2.Healthy() {
			continue
		}
		label := fmt.Sprintf("Split(%s,%s) and And(%s,%s) sharing the %s instance", a.Name, b.Name, d.Name, a.Name, a.Name)
		sc := func() explore.Exec {
			var sinks [2]*Sink[strategy.Action]
			body := func() {
				s1, s2 := mkPair(a.New(ca))
				mc.Go(func() { sinks[0] = Collect(s1.Compute(Feed(snaps, 0))) })
				mc.Go(func() { sinks[1] = Collect(s2.Compute(Feed(snaps, 0))) })
			}
			observe := func(res *mc.Result) (string, string) {
				out, viol := "", ""
				for k, want := range [][]int{r1.Actions, r2.Actions} {
					var got []int
					if sinks[k] != nil {
						for _, x := range sinks[k].Vals {
							got = append(got, int(x))
						}
					}
					out += fmt.Sprint(got)
					if viol == "" && fmt.Sprint(got) != fmt.Sprint(want) {
						viol = fmt.Sprintf("compound %d returned %v when run concurrently, %v alone", k+1, got, want)
					}
				}
				if viol == "" {
					viol = quiescenceVerdict(res, func() (int, int) { return 0, 1 })
				}
				return out, viol
			}
			return explore.Exec{Body: body, Observe: observe}
		}
		st := explore.DPOR(sc, explore.Opts{Races: true, MaxExec: 300, Budget: 20 * time.Second})
		c.Executions += int64(st.Executions)
		c.Transitions += int64(st.Events)
		c.States++
		c.Evaluations++
		c.Nontrivial++
		if st.Internal != "" {
			c.InternalError(st.Internal)
		}
		if !st.Exhaustive {
			c.NotExhaustive("DPOR cap on shared-instance scenarios: " + st.CapHit)
		}
		for _, v := range st.Violations {
			c.Fail("", label+": "+v.Text, nil)
			break
		}
		for pair := range st.RacePairs {
			c.Fail(raceKey(pair), label+": data race between "+pair, nil)
		}
	}
}

func init() {
	core.Register(&core.Check{
		ID:   "C09",
		Rule: "for every catalogued indicator, base strategy x configuration, every decorator and a quarter (thorough: all) of the compound wrappers: (i) every ordered pair and four triples of sequential Compute calls on ONE instance with inputs of lengths {0,w,w+2,2w+1} compared with fresh instances, receiver dump compared after every call; (ii) two concurrent Compute calls on one instance with different inputs explored by DPOR (all traces) with the happens-before race detector and a receiver-immutability invariant evaluated at every scheduling point, plus an auxiliary delay-bounded (d<=1) search that assumes no independence, cut at 400 executions per scenario (counted); (iii) Compute / rendered Report / Compute / Report on one strategy instance compared with fresh instances; (iv) one strategy object shared by two compounds running concurrently; (v) every ordered pair of up to four configurations spread over the box: an instance built as A, used, then reconfigured IN PLACE (exported fields assigned recursively through sub-indicators, members and decorated strategies) to B must equal a fresh B, and a zero value given the exported fields of a constructor-built strategy must equal it; (vi) per strategy a series with zero-volume and zero-range bars run with the race detector for Compute and Report, inputs compared with their pristine dump; (vii) eight basic building blocks (Sma, Ema, Wma, MovingSum, MovingMax, MovingMin, MovingStd, BollingerBands) instantiated with float64, float32, int, int32 and int64: every ordered sequence of three element types x periods {2,4}, the result for an element type is the same wherever in a sequence it is computed; states = call sequences + concurrent scenarios, non-trivial = concurrent scenarios",
		Assume: []string{"race freedom is decided on instrumented accesses (fields through pointers, captured mutated variables, maps, slice elements) in every explored execution; a free-running -race pass is not part of this check",
			"configurations: the quick period boxes of the catalogue"},
		Units: func(tier string) []core.Unit {
			var us []core.Unit
			th := tier == "thorough"
			for _, e := range cat.Inds {
				e := e
				for i, cfg := range e.Cfgs(th) {
					cfg := cfg
					if !th && i%2 == 1 && len(e.Cfgs(th)) > 6 {
						continue
					}
					us = append(us, core.Unit{Key: e.Name + fmtCfg(cfg), Cost: 3 + e.New(cfg).Idle, Run: func(c *core.Ctx) { c09IndUnit(c, e, cfg) }})
				}
			}
			for _, e := range cat.Strats {
				e := e
				for i, cfg := range e.Cfgs(th) {
					cfg := cfg
					if !th && i%2 == 1 && len(e.Cfgs(th)) > 6 {
						continue
					}
					us = append(us, core.Unit{Key: e.Name + fmtCfg(cfg), Cost: 2 * (3 + e.Warm(cfg)), Run: func(c *core.Ctx) { c09StratUnit(c, e, cfg) }})
				}
			}
			// decorators and compounds keep per-run state too (purchase price, stop level, standing actions)
			for i, e := range wrapperEntries() {
				e := e
				if !th && !strings.HasPrefix(e.Name, "decorator.") && i%4 != 0 {
					continue
				}
				us = append(us, core.Unit{Key: e.Name, Cost: 3 * (3 + e.Warm(nil)), Run: func(c *core.Ctx) { c09StratUnit(c, e, []float64{}) }})
			}
			us = append(us, core.Unit{Key: "shared-sub-instances", Cost: 50, Run: c09SharedUnit})
			// (v) the exported fields are the configuration: reconfiguring a used instance in place, or assembling
			// one as a composite literal, gives the behaviour of a fresh instance with those fields
			for _, e := range cat.Inds {
				e := e
				if len(e.Cfgs(th)) > 1 {
					us = append(us, core.Unit{Key: "reconfigure:" + e.Name, Cost: 6, Run: func(c *core.Ctx) { c09ReconfInd(c, e) }})
				}
			}
			sl := stopLossReconfEntry()
			for _, e := range append(append([]*cat.Strat{}, cat.Strats...), sl) {
				e := e
				if len(e.Cfgs(th)) > 1 {
					us = append(us, core.Unit{Key: "reconfigure:" + e.Name, Cost: 6, Run: func(c *core.Ctx) { c09ReconfStrat(c, e) }})
				}
				us = append(us, core.Unit{Key: "literal:" + e.Name, Cost: 2, Run: func(c *core.Ctx) {
					for _, cfg := range spread(e.Cfgs(th)) {
						c09LiteralStrat(c, e, cfg)
					}
				}})
			}
			us = append(us, core.Unit{Key: "factory-isolation", Cost: 4, Run: c09FactoryIsolation})
			us = append(us, core.Unit{Key: "csv-reader-object-reuse", Cost: 4, Run: c09CsvReuseUnit})
			// (vii) element types: results do not depend on which instances of which element type computed before
			for _, k := range typedKinds() {
				k := k
				us = append(us, core.Unit{Key: "element-types:" + k.name, Cost: 10, Run: func(c *core.Ctx) { c09TypedUnit(c, k) }})
			}
			for i, e := range wrapperEntries() {
				e := e
				if th || i%4 == 0 || strings.HasPrefix(e.Name, "decorator.") {
					us = append(us, core.Unit{Key: "literal:" + e.Name, Cost: 2, Run: func(c *core.Ctx) { c09LiteralStrat(c, e, []float64{}) }})
				}
			}
			return us
		},
	})
}
