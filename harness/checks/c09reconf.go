package checks

import (
	"fmt"
	"reflect"

	"verifharness/cat"
	"verifharness/core"

	"github.com/cinar/indicator/v2/strategy"
	"github.com/cinar/indicator/v2/strategy/decorator"
	"github.com/cinar/indicator/v2/verifmc/mc"
)

// Reconfiguration of a used instance.
//
// Every indicator and strategy of the library is a struct whose exported fields ARE its configuration
// (periods, thresholds, sub-indicators, member strategies); constructors only fill them in, doc comments
// show them being assigned after construction, and a parameter sweep that keeps one object and walks a
// field through its range is ordinary use. "Holds configuration only" therefore has a sharp reading: an
// instance whose exported fields (recursively, through sub-indicator pointers, interface members and
// member slices) have been set to those of a fresh instance of configuration B behaves as that fresh
// instance - no matter how it was built and what it computed before. State derived from the
// configuration and kept anywhere else (a cached sub-indicator, a precomputed factor, a flag) breaks this.

// reconfigure assigns the exported configuration of src to dst in place, recursing into
// sub-objects so that dst keeps its own (possibly stateful) sub-instances.
func reconfigure(dst, src reflect.Value) {
	if !dst.IsValid() || !src.IsValid() || dst.Type() != src.Type() {
		return
	}
	switch dst.Kind() {
	case reflect.Ptr:
		// a struct without exported fields (trend.Hma, volatility.Po) keeps its configuration to itself: opaque, taken over whole
		if dst.IsNil() || src.IsNil() || dst.Elem().Kind() != reflect.Struct || !hasExported(dst.Elem().Type()) {
			if dst.CanSet() {
				dst.Set(src)
			}
			return
		}
		reconfigure(dst.Elem(), src.Elem())
	case reflect.Interface:
		if dst.IsNil() || src.IsNil() || dst.Elem().Type() != src.Elem().Type() || dst.Elem().Kind() != reflect.Ptr {
			if dst.CanSet() {
				dst.Set(src)
			}
			return
		}
		reconfigure(dst.Elem(), src.Elem())
	case reflect.Struct:
		t := dst.Type()
		if !hasExported(t) {
			if dst.CanSet() {
				dst.Set(src)
			}
			return
		}
		for i := 0; i < t.NumField(); i++ {
			if !t.Field(i).IsExported() {
				continue
			}
			reconfigure(dst.Field(i), src.Field(i))
		}
	case reflect.Slice:
		if dst.Len() == src.Len() && dst.Len() > 0 {
			k := dst.Type().Elem().Kind()
			if k == reflect.Ptr || k == reflect.Interface || k == reflect.Struct {
				for i := 0; i < dst.Len(); i++ {
					reconfigure(dst.Index(i), src.Index(i))
				}
				return
			}
		}
		if dst.CanSet() {
			dst.Set(src)
		}
	default:
		if dst.CanSet() {
			dst.Set(src)
		}
	}
}

func hasExported(t reflect.Type) bool {
	for i := 0; i < t.NumField(); i++ {
		if t.Field(i).IsExported() {
			return true
		}
	}
	return false
}

// exportedDump renders the exported configuration of v (same recursion as reconfigure).
func exportedDump(v reflect.Value, depth int) string {
	if !v.IsValid() || depth > 8 {
		return "?"
	}
	switch v.Kind() {
	case reflect.Ptr, reflect.Interface:
		if v.IsNil() {
			return "nil"
		}
		return exportedDump(v.Elem(), depth+1)
	case reflect.Struct:
		s := v.Type().String() + "{"
		for i := 0; i < v.NumField(); i++ {
			if v.Type().Field(i).IsExported() {
				s += v.Type().Field(i).Name + ":" + exportedDump(v.Field(i), depth+1) + " "
			}
		}
		return s + "}"
	case reflect.Slice:
		s := "["
		for i := 0; i < v.Len(); i++ {
			s += exportedDump(v.Index(i), depth+1) + " "
		}
		return s + "]"
	case reflect.Func, reflect.Chan, reflect.Map:
		return v.Kind().String()
	}
	return fmt.Sprint(v.Interface())
}

func cfgPairs(n int) [][2]int {
	if n > 4 {
		n = 4
	}
	var ps [][2]int
	for a := 0; a < n; a++ {
		for b := 0; b < n; b++ {
			if a != b {
				ps = append(ps, [2]int{a, b})
			}
		}
	}
	return ps
}

// spread picks up to four configurations spread over the list (first, last and two in between).
func spread(cfgs [][]float64) [][]float64 {
	if len(cfgs) <= 4 {
		return cfgs
	}
	n := len(cfgs)
	return [][]float64{cfgs[0], cfgs[n/3], cfgs[2*n/3], cfgs[n-1]}
}

func c09ReconfInd(c *core.Ctx, e *cat.Ind) {
	cfgs := spread(e.Cfgs(c.Thorough()))
	for _, p := range cfgPairs(len(cfgs)) {
		a, b := cfgs[p[0]], cfgs[p[1]]
		wa, wb := e.New(a).Idle, e.New(b).Idle
		n := 2*max(wa, wb) + 3
		label := fmt.Sprintf("%s built as %s, used, then reconfigured to %s", e.Name, fmtCfg(a), fmtCfg(b))
		cs := map[string]any{"indicator": e.Name, "first_config": a, "second_config": b, "input_length": n}
		fresh := RunInd(e.New(b), indInput(e, n, 1), 0, mc.Options{})
		inst := e.New(a)
		first := RunInd(inst, indInput(e, n, 0), 0, mc.Options{})
		c.Executions += 2
		c.States++
		c.Evaluations++
		if !fresh.Healthy() || !first.Healthy() {
			c.Count("reconfiguration pairs skipped: a plain run does not reach clean quiescence (left to C03)", 1)
			continue
		}
		tgt := e.New(b)
		if exportedDump(reflect.ValueOf(e.New(a).Obj), 0) == exportedDump(reflect.ValueOf(tgt.Obj), 0) {
			c.Count("reconfiguration pairs skipped: the two configurations do not differ in any exported field (opaque type)", 1)
			continue
		}
		reconfigure(reflect.ValueOf(inst.Obj), reflect.ValueOf(tgt.Obj))
		if exportedDump(reflect.ValueOf(inst.Obj), 0) != exportedDump(reflect.ValueOf(tgt.Obj), 0) {
			c.Count("reconfiguration pairs skipped: exported configuration could not be copied", 1)
			continue
		}
		c.Nontrivial++
		r := RunInd(inst, indInput(e, n, 1), 0, mc.Options{})
		c.Executions++
		c.Transitions += int64(r.Res.Events)
		if !r.Healthy() {
			c.Fail("", fmt.Sprintf("%s: Compute did not terminate cleanly (%s) although a fresh instance of the second configuration does", label, unhealthyWhy(r.Res, r.Closed)), cs)
			continue
		}
		if outsKey(r.Outs) != outsKey(fresh.Outs) {
			c.Fail("", fmt.Sprintf("%s: Compute returns %s, a fresh instance with the same exported configuration returns %s (state derived from the configuration is kept outside it)", label, outsKey(r.Outs), outsKey(fresh.Outs)), cs)
		}
	}
}

func unhealthyWhy(res *mc.Result, closed []bool) string {
	switch {
	case len(res.Panics) > 0:
		return "panic: " + res.Panics[0].Value
	case res.Deadlock:
		return fmt.Sprintf("deadlock / leak: %d goroutines blocked: %s", len(res.Blocked), blockedDesc(res))
	case res.Cut:
		return "event cap"
	}
	return fmt.Sprintf("outputs closed: %v", closed)
}

func c09ReconfStrat(c *core.Ctx, e *cat.Strat) {
	cfgs := spread(e.Cfgs(c.Thorough()))
	for _, p := range cfgPairs(len(cfgs)) {
		a, b := cfgs[p[0]], cfgs[p[1]]
		n := 2*max(e.Warm(a), e.Warm(b)) + 4
		label := fmt.Sprintf("%s built as %s, used, then reconfigured to %s", e.Name, fmtCfg(a), fmtCfg(b))
		cs := map[string]any{"strategy": e.Name, "first_config": a, "second_config": b, "snapshots": n}
		rows := make([][5]float64, n)
		for i := range rows {
			rows[i] = sigmaBars[(i*5+i/2)%5] // the five bars with positive volume
		}
		fresh := RunStrategy(e.New(b), cat.Snapshots(rows), 0, mc.Options{})
		inst := e.New(a)
		first := RunStrategy(inst, cat.Snapshots(fixedRows(n)), 0, mc.Options{})
		c.Executions += 2
		c.States++
		c.Evaluations++
		if !fresh.Healthy() || !first.Healthy() {
			c.Count("reconfiguration pairs skipped: a plain run does not reach clean quiescence (left to C03)", 1)
			continue
		}
		tgt := e.New(b)
		if exportedDump(reflect.ValueOf(e.New(a)), 0) == exportedDump(reflect.ValueOf(tgt), 0) {
			c.Count("reconfiguration pairs skipped: the two configurations do not differ in any exported field (opaque type)", 1)
			continue
		}
		reconfigure(reflect.ValueOf(inst), reflect.ValueOf(tgt))
		if exportedDump(reflect.ValueOf(inst), 0) != exportedDump(reflect.ValueOf(tgt), 0) {
			c.Count("reconfiguration pairs skipped: exported configuration could not be copied", 1)
			continue
		}
		c.Nontrivial++
		r := RunStrategy(inst, cat.Snapshots(rows), 0, mc.Options{})
		c.Executions++
		c.Transitions += int64(r.Res.Events)
		if !r.Healthy() {
			c.Fail("", fmt.Sprintf("%s: Compute did not terminate cleanly (%s) although a fresh instance of the second configuration does", label, unhealthyWhy(r.Res, []bool{r.Closed})), cs)
			continue
		}
		if fmt.Sprint(r.Actions) != fmt.Sprint(fresh.Actions) {
			c.Fail("", fmt.Sprintf("%s: Compute returns %v, a fresh instance with the same exported configuration returns %v (state derived from the configuration is kept outside it)", label, r.Actions, fresh.Actions), cs)
		}
	}
}

// c09LiteralStrat: a strategy value assembled as a composite literal from the exported fields
// of a constructor-built one (zero value + exported configuration) must behave as the constructor-built one.
func c09LiteralStrat(c *core.Ctx, e *cat.Strat, cfg []float64) {
	built := e.New(cfg)
	bv := reflect.ValueOf(built)
	if bv.Kind() != reflect.Ptr || bv.Elem().Kind() != reflect.Struct || !hasExported(bv.Elem().Type()) {
		return
	}
	n := 2*e.Warm(cfg) + 4
	rows := make([][5]float64, n)
	for i := range rows {
		rows[i] = sigmaBars[(i*5+i/2)%5]
	}
	label := e.Name + fmtCfg(cfg)
	cs := map[string]any{"strategy": e.Name, "config": cfg, "snapshots": n}
	fresh := RunStrategy(built, cat.Snapshots(rows), 0, mc.Options{})
	c.Executions++
	c.States++
	c.Evaluations++
	if !fresh.Healthy() {
		return
	}
	lit := reflect.New(bv.Elem().Type())
	reconfigure(lit, reflect.ValueOf(e.New(cfg)))
	ls, ok := lit.Interface().(strategy.Strategy)
	if !ok || exportedDump(lit, 0) != exportedDump(bv, 0) {
		return
	}
	c.Nontrivial++
	r := RunStrategy(ls, cat.Snapshots(rows), 0, mc.Options{})
	c.Executions++
	c.Transitions += int64(r.Res.Events)
	if !r.Healthy() {
		c.Fail("", fmt.Sprintf("%s assembled as a composite literal of its exported fields: Compute did not terminate cleanly (%s)", label, unhealthyWhy(r.Res, []bool{r.Closed})), cs)
		return
	}
	if fmt.Sprint(r.Actions) != fmt.Sprint(fresh.Actions) {
		c.Fail("", fmt.Sprintf("%s assembled as a composite literal of its exported fields returns %v, the constructor-built instance with the same exported configuration returns %v", label, r.Actions, fresh.Actions), cs)
	}
}

// stopLossReconfEntries: the stop-loss decorator is the only wrapper with a numeric configuration of its own.
func stopLossReconfEntry() *cat.Strat {
	var inner *cat.Strat
	for _, e := range cat.Strats {
		if e.Name == "strategy.BuyAndHoldStrategy" {
			inner = e
		}
	}
	if inner == nil {
		inner = cat.Strats[0]
	}
	icfg := inner.Cfgs(false)[0]
	return &cat.Strat{Name: "decorator.StopLoss(" + inner.Name + ")",
		Cfgs: func(bool) [][]float64 { return [][]float64{{0.25}, {1}, {0.05}, {0.5}} },
		New: func(cfg []float64) strategy.Strategy {
			return decorator.NewStopLossStrategy(inner.New(icfg), cfg[0])
		},
		Warm: func([]float64) int { return inner.Warm(icfg) }}
}

// c09FactoryIsolation: the values handed out by the factories that build every ordered pair (and by the registries) are
// independent instances as far as their OWN configuration goes (they share the base strategies by design): extending or
// replacing the members of one of them leaves every other one as it was - same exported members, same results.
func c09FactoryIsolation(c *core.Ctx) {
	words := [][]strategy.Action{
		{strategy.Buy, strategy.Hold, strategy.Sell, strategy.Buy, strategy.Hold, strategy.Sell},
		{strategy.Hold, strategy.Buy, strategy.Buy, strategy.Sell, strategy.Sell, strategy.Buy},
		{strategy.Sell, strategy.Sell, strategy.Buy, strategy.Hold, strategy.Buy, strategy.Hold},
		{strategy.Buy, strategy.Buy, strategy.Hold, strategy.Sell, strategy.Hold, strategy.Buy},
	}
	never := func() strategy.Strategy { return &stubStrategy{word: make([]strategy.Action, 6)} } // holds for ever
	snaps := closeSnaps([]float64{1, 2, 4, 3, 2, 4})
	factories := []struct {
		name string
		f    func([]strategy.Strategy) []strategy.Strategy
	}{
		{"strategy.AllAndStrategies", strategy.AllAndStrategies},
		{"strategy.AllSplitStrategies", strategy.AllSplitStrategies},
	}
	for _, fc := range factories {
		for nb := 2; nb <= 4; nb++ {
			mk := func() []strategy.Strategy {
				bases := make([]strategy.Strategy, nb)
				for i := range bases {
					bases[i] = &stubStrategy{word: words[i]}
				}
				return fc.f(bases)
			}
			ref0 := mk()
			var before []string
			for _, s := range ref0 {
				r := RunStrategy(s, snaps, 0, mc.Options{})
				c.Executions++
				before = append(before, fmt.Sprint(r.Actions, r.Healthy()))
			}
			for j := range ref0 {
				batch := mk()
				v := reflect.ValueOf(batch[j])
				if v.Kind() != reflect.Ptr || v.Elem().Kind() != reflect.Struct {
					continue
				}
				stratT := reflect.TypeOf((*strategy.Strategy)(nil)).Elem()
				for fi := 0; fi < v.Elem().NumField(); fi++ {
					f := v.Elem().Field(fi)
					if !v.Elem().Type().Field(fi).IsExported() || !f.CanSet() {
						continue
					}
					switch {
					case f.Kind() == reflect.Slice && f.Type().Elem() == stratT:
						f.Set(reflect.Append(f, reflect.ValueOf(never()))) // and.Strategies = append(and.Strategies, extra)
					case f.Kind() == reflect.Interface && f.Type() == stratT:
						f.Set(reflect.ValueOf(never()))
					}
				}
				c.States++
				c.Evaluations++
				c.Nontrivial++
				for i, s := range batch {
					if i == j {
						continue
					}
					r := RunStrategy(s, snaps, 0, mc.Options{})
					c.Executions++
					c.Transitions += int64(r.Res.Events)
					if got := fmt.Sprint(r.Actions, r.Healthy()); got != before[i] {
						c.Fail("", fmt.Sprintf("%s over %d strategies: after the members of the strategy at index %d (%s) were extended / replaced, the untouched strategy at index %d (%s) returns %s, before %s", fc.name, nb, j, batch[j].Name(), i, s.Name(), got, before[i]), map[string]any{"factory": fc.name, "inputs": nb, "modified": j, "affected": i})
						break
					}
				}
			}
		}
	}
}
