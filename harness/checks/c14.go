package checks

import (
	"bytes"
	"fmt"
	"math"
	"reflect"
	"strconv"
	"strings"
	"time"
	"unsafe"

	"verifharness/cat"
	"verifharness/core"
	"verifharness/ref"

	"github.com/cinar/indicator/v2/asset"
	"github.com/cinar/indicator/v2/helper"
	"github.com/cinar/indicator/v2/strategy"
	"github.com/cinar/indicator/v2/verifmc/mc"
)

// columnChan pulls the value channel out of a report column (first channel-typed
// field of the struct behind the interface), independent of field names.
func columnChan(col helper.ReportColumn) any {
	v := reflect.ValueOf(col)
	for v.Kind() == reflect.Pointer || v.Kind() == reflect.Interface {
		v = v.Elem()
	}
	if v.Kind() != reflect.Struct {
		return nil
	}
	for i := 0; i < v.NumField(); i++ {
		f := v.Field(i)
		if f.Kind() == reflect.Chan {
			return reflect.NewAt(f.Type(), unsafe.Pointer(f.UnsafeAddr())).Elem().Interface()
		}
	}
	return nil
}

type colSink struct {
	name    string
	role    string
	vals    []string
	nums    []float64
	closed  bool
	bad     string
	shifted bool // a recorded one-longer column, read in the alignment the finding describes
}

func collectColumn(col helper.ReportColumn) *colSink {
	s := &colSink{name: col.Name(), role: col.Role()}
	switch ch := columnChan(col).(type) {
	case <-chan float64:
		mc.Go(func() {
			for {
				v, ok := mc.Recv2(ch)
				if !ok {
					s.closed = true
					return
				}
				s.nums = append(s.nums, v)
				s.vals = append(s.vals, fmt.Sprint(v))
			}
		})
	case <-chan int:
		mc.Go(func() {
			for {
				v, ok := mc.Recv2(ch)
				if !ok {
					s.closed = true
					return
				}
				s.nums = append(s.nums, float64(v))
				s.vals = append(s.vals, fmt.Sprint(v))
			}
		})
	case <-chan string:
		mc.Go(func() {
			for {
				v, ok := mc.Recv2(ch)
				if !ok {
					s.closed = true
					return
				}
				s.vals = append(s.vals, v)
			}
		})
	default:
		s.bad = fmt.Sprintf("column %q has a value channel of unsupported type %T", s.name, ch)
	}
	return s
}

// reportKnown classifies a column-length mismatch as a recorded finding.
func reportKnown(strat, column string, dates, got int) string {
	d := got - dates
	switch {
	case strings.HasPrefix(strat, "trend.ApoStrategy") && column == "APO" && d == 1:
		return "apo-report-column-one-longer"
	// the recorded findings are exact patterns (the empty date axis, or average and annotation columns exactly one
	// value longer than the date axis): any other disagreement on these reports is a violation of its own
	case strings.HasPrefix(strat, "trend.AlligatorStrategy") && ((column == "<dates>" && dates == 0) || (column != "<dates>" && d == 1)):
		return "alligator-report-columns-misaligned"
	case strings.HasPrefix(strat, "trend.SmmaStrategy") && ((column == "<dates>" && dates == 0) || (column != "<dates>" && d == 1)):
		return "smma-report-columns-misaligned"
	}
	return ""
}

type parsedRow struct {
	date string
	vals []string
}

func parseRows(html string) []parsedRow {
	var rows []parsedRow
	for _, blk := range strings.Split(html, "data.addRow([")[1:] {
		end := strings.Index(blk, "]);")
		if end < 0 {
			continue
		}
		var r parsedRow
		for _, ln := range strings.Split(blk[:end], "\n") {
			ln = strings.TrimSpace(ln)
			if ln == "" {
				continue
			}
			ln = strings.TrimSuffix(ln, ",")
			if strings.HasPrefix(ln, "new Date(") {
				r.date = strings.Trim(strings.TrimSuffix(strings.TrimPrefix(ln, "new Date("), ")"), `"`)
				continue
			}
			r.vals = append(r.vals, ln)
		}
		rows = append(rows, r)
	}
	return rows
}

func c14Unit(c *core.Ctx, e *cat.Strat, cfg []float64, withCols bool) {
	w := e.Warm(cfg)
	label := e.Name + fmtCfg(cfg)
	lengths := []int{w + 1, w + 2, w + 3, w + 4, 2*w + 2}
	for li, n := range lengths {
		for variant := 0; variant < 3; variant++ {
			rows := fixedRows(n + variant)[variant:]
			snaps := cat.Snapshots(rows)
			cs := map[string]any{"strategy": e.Name, "config": cfg, "bars_OHLCV": rows}
			// the time axis is whatever dates the snapshots carry: consecutive days, a bar delivered twice by the feed
			// (two consecutive snapshots with the same date, here the last two and the first two), a gap (weekend)
			switch variant {
			case 1:
				if n >= 2 {
					snaps[n-1].Date = snaps[n-2].Date
					snaps[1].Date = snaps[0].Date
					cs["dates"] = "the first two and the last two snapshots carry the same date"
				}
			case 2:
				// local midnights of an exchange east of Greenwich (the calendar day of a snapshot is the day in ITS zone),
				// with a weekend gap in the middle
				jst := time.FixedZone("JST", 9*3600)
				for i := 0; i < n; i++ {
					d := snaps[i].Date
					if i >= n/2 {
						d = d.AddDate(0, 0, 2)
					}
					snaps[i].Date = time.Date(d.Year(), d.Month(), d.Day(), 0, 0, 0, 0, jst)
				}
				cs["dates"] = "local midnights at UTC+9, two-day gap in the middle"
			}
			// reference material from the real Compute
			base := RunStrategy(e.New(cfg), snaps, 0, mc.Options{})
			c.Executions++
			if !base.Healthy() {
				c.Count("strategies whose Compute did not reach clean quiescence (left to C03)", 1)
				continue
			}
			acts := make([]strategy.Action, len(base.Actions))
			for i, a := range base.Actions {
				acts[i] = strategy.Action(a)
			}
			closes := make([]float64, n)
			for i, r := range rows {
				closes[i] = r[3]
			}
			norm := refNormalize(acts)
			outc := refOutcome(closes, acts)

			// pass 1: every column and the date axis drained by independent readers
			var dates *Sink[time.Time]
			var cols []*colSink
			var title string
			res := mc.Run(func() {
				rep := e.New(cfg).Report(Feed(snaps, 0))
				title = rep.Title
				dates = Collect(rep.Date)
				for _, col := range rep.Columns {
					cols = append(cols, collectColumn(col))
				}
			}, mc.Options{})
			c.Executions++
			c.Transitions += int64(res.Events)
			c.States++
			c.Evaluations++
			_ = title
			if len(res.Panics) > 0 {
				c.Fail("", fmt.Sprintf("%s report on %d snapshots: panic %s", label, n, res.Panics[0].Value), cs)
				continue
			}
			// the date axis is a suffix of the snapshot dates (reports may leave out the warm-up)
			nd := len(dates.Vals)
			off := n - nd
			if nd > n || nd == 0 {
				c.Fail(reportKnown(e.Name, "<dates>", nd, -1), fmt.Sprintf("%s report on %d snapshots: the date axis has %d rows", label, n, nd), cs)
				continue
			}
			badDate := false
			for i, d := range dates.Vals {
				if !d.Equal(snaps[off+i].Date) {
					c.Fail("", fmt.Sprintf("%s report on %d snapshots: date row %d is %s, expected the snapshot date %s (the last %d snapshot dates)", label, n, i, d.Format("2006-01-02"), snaps[off+i].Date.Format("2006-01-02"), nd), cs)
					badDate = true
					break
				}
			}
			if badDate {
				continue
			}
			okCounts, asIs := true, false
			for _, col := range cols {
				if col.bad != "" {
					c.InternalError(col.bad)
					okCounts = false
					continue
				}
				if len(col.vals) != nd {
					key := reportKnown(e.Name, col.name, nd, len(col.vals))
					c.Fail(key, fmt.Sprintf("%s report on %d snapshots: column %q (%s) supplies %d values for %d date rows", label, n, col.name, col.role, len(col.vals), nd), cs)
					if key != "" && len(col.vals) == nd+1 {
						// the recorded one-longer columns start one day early: the content of the report is still compared,
						// in the alignment the recorded finding describes (value i+1 belongs to date row i)
						col.vals = col.vals[1:]
						if len(col.nums) == nd+1 {
							col.nums = col.nums[1:]
						}
						asIs, col.shifted = true, true
						continue
					}
					okCounts = false
				}
			}
			if okCounts && res.Deadlock {
				c.Fail("", fmt.Sprintf("%s report on %d snapshots: the report pipelines did not finish although every column was drained (%s)", label, n, blockedDesc(res)), cs)
				okCounts = false
			}
			if !okCounts {
				continue
			}
			c.Nontrivial++
			// content of the generic columns and, where catalogued, of the indicator columns
			var want map[string]ref.S
			if withCols && e.Cols != nil {
				bars := cat.MakeBars(rows)
				setScale([][]float64{bars.H.V})
				want = e.Cols(cfg, bars)
			}
			for _, col := range cols {
				switch {
				case col.role == "annotation":
					// (strategies with the recorded extra action, C05: the one-longer annotation column, read one later,
					// carries the actions read one later as well)
					sh := 0
					if col.shifted && len(norm) == n+1 {
						sh = 1
					}
					for i, v := range col.vals {
						if v != norm[off+i+sh].Annotation() {
							c.Fail("", fmt.Sprintf("%s report on %d snapshots: annotation of row %d (snapshot %d) is %q, the normalised action of that day is %q (actions %v)", label, n, i, off+i, v, norm[off+i+sh].Annotation(), base.Actions), cs)
							break
						}
					}
				case col.name == "Close":
					for i, v := range col.nums {
						if !bitsEq(v, closes[off+i]) {
							key := ""
							if strings.HasPrefix(e.Name, "trend.CciStrategy") && bitsEq(v, rows[off+i][1]) {
								key = "cci-strategy-feeds-highs"
							}
							c.Fail(key, fmt.Sprintf("%s report on %d snapshots: column Close row %d (snapshot %d) is %v, the closing price of that day is %v", label, n, i, off+i, v, closes[off+i]), cs)
							break
						}
					}
				case col.name == "Outcome":
					for i, v := range col.nums {
						if math.Abs(v-outc[off+i]*100) > 1e-9*math.Max(1, math.Abs(outc[off+i]*100)) {
							c.Fail("", fmt.Sprintf("%s report on %d snapshots: column Outcome row %d (snapshot %d) is %v, the outcome as of that day is %v", label, n, i, off+i, v, outc[off+i]*100), cs)
							break
						}
					}
				default:
					if s, ok := want[col.name]; ok {
						for i, v := range col.nums {
							p := off + i
							// during the strategy's own warm-up the columns carry filler values
							if p < w || p >= s.Len() || !s.Def(p) || s.X[p] {
								continue
							}
							if !ref.Close(v, s.V[p]) {
								key := ""
								if e.ColsKnown != nil {
									key = e.ColsKnown(cfg, col.name)
								}
								if strings.HasPrefix(e.Name, "trend.CciStrategy") && col.name == "CCI" {
									// the report feeds the high price into all three CCI inputs, like Compute does
									hs := cat.IndRef("trend.Cci", cfg, cat.MakeBars(rows).H, cat.MakeBars(rows).H, cat.MakeBars(rows).H)[0]
									if p < hs.Len() && ref.Close(v, hs.V[p]) {
										key = "cci-strategy-feeds-highs"
									}
								}
								if key == "" {
									key = colsAsIsKey(e, cfg, rows, col, off, w)
								}
								c.Fail(key, fmt.Sprintf("%s report on %d snapshots: indicator column %q row %d (snapshot %d) is %v, the documented value for that date is %v", label, n, col.name, i, p, v, s.V[p]), cs)
								break
							}
						}
					}
				}
			}
			if asIs {
				continue // the lock-step rendering of columns of unequal length is what the recorded finding is about
			}
			// pass 2: the real template pulls the columns in lock-step
			var buf bytes.Buffer
			var werr error
			res2 := mc.Run(func() {
				rep := e.New(cfg).Report(Feed(snaps, 0))
				werr = rep.WriteToWriter(&buf)
			}, mc.Options{})
			c.Executions++
			c.Transitions += int64(res2.Events)
			switch {
			case len(res2.Panics) > 0:
				c.Fail("", fmt.Sprintf("%s: rendering the report panics: %s", label, res2.Panics[0].Value), cs)
			case werr != nil:
				c.Fail("", fmt.Sprintf("%s: rendering the report fails: %v", label, werr), cs)
			case len(res2.UncheckedZero) > 0:
				c.Fail("", fmt.Sprintf("%s: while rendering %d rows a column ran out of values and printed zero values (%d times, first at %s)", label, n, len(res2.UncheckedZero), res2.UncheckedZero[0]), cs)
			case res2.Deadlock:
				c.Fail("", fmt.Sprintf("%s: after rendering %d rows some column still holds unconsumed values (%s)", label, n, blockedDesc(res2)), cs)
			default:
				pr := parseRows(buf.String())
				if len(pr) != nd {
					c.Fail("", fmt.Sprintf("%s: the rendered report has %d rows for %d dates", label, len(pr), nd), cs)
					break
				}
				for i, r := range pr {
					if r.date != snaps[off+i].Date.Format("2006-01-02") || len(r.vals) != len(cols) {
						c.Fail("", fmt.Sprintf("%s: rendered row %d is dated %s with %d values (expected %s, %d columns)", label, i, r.date, len(r.vals), snaps[off+i].Date.Format("2006-01-02"), len(cols)), cs)
						break
					}
					for j, col := range cols {
						exp := ""
						switch {
						case col.role == "annotation":
							exp = "null"
							if col.vals[i] != "" {
								exp = strconv.Quote(col.vals[i])
							}
						default:
							exp = col.vals[i]
						}
						if r.vals[j] != exp {
							c.Fail("", fmt.Sprintf("%s: rendered row %d column %q shows %s, the column's value for that date is %s", label, i, col.name, r.vals[j], exp), cs)
							break
						}
					}
				}
			}
			if li == 0 && variant == 0 && len(c.Samples) < 3 {
				var names []string
				for _, col := range cols {
					names = append(names, col.name+"/"+col.role)
				}
				c.Sample(map[string]any{"strategy": e.Name, "config": cfg, "snapshots": n, "columns": names, "rows_rendered": n})
			}
		}
	}
	_ = asset.Snapshot{}
}

func init() {
	core.Register(&core.Check{
		ID:     "C14",
		Rule:   "for every strategy (40 base strategies x configuration box, decorators and compounds over them) x snapshot counts {w+1..w+4, 2w+2} x 3 bar series: (1) Report() is built on the real code, the date axis and every column's value channel are pulled out by reflection and each is drained by an independent reader under the controlled scheduler: every column must supply exactly one value per date and all pipelines must finish; Close, annotation (normalised action) and Outcome columns are compared with the real Compute/closing/outcome of each date, catalogued indicator columns with the documented reference at each date; (2) the report is rendered through the real template (text/template's channel range bridged into the scheduler) and every data.addRow line is parsed and compared, a receive from an exhausted column or a column left with unconsumed values is a violation; on the reports with a recorded one-longer column (exactly that pattern, anything else is a violation) the content is compared in the alignment the finding describes and the lock-step rendering is skipped; states = reports built, non-trivial = reports whose content was compared",
		Assume: []string{"bar series are fixed irregular series of the four bars with positive range and volume", "indicator columns are compared only where the catalogue restates them (Cols) and the documented value is defined"},
		Units: func(tier string) []core.Unit {
			var us []core.Unit
			for _, e := range cat.Strats {
				e := e
				for i, cfg := range e.Cfgs(tier == "thorough") {
					cfg := cfg
					if tier != "thorough" && i%2 == 1 && len(e.Cfgs(false)) > 8 {
						continue
					}
					us = append(us, core.Unit{Key: e.Name + fmtCfg(cfg), Cost: 3 + e.Warm(cfg), Run: func(c *core.Ctx) { c14Unit(c, e, cfg, true) }})
				}
			}
			for _, e := range wrapperEntries() {
				e := e
				us = append(us, core.Unit{Key: e.Name, Cost: 6 + e.Warm(nil), Run: func(c *core.Ctx) { c14Unit(c, e, []float64{}, false) }})
			}
			return us
		},
	})
}

// colsAsIsKey reports which recorded indicator defect explains an indicator
// column: the column must equal the catalogued column evaluated over that
// indicator's as-is model at every compared position.
func colsAsIsKey(e *cat.Strat, cfg []float64, rows [][5]float64, col *colSink, off, w int) string {
	for _, ie := range cat.Inds {
		for key, fn := range ie.AsIs {
			cat.RefOverride[ie.Name] = fn
			bars := cat.MakeBars(rows)
			m := e.Cols(cfg, bars)
			delete(cat.RefOverride, ie.Name)
			s, ok := m[col.name]
			if !ok {
				continue
			}
			match, any := true, false
			for i, v := range col.nums {
				p := off + i
				if p < w || p >= s.Len() || !s.Def(p) || s.X[p] {
					continue
				}
				any = true
				if !ref.Close(v, s.V[p]) {
					match = false
					break
				}
			}
			if match && any {
				return key
			}
		}
	}
	return ""
}
