package checks

import (
	"fmt"
	"math"

	"verifharness/cat"
	"verifharness/core"

	"github.com/cinar/indicator/v2/helper"
	"github.com/cinar/indicator/v2/strategy"
	"github.com/cinar/indicator/v2/verifmc/mc"
)

var valueAlphabet = []float64{1, 2, 4}

// words enumerates all words of exactly length n over {0..k-1}.
func words(k, n int) [][]int {
	out := [][]int{{}}
	for i := 0; i < n; i++ {
		var next [][]int
		for _, w := range out {
			for s := 0; s < k; s++ {
				next = append(next, append(append([]int{}, w...), s))
			}
		}
		out = next
	}
	return out
}

func toActions(w []int) []strategy.Action {
	a := make([]strategy.Action, len(w))
	for i, s := range w {
		a[i] = strategy.Action(s - 1) // 0,1,2 -> Sell, Hold, Buy
	}
	return a
}

func toValues(w []int) []float64 {
	v := make([]float64, len(w))
	for i, s := range w {
		v[i] = valueAlphabet[s]
	}
	return v
}

// refOutcome is the all-in/all-out portfolio simulator of the statement.
func refOutcome(values []float64, actions []strategy.Action) []float64 {
	cash, shares := 1.0, 0.0
	n := min(len(values), len(actions))
	out := make([]float64, n)
	for i := 0; i < n; i++ {
		v := values[i]
		switch {
		case actions[i] == strategy.Buy && shares == 0 && cash > 0:
			shares, cash = cash/v, 0
		case actions[i] == strategy.Sell && shares > 0:
			cash, shares = shares*v, 0
		}
		out[i] = cash + shares*v - 1
	}
	return out
}

func refNormalize(a []strategy.Action) []strategy.Action {
	last := strategy.Sell
	out := make([]strategy.Action, len(a))
	for i, x := range a {
		if x != strategy.Hold && x != last {
			last = x
			out[i] = x
		}
	}
	return out
}

func refDenormalize(a []strategy.Action) []strategy.Action {
	last := strategy.Hold
	out := make([]strategy.Action, len(a))
	for i, x := range a {
		if x != strategy.Hold {
			last = x
		}
		out[i] = last
	}
	return out
}

type outcomeObs struct {
	out, outNorm     []float64
	norm, denormNorm []strategy.Action
	denorm           []strategy.Action
	trans            []int
	closed           bool
	res              *mc.Result
}

// runOutcome runs, in one controlled execution, Outcome(values, actions),
// Outcome(values, Normalize(actions)), Normalize, Denormalize, Normalize(Denormalize(Normalize)) and CountTransactions.
func runOutcome(values []float64, actions []strategy.Action) *outcomeObs {
	o := &outcomeObs{}
	var s1, s2 *Sink[float64]
	var s3, s4, s5 *Sink[strategy.Action]
	var s6 *Sink[int]
	o.res = mc.Run(func() {
		s1 = Collect(strategy.Outcome(Feed(values, 0), Feed(actions, 0)))
		s2 = Collect(strategy.Outcome(Feed(values, 1), strategy.NormalizeActions(Feed(actions, 0))))
		s3 = Collect(strategy.NormalizeActions(Feed(actions, 0)))
		s4 = Collect(strategy.DenormalizeActions(Feed(actions, 2)))
		s5 = Collect(strategy.NormalizeActions(strategy.DenormalizeActions(strategy.NormalizeActions(Feed(actions, 0)))))
		s6 = Collect(strategy.CountTransactions(Feed(actions, 0)))
	}, mc.Options{})
	o.out, o.outNorm, o.norm, o.denorm, o.denormNorm, o.trans = s1.Vals, s2.Vals, s3.Vals, s4.Vals, s5.Vals, s6.Vals
	o.closed = s1.Closed && s2.Closed && s3.Closed && s4.Closed && s5.Closed && s6.Closed
	return o
}

func eqActs(a, b []strategy.Action) bool {
	if len(a) != len(b) {
		return false
	}
	for i := range a {
		if a[i] != b[i] {
			return false
		}
	}
	return true
}

func outcomeUnit(c *core.Ctx, la, lv, first int) {
	aw := words(3, la)
	vw := words(3, lv)
	var n, nontriv int64
	for _, a := range aw {
		if first >= 0 && (len(a) < 2 || a[0]*3+a[1] != first) {
			continue
		}
		actions := toActions(a)
		for _, v := range vw {
			values := toValues(v)
			o := runOutcome(values, actions)
			n++
			c.Executions++
			c.Transitions += int64(o.res.Events)
			cs := map[string]any{"values": values, "actions": a}
			fail := func(msg string) {
				c.Fail("", fmt.Sprintf("values %v actions %v: %s", values, actions, msg), cs)
			}
			if o.res.Deadlock || len(o.res.Panics) > 0 || !o.closed || o.res.Buffered > 0 {
				fail(fmt.Sprintf("did not terminate cleanly (deadlock=%v panics=%d closed=%v): a stream was not consumed or closed", o.res.Deadlock, len(o.res.Panics), o.closed))
				continue
			}
			want := refOutcome(values, actions)
			m := min(la, lv)
			if len(o.out) != m {
				fail(fmt.Sprintf("outcome has %d entries for %d (value, action) pairs", len(o.out), m))
				continue
			}
			bought := false
			for i := 0; i < m; i++ {
				if actions[i] == strategy.Buy {
					bought = true
				}
				g := o.out[i]
				if math.Abs(g-want[i]) > 1e-12*math.Max(1, math.Abs(want[i])) {
					fail(fmt.Sprintf("outcome[%d] = %v, portfolio simulation gives %v", i, g, want[i]))
					break
				}
				if g < -1 {
					fail(fmt.Sprintf("outcome[%d] = %v is below -100%%", i, g))
					break
				}
				if !bought && g != 0 {
					fail(fmt.Sprintf("outcome[%d] = %v before the first Buy", i, g))
					break
				}
			}
			if m > 0 && actions[0] == strategy.Buy {
				hold := true
				for i := 1; i < m; i++ {
					if actions[i] == strategy.Sell {
						hold = false
					}
				}
				if hold {
					nontriv++
					for i := 0; i < m; i++ {
						if !bitsEq(o.out[i], values[i]/values[0]-1) {
							fail(fmt.Sprintf("buy-and-hold outcome[%d] = %v, value ratio gives %v", i, o.out[i], values[i]/values[0]-1))
							break
						}
					}
				}
			}
			if !eqF(o.out, o.outNorm) {
				fail(fmt.Sprintf("outcome %v changes to %v when redundant actions are removed by NormalizeActions", o.out, o.outNorm))
			}
			if lv == la { // action-only helpers: judged once per action word
				nm := refNormalize(actions)
				if !eqActs(o.norm, nm) {
					fail(fmt.Sprintf("NormalizeActions = %v, model %v", o.norm, nm))
				}
				last := strategy.Sell
				for i, x := range o.norm {
					if x == strategy.Hold {
						continue
					}
					if x == last {
						fail(fmt.Sprintf("normalised stream %v repeats %v at %d (must alternate starting with Buy)", o.norm, x, i))
						break
					}
					last = x
				}
				if !eqActs(o.denorm, refDenormalize(actions)) {
					fail(fmt.Sprintf("DenormalizeActions = %v, model %v", o.denorm, refDenormalize(actions)))
				}
				if !eqActs(o.denormNorm, nm) {
					fail(fmt.Sprintf("Normalize(Denormalize(Normalize(a))) = %v differs from Normalize(a) = %v", o.denormNorm, nm))
				}
				cnt := 0
				for i, x := range actions {
					if x != strategy.Hold {
						cnt++
					}
					if i >= len(o.trans) || o.trans[i] != cnt {
						fail(fmt.Sprintf("CountTransactions = %v, expected running count of non-Hold actions", o.trans))
						break
					}
				}
			}
			if n == 50 {
				c.Sample(map[string]any{"values": values, "actions": a, "outcome": o.out})
			}
		}
	}
	c.States += n
	c.Evaluations += n
	c.Nontrivial += nontriv
}

// outcomeTypedUnit: Outcome is generic over helper.Number; the simulation is carried out in float64 whatever the
// element type of the value stream (prices quoted in whole units, cents, float32 ticks). Values are chosen so that
// their ratios are not whole numbers.
func outcomeTypedUnit[T helper.Number](c *core.Ctx, tname string, alphabet []T, L int) {
	var n, nontriv int64
	for l := 0; l <= L; l++ {
		for _, a := range words(3, l) {
			actions := toActions(a)
			for _, v := range words(len(alphabet), l) {
				values := make([]T, l)
				fv := make([]float64, l)
				for i, k := range v {
					values[i] = alphabet[k]
					fv[i] = float64(alphabet[k])
				}
				var sink *Sink[float64]
				res := mc.Run(func() { sink = Collect(strategy.Outcome(Feed(values, 0), Feed(actions, 0))) }, mc.Options{})
				n++
				c.Executions++
				c.Transitions += int64(res.Events)
				cs := map[string]any{"element_type": tname, "values": fv, "actions": a}
				if res.Deadlock || len(res.Panics) > 0 || !sink.Closed {
					c.Fail("", fmt.Sprintf("Outcome[%s] values %v actions %v did not terminate cleanly", tname, fv, actions), cs)
					continue
				}
				want := refOutcome(fv, actions)
				if len(sink.Vals) != len(want) {
					c.Fail("", fmt.Sprintf("Outcome[%s] values %v actions %v: %d entries for %d pairs", tname, fv, actions, len(sink.Vals), len(want)), cs)
					continue
				}
				moved := false
				for i := range want {
					if want[i] != 0 {
						moved = true
					}
					if math.Abs(sink.Vals[i]-want[i]) > 1e-12*math.Max(1, math.Abs(want[i])) {
						c.Fail("", fmt.Sprintf("Outcome[%s] values %v actions %v: outcome[%d] = %v, portfolio simulation gives %v", tname, fv, actions, i, sink.Vals[i], want[i]), cs)
						break
					}
				}
				if moved {
					nontriv++
				}
			}
		}
	}
	c.States += n
	c.Evaluations += n
	c.Nontrivial += nontriv
}

// cwoUnit: strategy.ComputeWithOutcome (the entry point of every Report and of the backtest) returns the strategy's
// actions and the outcome of exactly those actions on the closings of the snapshots - whatever else the snapshots hold
// (a flat zero-volume row padded in by a feed, a bar with a zero range).
func cwoUnit(c *core.Ctx, L int) {
	bars := [][5]float64{{4, 6, 3, 5, 10}, {5, 5, 5, 5, 0}, {7, 7, 2, 2, 5}, {2, 2, 2, 2, 0}}
	var n, nontriv int64
	for l := 0; l <= L; l++ {
		for _, a := range words(3, l) {
			actions := toActions(a)
			for _, bw := range words(len(bars), l) {
				rows := make([][5]float64, l)
				closes := make([]float64, l)
				for i, b := range bw {
					rows[i] = bars[b]
					closes[i] = bars[b][3]
				}
				var as *Sink[strategy.Action]
				var os *Sink[float64]
				res := mc.Run(func() {
					x, y := strategy.ComputeWithOutcome(&stubStrategy{word: actions}, Feed(cat.Snapshots(rows), 0))
					as, os = Collect(x), Collect(y)
				}, mc.Options{})
				n++
				c.Executions++
				c.Transitions += int64(res.Events)
				cs := map[string]any{"actions": a, "bars_OHLCV": rows}
				if res.Deadlock || len(res.Panics) > 0 || as == nil || !as.Closed || !os.Closed {
					c.Fail("", fmt.Sprintf("ComputeWithOutcome over actions %v bars %v did not terminate cleanly", actions, rows), cs)
					continue
				}
				if !eqActs(as.Vals, actions) {
					c.Fail("", fmt.Sprintf("ComputeWithOutcome over bars %v returns the actions %v, the strategy emits %v", rows, as.Vals, actions), cs)
					continue
				}
				want := refOutcome(closes, actions)
				if len(os.Vals) != len(want) {
					c.Fail("", fmt.Sprintf("ComputeWithOutcome over actions %v bars %v: %d outcomes for %d snapshots", actions, rows, len(os.Vals), len(want)), cs)
					continue
				}
				for i := range want {
					if want[i] != 0 {
						nontriv++
					}
					if math.Abs(os.Vals[i]-want[i]) > 1e-12*math.Max(1, math.Abs(want[i])) {
						c.Fail("", fmt.Sprintf("ComputeWithOutcome over actions %v bars %v: outcome[%d] = %v, the returned actions applied to the closings %v give %v", actions, rows, i, os.Vals[i], closes, want[i]), cs)
						break
					}
				}
			}
		}
	}
	c.States += n
	c.Evaluations += n
	c.Nontrivial += nontriv
}

func init() {
	core.Register(&core.Check{
		ID:     "C08",
		Rule:   "every action word over {Sell,Hold,Buy} x every value word over {1,2,4}, all pairs of lengths up to 5 (6 thorough) including unequal lengths; each pair is one execution of the real Outcome / NormalizeActions / DenormalizeActions / CountTransactions pipelines under the controlled scheduler; oracle: reference cash/shares simulator plus the statement's invariants one by one; states = (values, actions) pairs, transitions = scheduler events, non-trivial = pairs on which the buy-and-hold identity was checked; plus Outcome instantiated with int, int64, int8 and float32 value streams and float64 streams of very large / very small quotes (three values each with non-integral ratios, equal lengths up to 4 / 5) against the same simulator in float64; and ComputeWithOutcome over a scripted strategy and bar words that include flat zero-volume rows",
		Assume: []string{"values range over {1,2,4} (positive, powers of two so value ratios are exact); lengths up to the stated bound"},
		Units: func(tier string) []core.Unit {
			L := 5
			if tier == "thorough" {
				L = 6
			}
			var us []core.Unit
			for la := 0; la <= L; la++ {
				for lv := 0; lv <= L; lv++ {
					if la != lv && (la > 4 || lv > 4) {
						continue // unequal lengths only up to 4
					}
					la, lv := la, lv
					if la+lv >= 9 {
						for f := 0; f < 9; f++ {
							f := f
							us = append(us, core.Unit{Key: fmt.Sprintf("outcome-a%d-v%d-%d", la, lv, f), Cost: int(math.Pow(3, float64(la+lv-2))), Run: func(c *core.Ctx) { outcomeUnit(c, la, lv, f) }})
						}
						continue
					}
					us = append(us, core.Unit{Key: fmt.Sprintf("outcome-a%d-v%d", la, lv), Cost: int(math.Pow(3, float64(la+lv))), Run: func(c *core.Ctx) { outcomeUnit(c, la, lv, -1) }})
				}
			}
			us = append(us, core.Unit{Key: "compute-with-outcome", Cost: 400, Run: func(c *core.Ctx) { cwoUnit(c, L-1) }})
			// element types other than float64 (equal lengths up to 4 / 5)
			T := L - 1
			us = append(us, core.Unit{Key: "outcome-int", Cost: 300, Run: func(c *core.Ctx) { outcomeTypedUnit(c, "int", []int{10, 15, 4}, T) }})
			us = append(us, core.Unit{Key: "outcome-int64", Cost: 300, Run: func(c *core.Ctx) { outcomeTypedUnit(c, "int64", []int64{3, 2, 1 << 40}, T) }})
			us = append(us, core.Unit{Key: "outcome-int8", Cost: 300, Run: func(c *core.Ctx) { outcomeTypedUnit(c, "int8", []int8{100, 127, 3}, T) }})
			us = append(us, core.Unit{Key: "outcome-float64-huge", Cost: 300, Run: func(c *core.Ctx) { outcomeTypedUnit(c, "float64 (quotes of 1e12)", []float64{1e12, 3e12, 5e11}, T) }})
			us = append(us, core.Unit{Key: "outcome-float64-tiny", Cost: 300, Run: func(c *core.Ctx) { outcomeTypedUnit(c, "float64 (quotes of 1e-12)", []float64{1e-12, 3e-12, 5e-13}, T) }})
			us = append(us, core.Unit{Key: "outcome-float64-crash", Cost: 300, Run: func(c *core.Ctx) {
				outcomeTypedUnit(c, "float64 (a collapse by 1e-12 and a recovery)", []float64{1, 1e-12, 2e-12}, T)
			}})
			us = append(us, core.Unit{Key: "outcome-float32", Cost: 300, Run: func(c *core.Ctx) { outcomeTypedUnit(c, "float32", []float32{1.5, 2.25, 0.1}, T) }})
			return us
		},
	})
}
