package checks

import (
	"fmt"
	"strings"

	"verifharness/core"

	"github.com/cinar/indicator/v2/helper"
	"github.com/cinar/indicator/v2/verifmc/mc"
)

// The CSV reader object (helper/csv.go is among the property's anchors: the column positions it aligns with a header row
// live on the receiver). An object that has read one file must read the next one as a fresh object would, whatever the two
// header rows have in common: every sequence of up to 3 documents out of a small family (all columns, columns in another
// order, a column missing, a column renamed, an extra column, an empty file, a header alone), read one after the other
// through one object, against fresh objects. Differential oracle: no model of the CSV dialect is involved.

type csvReuseRow struct {
	Close  float64
	High   float64 `header:"Hi"`
	Volume float64
}

var csvReuseDocs = []string{
	"Close,Hi,Volume\n4,5,6\n7,8,9\n",
	"Volume,Hi,Close\n6,5,4\n",
	"Close,Volume\n4,6\n7,9\n",
	"Hi,Close\n5,4\n",
	"Close,High,Volume\n4,5,6\n",
	"Date,Close,Hi,Volume,Adj\n1,4,5,6,0\n",
	"",
	"Close,Hi,Volume\n",
}

func c09CsvReuseUnit(c *core.Ctx) {
	read := func(cs *helper.Csv[csvReuseRow], doc string) string {
		rows := drain(cs.ReadFromReader(strings.NewReader(doc)))
		var sb strings.Builder
		for _, r := range rows {
			fmt.Fprintf(&sb, "%v;", *r)
		}
		return sb.String()
	}
	fresh := make([]string, len(csvReuseDocs))
	for _, header := range []bool{true, false} {
		for i, d := range csvReuseDocs {
			mc.Run(func() {
				cs, _ := helper.NewCsv[csvReuseRow](header)
				cs.Logger = quietLogger
				fresh[i] = read(cs, d)
			}, mc.Options{})
		}
		var seqs [][]int
		for a := range csvReuseDocs {
			for b := range csvReuseDocs {
				seqs = append(seqs, []int{a, b})
				if c.Thorough() || (a+b)%2 == 0 {
					for d := range csvReuseDocs {
						seqs = append(seqs, []int{a, b, d})
					}
				}
			}
		}
		for _, sq := range seqs {
			got := make([]string, len(sq))
			res := mc.Run(func() {
				cs, _ := helper.NewCsv[csvReuseRow](header)
				cs.Logger = quietLogger
				for i, di := range sq {
					got[i] = read(cs, csvReuseDocs[di])
				}
			}, mc.Options{})
			c.Executions++
			c.Transitions += int64(res.Events)
			c.States++
			c.Evaluations++
			c.Nontrivial++
			info := map[string]any{"header": header, "documents": sq}
			switch {
			case len(res.Panics) > 0:
				c.Fail("", fmt.Sprintf("one Csv object (header=%v) reading documents %v one after the other panics: %s", header, docsOf(sq), res.Panics[0].Value), info)
				continue
			case res.Deadlock:
				c.Fail("", fmt.Sprintf("one Csv object (header=%v) reading documents %v one after the other hangs or leaks a goroutine (%s)", header, docsOf(sq), blockedDesc(res)), info)
				continue
			}
			for i, di := range sq {
				if got[i] != fresh[di] {
					c.Fail("", fmt.Sprintf("one Csv object (header=%v) reading documents %v one after the other: read number %d delivered [%s], a fresh object reading that document delivers [%s]", header, docsOf(sq), i+1, got[i], fresh[di]), info)
					break
				}
			}
		}
	}
}

func docsOf(sq []int) []string {
	out := make([]string, len(sq))
	for i, d := range sq {
		out[i] = fmt.Sprintf("%q", csvReuseDocs[d])
	}
	return out
}
