package checks

import (
	"fmt"
	"math"

	"verifharness/core"
	"verifharness/explore"

	"github.com/cinar/indicator/v2/helper"
	"github.com/cinar/indicator/v2/verifmc/mc"
)

type fch = <-chan float64

// hcase is one stream helper with its slice model.
type hcase struct {
	name     string
	arity    int
	params   []int
	run      func(in []fch, p int) []fch
	model    func(in [][]float64, p int) [][]float64 // an entry of nil = termination only for that output
	consumes bool                                    // the helper promises to consume its inputs to the end
	skip     func(in [][]float64, p int) bool        // outside the helper's domain
	weight   int
}

func one(f func(fch, int) fch) func([]fch, int) []fch {
	return func(in []fch, p int) []fch { return []fch{f(in[0], p)} }
}

func apply1(xs []float64, f func(float64) float64) [][]float64 {
	o := make([]float64, len(xs))
	for i, x := range xs {
		o[i] = f(x)
	}
	return [][]float64{o}
}

func zip2(a, b []float64, f func(x, y float64) float64) [][]float64 {
	n := min(len(a), len(b))
	o := make([]float64, n)
	for i := 0; i < n; i++ {
		o[i] = f(a[i], b[i])
	}
	return [][]float64{o}
}

type fieldRow struct {
	A float64
	B float64
}

// FieldPrices is embedded by value and by pointer: Field resolves names the way FieldByName does, promoted fields included.
type FieldPrices struct {
	Open  float64
	Close float64
}
type fieldRowTail struct { // embedded struct not at offset 0
	Volume float64
	FieldPrices
}
type fieldRowHead struct { // embedded struct at offset 0
	FieldPrices
	Volume float64
}
type fieldRowPtr struct { // embedded pointer
	Volume float64
	*FieldPrices
}

func fieldLocalRowA(in fch, name string) fch {
	type Row struct {
		Open  float64
		Close float64
	}
	f, err := helper.Field[float64](helper.Map(in, func(x float64) *Row { return &Row{Open: x + 0.25, Close: x + 0.5} }), name)
	if err != nil {
		panic(err)
	}
	return f
}

func fieldLocalRowB(in fch, name string) fch {
	type Row struct {
		Close float64
		Open  float64
	}
	f, err := helper.Field[float64](helper.Map(in, func(x float64) *Row { return &Row{Open: x + 0.25, Close: x + 0.5} }), name)
	if err != nil {
		panic(err)
	}
	return f
}

func helperCases() []hcase {
	p07 := []int{0, 1, 2, 3, 4, 5, 6, 7}
	p17 := []int{1, 2, 3, 4, 5, 6, 7}
	none := []int{0}
	id := func(in [][]float64, _ int) [][]float64 { return [][]float64{in[0]} }
	return []hcase{
		{name: "Map", arity: 1, params: none, consumes: true,
			run: func(in []fch, _ int) []fch {
				return []fch{helper.Map(in[0], func(x float64) float64 { return x*10 + 1 })}
			},
			model: func(in [][]float64, _ int) [][]float64 {
				return apply1(in[0], func(x float64) float64 { return x*10 + 1 })
			}},
		{name: "Apply", arity: 1, params: none, consumes: true,
			run:   func(in []fch, _ int) []fch { return []fch{helper.Apply(in[0], func(x float64) float64 { return -x })} },
			model: func(in [][]float64, _ int) [][]float64 { return apply1(in[0], func(x float64) float64 { return -x }) }},
		{name: "Filter", arity: 1, params: []int{1, 2, 3}, consumes: true,
			run: func(in []fch, p int) []fch {
				return []fch{helper.Filter(in[0], func(x float64) bool { return x != float64(p) })}
			},
			model: func(in [][]float64, p int) [][]float64 {
				o := []float64{}
				for _, x := range in[0] {
					if x != float64(p) {
						o = append(o, x)
					}
				}
				return [][]float64{o}
			}},
		{name: "Skip", arity: 1, params: p07, consumes: true, run: one(func(c fch, p int) fch { return helper.Skip(c, p) }),
			model: func(in [][]float64, p int) [][]float64 { return [][]float64{in[0][min(p, len(in[0])):]} }},
		{name: "First", arity: 1, params: p07, consumes: true, run: one(func(c fch, p int) fch { return helper.First(c, p) }),
			model: func(in [][]float64, p int) [][]float64 { return [][]float64{in[0][:min(p, len(in[0]))]} }},
		{name: "Head", arity: 1, params: p07, consumes: false, run: one(func(c fch, p int) fch { return helper.Head(c, p) }),
			model: func(in [][]float64, p int) [][]float64 { return [][]float64{in[0][:min(p, len(in[0]))]} }},
		{name: "Last", arity: 1, params: p17, consumes: true, run: one(func(c fch, p int) fch { return helper.Last(c, p) }),
			model: func(in [][]float64, p int) [][]float64 { return [][]float64{in[0][max(0, len(in[0])-p):]} }},
		{name: "Shift", arity: 1, params: p07, consumes: true, run: one(func(c fch, p int) fch { return helper.Shift(c, p, 9) }),
			model: func(in [][]float64, p int) [][]float64 {
				o := []float64{}
				for i := 0; i < p; i++ {
					o = append(o, 9)
				}
				return [][]float64{append(o, in[0]...)}
			}},
		{name: "Buffered", arity: 1, params: p07, consumes: true, run: one(func(c fch, p int) fch { return helper.Buffered(c, p) }), model: id},
		{name: "Duplicate", arity: 1, params: []int{1, 2, 3, 4}, consumes: true,
			run: func(in []fch, p int) []fch { return helper.Duplicate(in[0], p) },
			model: func(in [][]float64, p int) [][]float64 {
				var o [][]float64
				for i := 0; i < p; i++ {
					o = append(o, in[0])
				}
				return o
			}},
		{name: "Count", arity: 1, params: []int{0, 5}, consumes: true,
			run: func(in []fch, p int) []fch { return []fch{helper.Count(float64(p), in[0])} },
			model: func(in [][]float64, p int) [][]float64 {
				o := []float64{}
				for i := range in[0] {
					o = append(o, float64(p+i))
				}
				return [][]float64{o}
			}},
		{name: "Since", arity: 1, params: none, consumes: true,
			run: func(in []fch, _ int) []fch { return []fch{helper.Since[float64, float64](in[0])} },
			model: func(in [][]float64, _ int) [][]float64 {
				o := []float64{}
				for i, x := range in[0] {
					if i > 0 && x == in[0][i-1] {
						o = append(o, o[i-1]+1)
					} else {
						o = append(o, 0)
					}
				}
				return [][]float64{o}
			}},
		{name: "Change", arity: 1, params: p07, consumes: true, run: one(func(c fch, p int) fch { return helper.Change(c, p) }),
			model: func(in [][]float64, p int) [][]float64 {
				o := []float64{}
				for i := p; i < len(in[0]); i++ {
					o = append(o, in[0][i]-in[0][i-p])
				}
				return [][]float64{o}
			}},
		{name: "ChangeRatio", arity: 1, params: p07, consumes: true, run: one(func(c fch, p int) fch { return helper.ChangeRatio(c, p) }),
			model: func(in [][]float64, p int) [][]float64 {
				o := []float64{}
				for i := p; i < len(in[0]); i++ {
					o = append(o, (in[0][i]-in[0][i-p])/in[0][i-p])
				}
				return [][]float64{o}
			}},
		{name: "ChangePercent", arity: 1, params: p07, consumes: true, run: one(func(c fch, p int) fch { return helper.ChangePercent(c, p) }),
			model: func(in [][]float64, p int) [][]float64 {
				o := []float64{}
				for i := p; i < len(in[0]); i++ {
					o = append(o, (in[0][i]-in[0][i-p])/in[0][i-p]*100)
				}
				return [][]float64{o}
			}},
		{name: "Operate", arity: 2, params: none, consumes: true,
			run: func(in []fch, _ int) []fch {
				return []fch{helper.Operate(in[0], in[1], func(a, b float64) float64 { return a*10 + b })}
			},
			model: func(in [][]float64, _ int) [][]float64 {
				return zip2(in[0], in[1], func(a, b float64) float64 { return a*10 + b })
			}},
		{name: "Add", arity: 2, params: none, consumes: true, run: func(in []fch, _ int) []fch { return []fch{helper.Add(in[0], in[1])} },
			model: func(in [][]float64, _ int) [][]float64 {
				return zip2(in[0], in[1], func(a, b float64) float64 { return a + b })
			}},
		{name: "Subtract", arity: 2, params: none, consumes: true, run: func(in []fch, _ int) []fch { return []fch{helper.Subtract(in[0], in[1])} },
			model: func(in [][]float64, _ int) [][]float64 {
				return zip2(in[0], in[1], func(a, b float64) float64 { return a - b })
			}},
		{name: "Multiply", arity: 2, params: none, consumes: true, run: func(in []fch, _ int) []fch { return []fch{helper.Multiply(in[0], in[1])} },
			model: func(in [][]float64, _ int) [][]float64 {
				return zip2(in[0], in[1], func(a, b float64) float64 { return a * b })
			}},
		{name: "Divide", arity: 2, params: none, consumes: true, run: func(in []fch, _ int) []fch { return []fch{helper.Divide(in[0], in[1])} },
			model: func(in [][]float64, _ int) [][]float64 {
				return zip2(in[0], in[1], func(a, b float64) float64 { return a / b })
			}},
		{name: "Operate3", arity: 3, params: none, consumes: true,
			run: func(in []fch, _ int) []fch {
				return []fch{helper.Operate3(in[0], in[1], in[2], func(a, b, c float64) float64 { return a*100 + b*10 + c })}
			},
			model: func(in [][]float64, _ int) [][]float64 {
				n := min(len(in[0]), len(in[1]), len(in[2]))
				o := make([]float64, n)
				for i := range o {
					o[i] = in[0][i]*100 + in[1][i]*10 + in[2][i]
				}
				return [][]float64{o}
			}},
		// zips whose longer inputs come from ONE upstream Duplicate: draining them must not depend on the order
		{name: "Operate3(x, dup0, dup1)", arity: 2, params: []int{0, 1, 2}, consumes: true,
			run: func(in []fch, p int) []fch {
				d := helper.Duplicate(in[1], 2)
				args := []fch{d[0], d[1]}
				args = append(args[:p], append([]fch{in[0]}, args[p:]...)...)
				return []fch{helper.Operate3(args[0], args[1], args[2], func(a, b, c float64) float64 { return a*100 + b*10 + c })}
			},
			model: func(in [][]float64, p int) [][]float64 {
				cols := [][]float64{in[1], in[1]}
				cols = append(cols[:p], append([][]float64{in[0]}, cols[p:]...)...)
				n := min(len(cols[0]), len(cols[1]), len(cols[2]))
				o := make([]float64, n)
				for i := range o {
					o[i] = cols[0][i]*100 + cols[1][i]*10 + cols[2][i]
				}
				return [][]float64{o}
			}},
		{name: "Operate(Skip(dup0), dup1)", arity: 1, params: []int{0, 1, 2, 3}, consumes: true,
			run: func(in []fch, p int) []fch {
				d := helper.Duplicate(in[0], 2)
				return []fch{helper.Operate(helper.Skip(d[0], p), helper.Buffered(d[1], p), func(a, b float64) float64 { return a*10 + b })}
			},
			model: func(in [][]float64, p int) [][]float64 {
				o := []float64{}
				for i := p; i < len(in[0]); i++ {
					o = append(o, in[0][i]*10+in[0][i-p])
				}
				return [][]float64{o}
			}},
		{name: "Pipe", arity: 1, params: []int{0, 1, 3}, consumes: true,
			run: func(in []fch, p int) []fch {
				t := make(chan float64, p)
				mc.Go(func() { helper.Pipe(in[0], t) })
				return []fch{t}
			}, model: id},
		{name: "Waitable", arity: 1, params: none, consumes: true,
			run: func(in []fch, _ int) []fch {
				wg := &mc.WaitGroup{}
				w := helper.Waitable(wg, in[0])
				done := make(chan float64, 1)
				mc.Go(func() { wg.Wait(); mc.Send(done, 7); mc.Close(done) })
				return []fch{w, done}
			},
			model: func(in [][]float64, _ int) [][]float64 { return [][]float64{in[0], {7}} }},
		{name: "Echo", arity: 1, params: []int{11, 12, 21, 22, 31, 13}, consumes: true, // p = last*10 + count
			run: one(func(c fch, p int) fch { return helper.Echo(c, p/10, p%10) }),
			model: func(in [][]float64, p int) [][]float64 {
				last, count := p/10, p%10
				if len(in[0]) < last {
					return [][]float64{nil} // fewer values than the memory: termination only
				}
				o := append([]float64{}, in[0]...)
				for i := 0; i < count; i++ {
					o = append(o, in[0][len(in[0])-last:]...)
				}
				return [][]float64{o}
			}},
		{name: "MapWithPrevious", arity: 1, params: none, consumes: true,
			run: func(in []fch, _ int) []fch {
				return []fch{helper.MapWithPrevious(in[0], func(prev, x float64) float64 { return prev*2 + x }, 1)}
			},
			model: func(in [][]float64, _ int) [][]float64 {
				o := []float64{}
				prev := 1.0
				for _, x := range in[0] {
					prev = prev*2 + x
					o = append(o, prev)
				}
				return [][]float64{o}
			}},
		{name: "Field", arity: 1, params: []int{0, 1, 2, 3, 4, 5, 6, 7, 8, 9}, consumes: true, // p selects the row shape and the field
			run: func(in []fch, p int) []fch {
				must := func(f <-chan float64, err error) []fch {
					if err != nil {
						panic(err)
					}
					return []fch{f}
				}
				switch p {
				case 0:
					return must(helper.Field[float64](helper.Map(in[0], func(x float64) *fieldRow { return &fieldRow{A: x, B: x + 0.5} }), "B"))
				case 1:
					return must(helper.Field[float64](helper.Map(in[0], func(x float64) *fieldRow { return &fieldRow{A: x + 0.5, B: x} }), "A"))
				case 2, 3:
					rows := helper.Map(in[0], func(x float64) *fieldRowTail { return &fieldRowTail{x + 100, FieldPrices{x + 0.25, x + 0.5}} })
					return must(helper.Field[float64](rows, []string{"Close", "Open"}[p-2]))
				case 4, 5:
					rows := helper.Map(in[0], func(x float64) *fieldRowHead { return &fieldRowHead{FieldPrices{x + 0.25, x + 0.5}, x + 100} })
					return must(helper.Field[float64](rows, []string{"Close", "Volume"}[p-4]))
				case 8:
					// two distinct struct types that print the same name (local types called Row in two functions) with the
					// fields in a different order: used one after the other in the same process
					helper.Drain(fieldLocalRowA(helper.SliceToChan([]float64{1, 2}), "Close"))
					return []fch{fieldLocalRowB(in[0], "Close")}
				case 9:
					helper.Drain(fieldLocalRowB(helper.SliceToChan([]float64{1, 2}), "Close"))
					return []fch{fieldLocalRowA(in[0], "Close")}
				default:
					rows := helper.Map(in[0], func(x float64) *fieldRowPtr { return &fieldRowPtr{x + 100, &FieldPrices{x + 0.25, x + 0.5}} })
					return must(helper.Field[float64](rows, []string{"Close", "Open"}[p-6]))
				}
			},
			model: func(in [][]float64, p int) [][]float64 {
				add := []float64{0.5, 0.5, 0.5, 0.25, 0.5, 100, 0.5, 0.25, 0.5, 0.5}[p]
				return apply1(in[0], func(x float64) float64 { return x + add })
			}},
		{name: "SliceToChan+ChanToSlice", arity: 1, params: none, consumes: true,
			run: func(in []fch, _ int) []fch {
				out := make(chan float64)
				mc.Go(func() {
					xs := helper.ChanToSlice(in[0])
					helper.Pipe(helper.SliceToChan(xs), out)
				})
				return []fch{out}
			}, model: id},
		{name: "Drain", arity: 1, params: none, consumes: true,
			run: func(in []fch, _ int) []fch {
				out := make(chan float64)
				mc.Go(func() { helper.Drain(in[0]); mc.Send(out, 1); mc.Close(out) })
				return []fch{out}
			}, model: func(in [][]float64, _ int) [][]float64 { return [][]float64{{1}} }},
		{name: "Seq", arity: 1, params: []int{0, 1, 3, 5}, consumes: false, // input unused; termination + documented prefix
			run: func(in []fch, p int) []fch {
				mc.Go(func() { helper.Drain(in[0]) })
				return []fch{helper.Seq(1, float64(p), 1)}
			},
			model: func(in [][]float64, p int) [][]float64 { return [][]float64{nil} }},
		{name: "SyncPeriod", arity: 1, params: []int{0, 1, 2, 3}, consumes: true, // common period 3, own period p
			run:   one(func(c fch, p int) fch { return helper.SyncPeriod(3, p, c) }),
			model: func(in [][]float64, p int) [][]float64 { return [][]float64{in[0][min(max(0, 3-p), len(in[0])):]} }},
		{name: "Abs/Sign/KeepPositives/KeepNegatives", arity: 1, params: none, consumes: true,
			run: func(in []fch, _ int) []fch {
				d := helper.Duplicate(helper.DecrementBy(in[0], 2), 4)
				return []fch{helper.Abs(d[0]), helper.Sign(d[1]), helper.KeepPositives(d[2]), helper.KeepNegatives(d[3])}
			},
			model: func(in [][]float64, _ int) [][]float64 {
				return [][]float64{
					apply1(in[0], func(x float64) float64 { return math.Abs(x - 2) })[0],
					apply1(in[0], func(x float64) float64 {
						switch {
						case x > 2:
							return 1
						case x < 2:
							return -1
						}
						return 0
					})[0],
					// "keep the positive (negative) values, replace the others with zero": NaN is neither
					apply1(in[0], func(x float64) float64 {
						if x-2 > 0 {
							return x - 2
						}
						return 0
					})[0],
					apply1(in[0], func(x float64) float64 {
						if x-2 < 0 {
							return x - 2
						}
						return 0
					})[0],
				}
			}},
		{name: "MultiplyBy/DivideBy/IncrementBy/Pow/Sqrt/RoundDigits", arity: 1, params: none, consumes: true,
			run: func(in []fch, _ int) []fch {
				d := helper.Duplicate(in[0], 6)
				return []fch{helper.MultiplyBy(d[0], 3), helper.DivideBy(d[1], 4), helper.IncrementBy(d[2], 5), helper.Pow(d[3], 2), helper.Sqrt(d[4]), helper.RoundDigits(helper.DivideBy(d[5], 3), 2)}
			},
			model: func(in [][]float64, _ int) [][]float64 {
				return [][]float64{
					apply1(in[0], func(x float64) float64 { return x * 3 })[0],
					apply1(in[0], func(x float64) float64 { return x / 4 })[0],
					apply1(in[0], func(x float64) float64 { return x + 5 })[0],
					apply1(in[0], func(x float64) float64 { return x * x })[0],
					apply1(in[0], math.Sqrt)[0],
					apply1(in[0], func(x float64) float64 { return math.Round(x/3*100) / 100 })[0],
				}
			}},
	}
}

// seqs enumerates all sequences over {0..k-1} of length 0..n (0 is the zero value of the
// element type: helpers that keep a "last seen" variable must not confuse it with "nothing seen").
func seqs(k, n int) [][]float64 {
	out := [][]float64{{}}
	prev := [][]float64{{}}
	for l := 1; l <= n; l++ {
		var cur [][]float64
		for _, s := range prev {
			for v := 0; v < k; v++ {
				t := append(append([]float64{}, s...), float64(v))
				cur = append(cur, t)
			}
		}
		out = append(out, cur...)
		prev = cur
	}
	return out
}

func helperInputs(arity int, thorough bool) [][][]float64 {
	var res [][][]float64
	switch arity {
	case 1:
		a := seqs(2, 5)
		if thorough {
			a = seqs(2, 6)
		}
		seen := map[string]bool{}
		for _, s := range append(a, seqs(3, 3)...) {
			k := fmt.Sprint(s)
			if !seen[k] {
				seen[k] = true
				res = append(res, [][]float64{s})
			}
		}
	case 2:
		ss := seqs(2, 3)
		if thorough {
			ss = seqs(2, 4)
		}
		for _, a := range ss {
			for _, b := range ss {
				res = append(res, [][]float64{a, b})
			}
		}
	case 3:
		ss := seqs(2, 2)
		if thorough {
			ss = seqs(2, 3)
		}
		for _, a := range ss {
			for _, b := range ss {
				for _, c := range ss {
					res = append(res, [][]float64{a, b, c})
				}
			}
		}
	}
	return res
}

func helperScenario(h hcase, in [][]float64, p, capacity int, want [][]float64) explore.Scenario {
	return func() explore.Exec {
		var sinks []*Sink[float64]
		body := func() {
			chans := make([]fch, len(in))
			for i := range in {
				chans[i] = Feed(in[i], capacity)
			}
			for _, o := range h.run(chans, p) {
				sinks = append(sinks, Collect(o))
			}
		}
		observe := func(res *mc.Result) (string, string) {
			out := ""
			viol := ""
			for i, s := range sinks {
				out += fmt.Sprintf("%v/%v;", s.Vals, s.Closed)
				if !s.Closed && viol == "" {
					viol = fmt.Sprintf("output %d was never closed (got %v so far)", i, s.Vals)
				}
				if i < len(want) && want[i] != nil && viol == "" && !eqF(s.Vals, want[i]) {
					viol = fmt.Sprintf("output %d = %v, slice model gives %v", i, s.Vals, want[i])
				}
			}
			if len(sinks) != len(want) && viol == "" {
				viol = fmt.Sprintf("%d outputs, model has %d", len(sinks), len(want))
			}
			if len(res.Panics) > 0 {
				out += "PANIC"
				if viol == "" {
					viol = "panic: " + res.Panics[0].Value
				}
			}
			if res.Deadlock {
				out += "DEADLOCK"
				if viol == "" && (h.consumes || !onlyProducersBlocked(res)) {
					viol = fmt.Sprintf("not all goroutines finished: %d blocked (%s); inputs were not consumed to the end or a stage is stuck", len(res.Blocked), blockedDesc(res))
				}
			}
			if res.Buffered > 0 && h.consumes && viol == "" {
				viol = fmt.Sprintf("%d values left unconsumed in channel buffers", res.Buffered)
			}
			return out, viol
		}
		return explore.Exec{Body: body, Observe: observe}
	}
}

// onlyProducersBlocked: every blocked goroutine is a harness producer blocked in
// a send (goroutine ids 1..arity are the producers, created first by the body).
func onlyProducersBlocked(res *mc.Result) bool {
	for _, b := range res.Blocked {
		if b.Kind != mc.OpSend {
			return false
		}
	}
	return true
}

func blockedDesc(res *mc.Result) string {
	s := ""
	for i, b := range res.Blocked {
		if i > 3 {
			s += "…"
			break
		}
		s += fmt.Sprintf("g%d:%s ", b.G, b.Kind)
	}
	return s
}

func eqF(a, b []float64) bool {
	if len(a) != len(b) {
		return false
	}
	for i := range a {
		if !bitsEq(a[i], b[i]) {
			return false
		}
	}
	return true
}

func helperUnit(c *core.Ctx, h hcase, params []int) {
	caps := []int{0, 1, 2}
	inputs := helperInputs(h.arity, c.Thorough())
	d := 1
	if c.Thorough() {
		d = 2
	}
	var scen, dporTraces int64
	outcomes := map[string]bool{}
	for _, in := range inputs {
		for _, p := range params {
			if h.skip != nil && h.skip(in, p) {
				continue
			}
			want := h.model(in, p)
			for _, cp := range caps {
				sc := helperScenario(h, in, p, cp, want)
				scen++
				report := func(st *explore.Stats, mode string) {
					c.Executions += int64(st.Executions)
					c.Transitions += int64(st.Events)
					if st.Internal != "" {
						c.InternalError(st.Internal)
					}
					if !st.Exhaustive {
						c.NotExhaustive(fmt.Sprintf("%s %s: %s", h.name, mode, st.CapHit))
					}
					for o := range st.Outcomes {
						outcomes[o] = true
					}
					if len(st.Outcomes) > 1 {
						c.Fail("", fmt.Sprintf("helper.%s input %v param %d capacity %d: %d different outcomes across schedules (%s): %v", h.name, in, p, cp, len(st.Outcomes), mode, st.OutcomeKeys()), map[string]any{"helper": h.name, "input": in, "param": p, "capacity": cp})
					}
					for _, v := range st.Violations {
						c.Fail("", fmt.Sprintf("helper.%s input %v param %d capacity %d (%s, schedule %v): %s", h.name, in, p, cp, mode, compact(v.Choices), v.Text), map[string]any{"helper": h.name, "input": in, "param": p, "capacity": cp, "choices": v.Choices})
						break
					}
				}
				s1 := explore.DPOR(sc, explore.Opts{MaxExec: 20000})
				dporTraces += int64(s1.Executions)
				report(s1, "DPOR")
				depth := d
				if len(in[0]) > 3 && depth > 1 {
					depth = 1
				}
				s2 := explore.DelayBounded(sc, depth, explore.Opts{MaxExec: 60000})
				report(s2, fmt.Sprintf("delay-bounded d<=%d", depth))
				if scen == 20 {
					c.Sample(map[string]any{"helper": h.name, "input": in, "param": p, "capacity": cp, "model": want, "dpor_traces": s1.Executions, "delay_bounded_executions": s2.Executions, "first_events": s1.SampleTrace})
				}
			}
		}
	}
	// element values that are no small integers: NaN, +Inf, a negative fraction, zero - the slice model is plain IEEE
	// arithmetic on the same values, so the results must agree bit for bit (one execution under the canonical schedule
	// per sequence; the schedules were explored above)
	special := []float64{math.NaN(), math.Inf(1), -1.5, 0, 7}
	maxL := map[int]int{1: 4, 2: 2, 3: 1}[h.arity]
	var one [][]float64
	var gen func(cur []float64)
	gen = func(cur []float64) {
		one = append(one, append([]float64{}, cur...))
		if len(cur) == maxL {
			return
		}
		for _, v := range special {
			gen(append(cur, v))
		}
	}
	gen(nil)
	var tuples [][][]float64
	switch h.arity {
	case 1:
		for _, a := range one {
			tuples = append(tuples, [][]float64{a})
		}
	case 2:
		for _, a := range one {
			for _, b := range one {
				tuples = append(tuples, [][]float64{a, b})
			}
		}
	case 3:
		for _, a := range one {
			for _, b := range one {
				for _, d := range one {
					tuples = append(tuples, [][]float64{a, b, d})
				}
			}
		}
	}
	for _, in := range tuples {
		for _, p := range params {
			if h.skip != nil && h.skip(in, p) {
				continue
			}
			st := explore.S0(helperScenario(h, in, p, 0, h.model(in, p)), explore.Opts{})
			scen++
			c.Executions += int64(st.Executions)
			c.Transitions += int64(st.Events)
			for _, v := range st.Violations {
				c.Fail("", fmt.Sprintf("helper.%s input %v param %d (non-integer element values, canonical schedule): %s", h.name, in, p, v.Text), map[string]any{"helper": h.name, "input": fmt.Sprint(in), "param": p})
				break
			}
		}
	}
	c.States += scen
	c.Evaluations += scen
	c.Nontrivial += int64(len(outcomes))
	c.Notes[fmt.Sprintf("helper.%s%v", h.name, params)] = map[string]any{"scenarios": scen, "dpor_traces": dporTraces, "distinct_outcomes": len(outcomes)}
}

func compact(ch []int) []int {
	// trailing zeros carry no information (canonical choice)
	n := len(ch)
	for n > 0 && ch[n-1] == 0 {
		n--
	}
	return ch[:n]
}

func init() {
	core.Register(&core.Check{
		ID:   "C16",
		Rule: "per helper: every input sequence over {0,1} up to length 5 (6 thorough) and over {0,1,2} up to length 3 (pairs/triples of unequal lengths for the zips) x every parameter of its domain in 0..7 x input capacity {0,1,2}; each scenario is a network of producers, the helper and independent readers explored by DPOR to completion (all Mazurkiewicz traces) and by delay-bounded DFS (d<=1 quick, d<=2 thorough on short inputs); oracle on every execution: outputs = slice model, outputs closed, inputs consumed (all goroutines finished, no buffered leftovers); states = scenarios, transitions = scheduler events, non-trivial = distinct observed outcomes",
		Assume: []string{"element type float64; helper parameters 0..7; Echo is value-checked only when the input is at least as long as its memory; Seq and Head are not required to consume their input",
			"DPOR independence relation (send/recv on one channel commute; same-side operations conflict) is cross-checked by the delay-bounded DFS, which assumes nothing"},
		Units: func(tier string) []core.Unit {
			var us []core.Unit
			for _, h := range helperCases() {
				h := h
				for _, p := range h.params {
					p := p
					us = append(us, core.Unit{Key: fmt.Sprintf("helper.%s(%d)", h.name, p), Cost: helperWeight(h, p), Run: func(c *core.Ctx) { helperUnit(c, h, []int{p}) }})
				}
			}
			return us
		},
	})
}

func helperWeight(h hcase, p int) int {
	switch h.name {
	case "ChangePercent":
		return 50
	case "ChangeRatio":
		return 40
	case "Change":
		return 15
	case "Duplicate":
		return 3 * p
	case "Abs/Sign/KeepPositives/KeepNegatives", "MultiplyBy/DivideBy/IncrementBy/Pow/Sqrt/RoundDigits":
		return 30
	case "Operate3":
		return 6
	}
	return 1 + h.arity
}
