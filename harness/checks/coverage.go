package checks

import (
	"encoding/json"
	"os"
	"sort"
	"strings"

	"verifharness/cat"
	"verifharness/core"
)

// catalogueCoverage compares the types with a Compute method found by instr in
// the repository's current tree with the catalogue entries, so that a type added
// by a change is visibly uncovered rather than silently ignored.
func catalogueCoverage(kind string) func() any {
	return func() any {
		b, err := os.ReadFile(os.Getenv("VERIF_META"))
		if err != nil {
			return map[string]any{"error": "instr metadata not available"}
		}
		var meta struct {
			Catalogue map[string][]string `json:"catalogue"`
		}
		if json.Unmarshal(b, &meta) != nil {
			return nil
		}
		have := map[string]bool{}
		if kind == "indicator" {
			for _, e := range cat.Inds {
				have[e.Name] = true
			}
		} else {
			for _, e := range cat.Strats {
				have[e.Name] = true
			}
		}
		total, covered := 0, 0
		var missing []string
		for key, types := range meta.Catalogue {
			if !strings.HasSuffix(key, ".Compute") {
				continue
			}
			pkg := strings.TrimSuffix(key, ".Compute")
			isStrat := strings.Contains(pkg, "/strategy")
			if (kind == "indicator") == isStrat {
				continue
			}
			short := pkg[strings.LastIndex(pkg, "/")+1:]
			for _, t := range types {
				if kind == "strategy" && !strings.HasSuffix(t, "Strategy") {
					continue
				}
				if kind == "strategy" && (short == "strategy" && t != "BuyAndHoldStrategy" || short == "decorator" || short == "compound") {
					continue // combinators are covered by C07 and the wrapper units
				}
				total++
				if have[short+"."+t] {
					covered++
				} else {
					missing = append(missing, short+"."+t)
				}
			}
		}
		sort.Strings(missing)
		return map[string]any{"kind": kind, "types_with_Compute_in_repository": total, "covered_by_catalogue": covered, "not_covered": missing}
	}
}

func init() {
	for _, id := range []string{"C01", "C02", "C03", "C04", "C09", "C15", "C18"} {
		if ch := core.Lookup(id); ch != nil {
			ch.Coverage = catalogueCoverage("indicator")
		}
	}
	for _, id := range []string{"C05", "C06", "C14"} {
		if ch := core.Lookup(id); ch != nil {
			ch.Coverage = catalogueCoverage("strategy")
		}
	}
}
