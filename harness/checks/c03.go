package checks

import (
	"fmt"
	"sort"
	"time"

	"verifharness/cat"
	"verifharness/core"
	"verifharness/explore"

	"github.com/cinar/indicator/v2/asset"
	"github.com/cinar/indicator/v2/helper"
	"github.com/cinar/indicator/v2/strategy"
	"github.com/cinar/indicator/v2/verifmc/mc"
)

// pipeScenario builds the network "one producer per input -> pipeline -> one
// independent reader per output" for an indicator entry.
func indPipeScenario(e *cat.Ind, cfg []float64, in [][]float64, capacity int) explore.Scenario {
	return func() explore.Exec {
		var sinks []*Sink[float64]
		body := func() {
			inst := e.New(cfg)
			chans := make([]cat.Ch, len(in))
			for i := range in {
				chans[i] = Feed(in[i], capacity)
			}
			for _, o := range inst.Compute(chans) {
				sinks = append(sinks, Collect(o))
			}
		}
		observe := func(res *mc.Result) (string, string) {
			out := ""
			for _, s := range sinks {
				out += fmtF(s.Vals) + fmt.Sprint(s.Closed) + ";"
			}
			return out, quiescenceVerdict(res, func() (int, int) {
				open := 0
				for _, s := range sinks {
					if !s.Closed {
						open++
					}
				}
				return open, len(sinks)
			})
		}
		return explore.Exec{Body: body, Observe: observe}
	}
}

func stratPipeScenario(mk func() strategy.Strategy, snaps []*asset.Snapshot, capacity int) explore.Scenario {
	return func() explore.Exec {
		var sink *Sink[strategy.Action]
		body := func() {
			sink = Collect(mk().Compute(Feed(snaps, capacity)))
		}
		observe := func(res *mc.Result) (string, string) {
			return fmt.Sprint(sink.Vals, sink.Closed), quiescenceVerdict(res, func() (int, int) {
				if sink.Closed {
					return 0, 1
				}
				return 1, 1
			})
		}
		return explore.Exec{Body: body, Observe: observe}
	}
}

// quiescenceVerdict is the C03 oracle at quiescence.
func quiescenceVerdict(res *mc.Result, outputs func() (open, total int)) string {
	switch {
	case len(res.Panics) > 0:
		return "panic in a pipeline goroutine: " + res.Panics[0].Value
	case res.Cut:
		return ""
	case res.Deadlock:
		return fmt.Sprintf("deadlock / leak: %d of %d goroutines are still blocked after the inputs were closed and every output had an independent reader (%s)", len(res.Blocked), res.Goroutines, blockedDesc(res))
	}
	if open, total := outputs(); open > 0 {
		return fmt.Sprintf("%d of %d outputs were never closed", open, total)
	}
	if res.Buffered > 0 {
		return fmt.Sprintf("%d values were left unconsumed in channel buffers", res.Buffered)
	}
	return ""
}

// lengthSet returns the input lengths explored for a warm-up w.
func lengthSet(w int, thorough bool) []int {
	if thorough {
		var all []int
		for n := 0; n <= 2*w+2; n++ {
			all = append(all, n)
		}
		return all
	}
	set := map[int]bool{0: true, 1: true, 2*w + 2: true}
	for _, n := range []int{w - 1, w, w + 1, w + 2, w + 3} {
		if n >= 0 {
			set[n] = true
		}
	}
	var out []int
	for n := range set {
		out = append(out, n)
	}
	sort.Ints(out)
	return out
}

func fixedRows(n int) [][5]float64 {
	rows := make([][5]float64, n)
	for i := range rows {
		rows[i] = sigmaBars[(i*7+i/3)%4] // the four bars with positive range and volume, in a fixed irregular order
	}
	return rows
}

var thoroughTier bool

// stoppedC03: set once the run's verdict is settled by a violation elsewhere (core.Stopped).
var stoppedC03 bool

type c03stats struct {
	scen, traces, s2 int64
}

func exploreClean(c *core.Ctx, label string, sc explore.Scenario, idx int, st3 *c03stats, cs map[string]any) {
	if idx%8 == 0 && core.Stopped() {
		c.NotExhaustive("an unexplained violation was found by another unit: remaining scenarios not run")
		stoppedC03 = true
	}
	if stoppedC03 {
		return
	}
	st := explore.DPOR(sc, explore.Opts{Races: true, MaxExec: 2000, Budget: 30 * time.Second})
	st3.scen++
	st3.traces += int64(st.Executions)
	c.Executions += int64(st.Executions)
	c.Transitions += int64(st.Events)
	if st.Internal != "" {
		c.InternalError(label + ": " + st.Internal)
		return
	}
	if !st.Exhaustive {
		c.NotExhaustive("DPOR cap on some pipelines: " + st.CapHit)
	}
	if st.Executions > 1 {
		c.Count("scenarios with more than one Mazurkiewicz trace", 1)
	}
	report := func(s *explore.Stats, mode string) {
		if len(s.Outcomes) > 1 {
			c.Fail("", fmt.Sprintf("%s: %d different outcomes depending on the schedule (%s)", label, len(s.Outcomes), mode), cs)
		}
		for _, v := range s.Violations {
			c.Fail("", fmt.Sprintf("%s (%s, schedule %v): %s", label, mode, compact(v.Choices), v.Text), cs)
			break
		}
		for pair := range s.RacePairs {
			c.Fail(raceKey(pair), fmt.Sprintf("%s: data race between %s", label, pair), cs)
		}
	}
	report(st, "DPOR")
	if (thoroughTier && idx%16 == 0) || idx%64 == 0 {
		// auxiliary: a prefix (in DFS order) of the one-deviation space, no independence assumed; DPOR above is the deciding exploration
		s2 := explore.DelayBounded(sc, 1, explore.Opts{MaxExec: 600, Budget: 20 * time.Second})
		st3.s2 += int64(s2.Executions)
		c.Executions += int64(s2.Executions)
		c.Transitions += int64(s2.Events)
		for o := range s2.Outcomes {
			if st.Outcomes[o] == 0 && st.Exhaustive {
				c.Fail("", fmt.Sprintf("%s: delay-bounded search found an outcome DPOR did not", label), cs)
			}
		}
		report(s2, "delay-bounded d<=1")
	}
}

func indPipeUnit(c *core.Ctx, e *cat.Ind, cfg []float64) {
	thoroughTier = c.Thorough()
	inst := e.New(cfg)
	w := inst.Idle
	label := e.Name + fmtCfg(cfg)
	var st c03stats
	idx := 0
	for _, n := range lengthSet(w, c.Thorough()) {
		// length skews for multi-input indicators: equal lengths, then every input in turn much shorter (by up to 6) and longer by 2
		// (which input ends first decides which stage starts draining which branch)
		skews := [][]int{make([]int, len(e.In))}
		if len(e.In) > 1 {
			for f := range e.In {
				// much shorter (more leftover on the other inputs than the slack of the intermediate stages) and a little longer
				for _, d := range []int{-min(6, n), 2} {
					sk := make([]int, len(e.In))
					sk[f] = d
					skews = append(skews, sk)
				}
			}
		}
		for _, sk := range skews {
			for _, capacity := range []int{0, 1, 3} {
				in := make([][]float64, len(e.In))
				for f := range e.In {
					ln := n + sk[f]
					if ln < 0 {
						ln = 0
					}
					rows := fixedRows(ln)
					col := make([]float64, ln)
					for i := range col {
						if idxF, ok := fieldIdx[e.In[f]]; ok {
							col[i] = rows[i][idxF]
						} else {
							col[i] = rows[i][3] + float64(f)
						}
					}
					in[f] = col
				}
				idx++
				cs := map[string]any{"indicator": e.Name, "config": cfg, "input_lengths": lens(in), "capacity": capacity}
				exploreClean(c, fmt.Sprintf("%s lengths %v input capacity %d", label, lens(in), capacity), indPipeScenario(e, cfg, in, capacity), idx, &st, cs)
				if idx == 5 {
					c.Sample(cs)
				}
			}
		}
	}
	c.States += st.scen
	c.Evaluations += st.scen
	c.Nontrivial += st.scen
	c.Notes[label] = map[string]any{"scenarios": st.scen, "dpor_traces": st.traces, "delay_bounded_executions": st.s2, "idle": w}
}

func lens(in [][]float64) []int {
	o := make([]int, len(in))
	for i := range in {
		o[i] = len(in[i])
	}
	return o
}

func stratPipeUnit(c *core.Ctx, e *cat.Strat, cfg []float64) {
	thoroughTier = c.Thorough()
	w := e.Warm(cfg)
	label := e.Name + fmtCfg(cfg)
	var st c03stats
	idx := 0
	for _, n := range lengthSet(w, c.Thorough()) {
		for _, capacity := range []int{0, 1, 3} {
			snaps := cat.Snapshots(fixedRows(n))
			idx++
			cs := map[string]any{"strategy": e.Name, "config": cfg, "snapshots": n, "capacity": capacity}
			exploreClean(c, fmt.Sprintf("%s on %d snapshots input capacity %d", label, n, capacity), stratPipeScenario(func() strategy.Strategy { return e.New(cfg) }, snaps, capacity), idx, &st, cs)
		}
	}
	c.States += st.scen
	c.Evaluations += st.scen
	c.Nontrivial += st.scen
	c.Notes[label] = map[string]any{"scenarios": st.scen, "dpor_traces": st.traces, "delay_bounded_executions": st.s2, "warmup": w}
}

// helperComp is a small network of stream helpers whose termination follows from the
// mechanism the property is anchored in: "Operate/Operate3/First drain the longer input
// after the shorter ends" - a stage that ends its output early closes it THEN and keeps
// consuming its input, so that a sibling branch fed by the same Duplicate is never starved.
type helperComp struct {
	name  string
	build func(in <-chan float64, k, k2 int) <-chan float64
	model func(in []float64, k, k2 int) []float64
}

func firstN(xs []float64, k int) []float64 {
	if k > len(xs) {
		k = len(xs)
	}
	if k < 0 {
		k = 0
	}
	return xs[:k]
}

var helperComps = []helperComp{
	{"Add(First(d0,k),d1) over Duplicate(2)", func(in <-chan float64, k, k2 int) <-chan float64 {
		d := helper.Duplicate(in, 2)
		return helper.Add(helper.First(d[0], k), d[1])
	}, func(in []float64, k, k2 int) []float64 {
		var o []float64
		for _, v := range firstN(in, k) {
			o = append(o, v+v)
		}
		return o
	}},
	{"Add(d0,First(d1,k)) over Duplicate(2)", func(in <-chan float64, k, k2 int) <-chan float64 {
		d := helper.Duplicate(in, 2)
		return helper.Add(d[0], helper.First(d[1], k))
	}, func(in []float64, k, k2 int) []float64 {
		var o []float64
		for _, v := range firstN(in, k) {
			o = append(o, v+v)
		}
		return o
	}},
	{"Add(First(d0,k),First(d1,k2)) over Duplicate(2)", func(in <-chan float64, k, k2 int) <-chan float64 {
		d := helper.Duplicate(in, 2)
		return helper.Add(helper.First(d[0], k), helper.First(d[1], k2))
	}, func(in []float64, k, k2 int) []float64 {
		var o []float64
		for _, v := range firstN(in, min(k, k2)) {
			o = append(o, v+v)
		}
		return o
	}},
	{"Operate3(First(d0,k),d1,First(d2,k2)) over Duplicate(3)", func(in <-chan float64, k, k2 int) <-chan float64 {
		d := helper.Duplicate(in, 3)
		return helper.Operate3(helper.First(d[0], k), d[1], helper.First(d[2], k2), func(a, b, c float64) float64 { return a + 2*b + 4*c })
	}, func(in []float64, k, k2 int) []float64 {
		var o []float64
		for _, v := range firstN(in, min(k, k2)) {
			o = append(o, 7*v)
		}
		return o
	}},
	{"Add(Add(First(d0,k),d1),d2) over Duplicate(3)", func(in <-chan float64, k, k2 int) <-chan float64 {
		d := helper.Duplicate(in, 3)
		return helper.Add(helper.Add(helper.First(d[0], k), d[1]), d[2])
	}, func(in []float64, k, k2 int) []float64 {
		var o []float64
		for _, v := range firstN(in, k) {
			o = append(o, 3*v)
		}
		return o
	}},
	{"First(First(in,k),k2)", func(in <-chan float64, k, k2 int) <-chan float64 {
		return helper.First(helper.First(in, k), k2)
	}, func(in []float64, k, k2 int) []float64 {
		return append([]float64(nil), firstN(firstN(in, k), k2)...)
	}},
	{"Add(First(Map(d0),k),Map(d1)) over Duplicate(2)", func(in <-chan float64, k, k2 int) <-chan float64 {
		d := helper.Duplicate(in, 2)
		id := func(v float64) float64 { return v }
		return helper.Add(helper.First(helper.Map(d[0], id), k), helper.Map(d[1], id))
	}, func(in []float64, k, k2 int) []float64 {
		var o []float64
		for _, v := range firstN(in, k) {
			o = append(o, v+v)
		}
		return o
	}},
}

func helperCompUnit(c *core.Ctx, hc helperComp) {
	thoroughTier = c.Thorough()
	maxN := 5
	if c.Thorough() {
		maxN = 8
	}
	var st c03stats
	idx := 0
	for n := 0; n <= maxN; n++ {
		in := make([]float64, n)
		for i := range in {
			in[i] = float64(i + 1)
		}
		for k := 0; k <= n+1; k++ {
			for _, k2 := range []int{0, k, k + 1, n + 1} {
				for _, capacity := range []int{0, 1, 2} {
					k, k2, capacity := k, k2, capacity
					want := hc.model(in, k, k2)
					sc := func() explore.Exec {
						var sink *Sink[float64]
						body := func() { sink = Collect(hc.build(Feed(in, capacity), k, k2)) }
						observe := func(res *mc.Result) (string, string) {
							v := quiescenceVerdict(res, func() (int, int) {
								if sink.Closed {
									return 0, 1
								}
								return 1, 1
							})
							if v == "" && !res.Cut && fmtF(sink.Vals) != fmtF(want) {
								v = fmt.Sprintf("output %s, the slice model gives %s", fmtF(sink.Vals), fmtF(want))
							}
							return fmtF(sink.Vals) + fmt.Sprint(sink.Closed), v
						}
						return explore.Exec{Body: body, Observe: observe}
					}
					idx++
					cs := map[string]any{"network": hc.name, "input": in, "k": k, "k2": k2, "capacity": capacity}
					exploreClean(c, fmt.Sprintf("helper network %s, input length %d, k=%d k2=%d, input capacity %d", hc.name, n, k, k2, capacity), sc, idx, &st, cs)
				}
			}
		}
	}
	c.States += st.scen
	c.Evaluations += st.scen
	c.Nontrivial += st.scen
	c.Notes["helpers: "+hc.name] = map[string]any{"scenarios": st.scen, "dpor_traces": st.traces, "delay_bounded_executions": st.s2, "max_input_length": maxN}
}

func init() {
	core.Register(&core.Check{
		ID:     "C03",
		Rule:   "for every catalogued indicator and strategy (base, decorated, compound) x every configuration of the deep period box x input lengths {0,1,w-1..w+3,2w+2} (all of 0..2w+2 in the thorough tier) x input channel capacity {0,1,3} x unequal input lengths for multi-input indicators (each input in turn up to 6 shorter / 2 longer): the network producers -> pipeline -> independent readers is explored by DPOR with sleep sets over ALL Mazurkiewicz traces (a clean Kahn network has exactly one, which DPOR establishes dynamically by finding no conflicting co-enabled operations), plus an auxiliary delay-bounded (d<=1) search without independence assumptions, cut at 600 executions, on every 64th scenario (16th in the thorough tier); oracle at quiescence: no goroutine left, every output closed, no buffered leftovers, no panic, identical outputs on every schedule, no happens-before race; in addition seven networks of stream helpers whose termination follows from the anchored mechanism 'Operate/Operate3/First drain the longer input after the shorter ends' (First/Add/Operate3/Map over the branches of one Duplicate, all input lengths to 5 (8), all k, capacities {0,1,2}) with the same oracle plus equality with the slice model; plus every catalogued configuration shape with its periods multiplied by 70 (thorough: 150, 330) on inputs of w+3 and 2w+2 values under DPOR (termination that rests on a constant amount of buffering between branches lagging by a period difference); plus 40 pipelines of every indicator side by side in one execution and a Majority over 40 instances of every strategy (canonical schedule: anything shared between pipelines process-wide); states = scenarios, transitions = scheduler events",
		Assume: []string{"input values are a fixed irregular series (termination depends on lengths, not values)", "the scheduler models Go's channel/WaitGroup/Mutex semantics at operation granularity; the number of OS threads is irrelevant for a data-race-free program and race freedom is checked on every explored execution"},
		Units: func(tier string) []core.Unit {
			var us []core.Unit
			for _, e := range cat.Inds {
				e := e
				for _, cfg := range e.Cfgs(true) {
					cfg := cfg
					w := e.New(cfg).Idle
					us = append(us, core.Unit{Key: e.Name + fmtCfg(cfg), Cost: (3 + w) * (1 + len(e.In)), Run: func(c *core.Ctx) { indPipeUnit(c, e, cfg) }})
				}
			}
			for _, e := range cat.Strats {
				e := e
				for _, cfg := range e.Cfgs(true) {
					cfg := cfg
					us = append(us, core.Unit{Key: e.Name + fmtCfg(cfg), Cost: 2 * (3 + e.Warm(cfg)), Run: func(c *core.Ctx) { stratPipeUnit(c, e, cfg) }})
				}
			}
			for _, e := range wrapperEntries() {
				e := e
				us = append(us, core.Unit{Key: e.Name, Cost: 3 * (3 + e.Warm(nil)), Run: func(c *core.Ctx) { stratPipeUnit(c, e, []float64{}) }})
			}
			for _, e := range cat.Inds {
				e := e
				us = append(us, core.Unit{Key: "large periods: " + e.Name, Cost: 120, First: true, Run: func(c *core.Ctx) { indLargeUnit(c, e) }})
			}
			for _, e := range cat.Strats {
				e := e
				us = append(us, core.Unit{Key: "large periods: " + e.Name, Cost: 160, First: true, Run: func(c *core.Ctx) { stratLargeUnit(c, e) }})
			}
			for _, e := range cat.Inds {
				e := e
				us = append(us, core.Unit{Key: "wide: " + e.Name, Cost: 80, First: true, Run: func(c *core.Ctx) { indWideUnit(c, e) }})
			}
			for _, e := range cat.Strats {
				e := e
				us = append(us, core.Unit{Key: "wide: " + e.Name, Cost: 80, First: true, Run: func(c *core.Ctx) { stratWideUnit(c, e) }})
			}
			for _, hc := range helperComps {
				hc := hc
				us = append(us, core.Unit{Key: "helpers: " + hc.name, Cost: 8, Run: func(c *core.Ctx) { helperCompUnit(c, hc) }})
			}
			return us
		},
	})
}
