package checks

import (
	"reflect"
	"strings"

	"verifharness/cat"
	"verifharness/core"
	"verifharness/ref"

	"github.com/cinar/indicator/v2/strategy"
)

// Non-default smoothing. The exponential averages carry a second exported, documented configuration field next to their
// period (Ema.Smoothing, Apo.FastSmoothing / SlowSmoothing; multiplier = smoothing / (period + 1)). The period boxes leave
// it at its default of 2, so a composite that rebuilds its members from their periods alone is indistinguishable from one
// that uses the configured objects. These variants set every such field reachable through exported fields of the real
// object to altSmoothing and evaluate the references with the same constant.

const altSmoothing = 1.5

// setSmoothing sets every float field whose name ends in "Smoothing", reachable through exported fields, pointers and
// interfaces; it returns the number of fields set.
func setSmoothing(obj any, v float64) int {
	seen := map[uintptr]bool{}
	var walk func(x reflect.Value) int
	walk = func(x reflect.Value) int {
		switch x.Kind() {
		case reflect.Ptr:
			if x.IsNil() || seen[x.Pointer()] {
				return 0
			}
			seen[x.Pointer()] = true
			return walk(x.Elem())
		case reflect.Interface:
			if x.IsNil() {
				return 0
			}
			return walk(x.Elem())
		case reflect.Struct:
			n := 0
			for i := 0; i < x.NumField(); i++ {
				f := x.Type().Field(i)
				if !f.IsExported() {
					continue
				}
				fv := x.Field(i)
				if strings.HasSuffix(f.Name, "Smoothing") && (fv.Kind() == reflect.Float64 || fv.Kind() == reflect.Float32) && fv.CanSet() {
					fv.SetFloat(v)
					n++
					continue
				}
				n += walk(fv)
			}
			return n
		case reflect.Slice:
			n := 0
			for i := 0; i < x.Len(); i++ {
				n += walk(x.Index(i))
			}
			return n
		}
		return 0
	}
	return walk(reflect.ValueOf(obj))
}

const smoothingSuffix = " (smoothing 1.5)"

// smoothedInd returns the variant entry of an indicator, or nil when it has no smoothing field.
func smoothedInd(e *cat.Ind) *cat.Ind {
	cfgs := e.Cfgs(false)
	if len(cfgs) == 0 || setSmoothing(e.New(cfgs[0]).Obj, altSmoothing) == 0 {
		return nil
	}
	v := *e
	v.Name = e.Name + smoothingSuffix
	v.New = func(cfg []float64) *cat.Inst {
		inst := e.New(cfg)
		setSmoothing(inst.Obj, altSmoothing)
		return inst
	}
	return &v
}

// smoothedStrat is the same for a strategy.
func smoothedStrat(e *cat.Strat) *cat.Strat {
	cfgs := e.Cfgs(false)
	if len(cfgs) == 0 || e.Rule == nil || setSmoothing(e.New(cfgs[0]), altSmoothing) == 0 {
		return nil
	}
	v := *e
	v.Name = e.Name + smoothingSuffix
	v.New = func(cfg []float64) strategy.Strategy {
		s := e.New(cfg)
		setSmoothing(s, altSmoothing)
		return s
	}
	return &v
}

// withSmoothing runs a unit body with the references built on the alternative constant.
func withSmoothing(run func(c *core.Ctx)) func(c *core.Ctx) {
	return func(c *core.Ctx) {
		ref.EmaSmoothing = altSmoothing
		defer func() { ref.EmaSmoothing = 2 }()
		run(c)
	}
}
