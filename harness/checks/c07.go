package checks

import (
	"fmt"
	"math"
	"time"

	"verifharness/core"

	"github.com/cinar/indicator/v2/asset"
	"github.com/cinar/indicator/v2/helper"
	"github.com/cinar/indicator/v2/momentum"
	"github.com/cinar/indicator/v2/strategy"
	"github.com/cinar/indicator/v2/strategy/compound"
	"github.com/cinar/indicator/v2/strategy/decorator"
	"github.com/cinar/indicator/v2/trend"
	"github.com/cinar/indicator/v2/verifmc/mc"
)

// stubStrategy replays a scripted action word, one action per snapshot.
type stubStrategy struct {
	word []strategy.Action
}

func (s *stubStrategy) Name() string { return "stub" }
func (s *stubStrategy) Compute(snapshots <-chan *asset.Snapshot) <-chan strategy.Action {
	out := make(chan strategy.Action)
	mc.Go(func() {
		i := 0
		for {
			_, ok := mc.Recv2(snapshots)
			if !ok {
				break
			}
			if i < len(s.word) {
				mc.Send(out, s.word[i])
			}
			i++
		}
		mc.Close(out)
	})
	return out
}
func (s *stubStrategy) Report(c <-chan *asset.Snapshot) *helper.Report { return nil }

var closeAlphabet = []float64{1, 2, 4, 3}

func closeSnaps(closings []float64) []*asset.Snapshot {
	t0 := time.Date(2020, 1, 1, 0, 0, 0, 0, time.UTC)
	out := make([]*asset.Snapshot, len(closings))
	for i, c := range closings {
		out[i] = &asset.Snapshot{Date: t0.AddDate(0, 0, i), Open: c, High: c, Low: c, Close: c, Volume: 1}
	}
	return out
}

type actFn func(subs [][]strategy.Action, closings []float64) []strategy.Action

func vote(subs [][]strategy.Action, n int, f func(buy, hold, sell int) strategy.Action) []strategy.Action {
	den := make([][]strategy.Action, len(subs))
	for i, s := range subs {
		den[i] = refDenormalize(s)
	}
	out := make([]strategy.Action, n)
	for i := 0; i < n; i++ {
		var b, h, s int
		for _, d := range den {
			switch d[i] {
			case strategy.Buy:
				b++
			case strategy.Sell:
				s++
			default:
				h++
			}
		}
		out[i] = f(b, h, s)
	}
	return out
}

func modelAnd(subs [][]strategy.Action, cl []float64) []strategy.Action {
	k := len(subs)
	return vote(subs, len(cl), func(b, h, s int) strategy.Action {
		switch {
		case s == k:
			return strategy.Sell
		case b == k:
			return strategy.Buy
		}
		return strategy.Hold
	})
}

func modelOr(subs [][]strategy.Action, cl []float64) []strategy.Action {
	return vote(subs, len(cl), func(b, h, s int) strategy.Action {
		switch {
		case s > 0 && b == 0:
			return strategy.Sell
		case b > 0 && s == 0:
			return strategy.Buy
		}
		return strategy.Hold
	})
}

func modelMajority(subs [][]strategy.Action, cl []float64) []strategy.Action {
	return vote(subs, len(cl), func(b, h, s int) strategy.Action {
		switch {
		case s > b && s > h:
			return strategy.Sell
		case b > s && b > h:
			return strategy.Buy
		}
		return strategy.Hold
	})
}

func modelSplit(subs [][]strategy.Action, cl []float64) []strategy.Action {
	out := make([]strategy.Action, len(cl))
	for i := range cl {
		b, s := subs[0][i] == strategy.Buy, subs[1][i] == strategy.Sell
		switch {
		case b && !s:
			out[i] = strategy.Buy
		case s && !b:
			out[i] = strategy.Sell
		}
	}
	return out
}

func modelInverse(a []strategy.Action) []strategy.Action {
	out := make([]strategy.Action, len(a))
	for i, x := range a {
		out[i] = -x
	}
	return out
}

func modelNoLoss(a []strategy.Action, cl []float64) []strategy.Action {
	out := make([]strategy.Action, len(a))
	invested, at := false, 0.0
	for i, x := range a {
		switch {
		case x == strategy.Buy && !invested:
			invested, at = true, cl[i]
			out[i] = strategy.Buy
		case x == strategy.Sell && invested && cl[i] > at:
			invested = false
			out[i] = strategy.Sell
		}
	}
	return out
}

func modelStopLoss(a []strategy.Action, cl []float64, pct float64) []strategy.Action {
	out := make([]strategy.Action, len(a))
	invested, stop := false, 0.0
	for i, x := range a {
		switch {
		case x == strategy.Buy && !invested:
			invested, stop = true, cl[i]*(1-pct)
			out[i] = strategy.Buy
		case invested && (x == strategy.Sell || cl[i] <= stop):
			invested = false
			out[i] = strategy.Sell
		}
	}
	return out
}

// safety invariants of the statement, evaluated on whole histories
func noLossInvariant(out []strategy.Action, cl []float64) string {
	last := -1
	for i, x := range out {
		if x == strategy.Buy {
			last = i
		}
		if x == strategy.Sell && last >= 0 && !(cl[i] > cl[last]) {
			return fmt.Sprintf("sells at close %v (position %d) which is not above the close %v of the preceding Buy (position %d)", cl[i], i, cl[last], last)
		}
	}
	return ""
}

func stopLossInvariant(out []strategy.Action, cl []float64, pct float64) string {
	for j, x := range out {
		if x != strategy.Buy {
			continue
		}
		limit := cl[j] * (1 - pct)
		for i := j + 1; i < len(out); i++ {
			if out[i] == strategy.Sell {
				break
			}
			if out[i] == strategy.Buy {
				break
			}
			if cl[i] <= limit {
				return fmt.Sprintf("bought at close %v (position %d), close %v at position %d is at or below %v x (1 - %v) but no Sell was emitted by then", cl[j], j, cl[i], i, cl[j], pct)
			}
		}
	}
	return ""
}

type combo struct {
	name  string
	k     int // number of stub strategies
	build func(stubs []strategy.Strategy) strategy.Strategy
	model func(subs [][]strategy.Action, cl []float64) []strategy.Action
	inv   func(out []strategy.Action, cl []float64) string
	needs bool // closings matter (decorators): enumerate closing words too
}

func combos() []combo {
	cs := []combo{}
	for k := 1; k <= 6; k++ {
		k := k
		cs = append(cs,
			combo{name: fmt.Sprintf("And/%d", k), k: k, build: func(s []strategy.Strategy) strategy.Strategy { return strategy.NewAndStrategy("and", s...) }, model: modelAnd},
			combo{name: fmt.Sprintf("Or/%d", k), k: k, build: func(s []strategy.Strategy) strategy.Strategy { return strategy.NewOrStrategy("or", s...) }, model: modelOr},
			combo{name: fmt.Sprintf("Majority/%d", k), k: k, build: func(s []strategy.Strategy) strategy.Strategy { return strategy.NewMajorityStrategyWith("maj", s) }, model: modelMajority},
		)
	}
	cs = append(cs, combo{name: "Split", k: 2, build: func(s []strategy.Strategy) strategy.Strategy { return strategy.NewSplitStrategy(s[0], s[1]) }, model: modelSplit})
	cs = append(cs, combo{name: "Inverse", k: 1, build: func(s []strategy.Strategy) strategy.Strategy { return decorator.NewInverseStrategy(s[0]) },
		model: func(subs [][]strategy.Action, cl []float64) []strategy.Action { return modelInverse(subs[0]) }})
	cs = append(cs, combo{name: "NoLoss", k: 1, needs: true, build: func(s []strategy.Strategy) strategy.Strategy { return decorator.NewNoLossStrategy(s[0]) },
		model: func(subs [][]strategy.Action, cl []float64) []strategy.Action { return modelNoLoss(subs[0], cl) }, inv: noLossInvariant})
	for _, pct := range []float64{0, 0.25, 0.5, 1} {
		pct := pct
		cs = append(cs, combo{name: fmt.Sprintf("StopLoss(%v)", pct), k: 1, needs: true,
			build: func(s []strategy.Strategy) strategy.Strategy { return decorator.NewStopLossStrategy(s[0], pct) },
			model: func(subs [][]strategy.Action, cl []float64) []strategy.Action { return modelStopLoss(subs[0], cl, pct) },
			inv:   func(out []strategy.Action, cl []float64) string { return stopLossInvariant(out, cl, pct) }})
	}
	// the decorators are plain structs with exported, documented fields: assembled as composite literals, and with the
	// percentage assigned after construction (a parameter sweep on one object), they follow the same rules
	cs = append(cs,
		combo{name: "StopLoss literal(0.25)", k: 1, needs: true,
			build: func(s []strategy.Strategy) strategy.Strategy {
				return &decorator.StopLossStrategy{InnertStrategy: s[0], Percentage: 0.25}
			},
			model: func(subs [][]strategy.Action, cl []float64) []strategy.Action {
				return modelStopLoss(subs[0], cl, 0.25)
			},
			inv: func(out []strategy.Action, cl []float64) string { return stopLossInvariant(out, cl, 0.25) }},
		combo{name: "StopLoss(0.5) then Percentage=0.25", k: 1, needs: true,
			build: func(s []strategy.Strategy) strategy.Strategy {
				d := decorator.NewStopLossStrategy(s[0], 0.5)
				d.Percentage = 0.25
				return d
			},
			model: func(subs [][]strategy.Action, cl []float64) []strategy.Action {
				return modelStopLoss(subs[0], cl, 0.25)
			},
			inv: func(out []strategy.Action, cl []float64) string { return stopLossInvariant(out, cl, 0.25) }},
		combo{name: "NoLoss literal", k: 1, needs: true,
			build: func(s []strategy.Strategy) strategy.Strategy { return &decorator.NoLossStrategy{InnertStrategy: s[0]} },
			model: func(subs [][]strategy.Action, cl []float64) []strategy.Action { return modelNoLoss(subs[0], cl) }, inv: noLossInvariant},
		combo{name: "Inverse literal", k: 1,
			build: func(s []strategy.Strategy) strategy.Strategy { return &decorator.InverseStrategy{InnerStrategy: s[0]} },
			model: func(subs [][]strategy.Action, cl []float64) []strategy.Action { return modelInverse(subs[0]) }},
		combo{name: "And literal/2", k: 2,
			build: func(s []strategy.Strategy) strategy.Strategy { return &strategy.AndStrategy{Strategies: s} }, model: modelAnd},
		combo{name: "Or literal/2", k: 2,
			build: func(s []strategy.Strategy) strategy.Strategy { return &strategy.OrStrategy{Strategies: s} }, model: modelOr},
		combo{name: "Majority literal/3", k: 3,
			build: func(s []strategy.Strategy) strategy.Strategy { return &strategy.MajorityStrategy{Strategies: s} }, model: modelMajority},
		combo{name: "Split literal", k: 2,
			build: func(s []strategy.Strategy) strategy.Strategy {
				return &strategy.SplitStrategy{BuyStrategy: s[0], SellStrategy: s[1]}
			}, model: modelSplit},
	)
	// one strategy OBJECT listed more than once (a vote in which it counts twice, one strategy for both sides of a split):
	// every listing is a member of its own
	rep := func(subs [][]strategy.Action, ix ...int) [][]strategy.Action {
		out := make([][]strategy.Action, len(ix))
		for i, j := range ix {
			out[i] = subs[j]
		}
		return out
	}
	cs = append(cs,
		combo{name: "And{x,x}", k: 1, build: func(s []strategy.Strategy) strategy.Strategy { return strategy.NewAndStrategy("and", s[0], s[0]) },
			model: func(subs [][]strategy.Action, cl []float64) []strategy.Action { return modelAnd(rep(subs, 0, 0), cl) }},
		combo{name: "Or{x,x}", k: 1, build: func(s []strategy.Strategy) strategy.Strategy { return strategy.NewOrStrategy("or", s[0], s[0]) },
			model: func(subs [][]strategy.Action, cl []float64) []strategy.Action { return modelOr(rep(subs, 0, 0), cl) }},
		combo{name: "And{x,y,x}", k: 2, build: func(s []strategy.Strategy) strategy.Strategy { return strategy.NewAndStrategy("and", s[0], s[1], s[0]) },
			model: func(subs [][]strategy.Action, cl []float64) []strategy.Action { return modelAnd(rep(subs, 0, 1, 0), cl) }},
		combo{name: "Majority{x,x,y}", k: 2, build: func(s []strategy.Strategy) strategy.Strategy {
			return strategy.NewMajorityStrategyWith("maj", []strategy.Strategy{s[0], s[0], s[1]})
		}, model: func(subs [][]strategy.Action, cl []float64) []strategy.Action { return modelMajority(rep(subs, 0, 0, 1), cl) }},
		combo{name: "Split{x,x}", k: 1, build: func(s []strategy.Strategy) strategy.Strategy { return strategy.NewSplitStrategy(s[0], s[0]) },
			model: func(subs [][]strategy.Action, cl []float64) []strategy.Action { return modelSplit(rep(subs, 0, 0), cl) }},
	)
	// the factories that build every ordered pair (used by the backtest command line tool): the strategy at index j
	// combines the j-th ordered pair (first, second) of distinct inputs
	pairs3 := [][2]int{{0, 1}, {0, 2}, {1, 0}, {1, 2}, {2, 0}, {2, 1}}
	for j, pr := range pairs3 {
		j, pr := j, pr
		pick := func(subs [][]strategy.Action) [][]strategy.Action {
			return [][]strategy.Action{subs[pr[0]], subs[pr[1]]}
		}
		cs = append(cs,
			combo{name: fmt.Sprintf("AllAndStrategies(a,b,c)[%d]", j), k: 3,
				build: func(s []strategy.Strategy) strategy.Strategy { return strategy.AllAndStrategies(s)[j] },
				model: func(subs [][]strategy.Action, cl []float64) []strategy.Action { return modelAnd(pick(subs), cl) }},
			combo{name: fmt.Sprintf("AllSplitStrategies(a,b,c)[%d]", j), k: 3,
				build: func(s []strategy.Strategy) strategy.Strategy { return strategy.AllSplitStrategies(s)[j] },
				model: func(subs [][]strategy.Action, cl []float64) []strategy.Action { return modelSplit(pick(subs), cl) }},
		)
	}
	// group strategies nested directly inside group strategies: the outer vote is over the inner group's STANDING recommendation
	and2 := func(a, b strategy.Strategy) strategy.Strategy { return strategy.NewAndStrategy("and", a, b) }
	or2 := func(a, b strategy.Strategy) strategy.Strategy { return strategy.NewOrStrategy("or", a, b) }
	maj3 := func(a, b, c strategy.Strategy) strategy.Strategy {
		return strategy.NewMajorityStrategyWith("maj", []strategy.Strategy{a, b, c})
	}
	sub := func(xs ...[]strategy.Action) [][]strategy.Action { return xs }
	cs = append(cs,
		combo{name: "Or(And(a,b),c)", k: 3, build: func(s []strategy.Strategy) strategy.Strategy { return or2(and2(s[0], s[1]), s[2]) },
			model: func(subs [][]strategy.Action, cl []float64) []strategy.Action {
				return modelOr(sub(modelAnd(subs[:2], cl), subs[2]), cl)
			}},
		combo{name: "And(Or(a,b),c)", k: 3, build: func(s []strategy.Strategy) strategy.Strategy { return and2(or2(s[0], s[1]), s[2]) },
			model: func(subs [][]strategy.Action, cl []float64) []strategy.Action {
				return modelAnd(sub(modelOr(subs[:2], cl), subs[2]), cl)
			}},
		combo{name: "Majority(And(a,b),c,Or(a,b))", k: 3, build: func(s []strategy.Strategy) strategy.Strategy {
			return maj3(and2(s[0], s[1]), s[2], or2(&stubStrategy{word: s[0].(*stubStrategy).word}, &stubStrategy{word: s[1].(*stubStrategy).word}))
		},
			model: func(subs [][]strategy.Action, cl []float64) []strategy.Action {
				return modelMajority(sub(modelAnd(subs[:2], cl), subs[2], modelOr(subs[:2], cl)), cl)
			}},
		combo{name: "And(Majority(a,b,c))", k: 3, build: func(s []strategy.Strategy) strategy.Strategy {
			return strategy.NewAndStrategy("and", maj3(s[0], s[1], s[2]))
		},
			model: func(subs [][]strategy.Action, cl []float64) []strategy.Action {
				return modelAnd(sub(modelMajority(subs, cl)), cl)
			}},
		combo{name: "Split(And(a,b),Or(a,c))", k: 3, build: func(s []strategy.Strategy) strategy.Strategy {
			return strategy.NewSplitStrategy(and2(s[0], s[1]), or2(&stubStrategy{word: s[0].(*stubStrategy).word}, s[2]))
		},
			model: func(subs [][]strategy.Action, cl []float64) []strategy.Action {
				return modelSplit(sub(modelAnd(subs[:2], cl), modelOr(sub(subs[0], subs[2]), cl)), cl)
			}},
	)
	// nesting depth 2
	cs = append(cs,
		combo{name: "NoLoss(Inverse)", k: 1, needs: true, build: func(s []strategy.Strategy) strategy.Strategy {
			return decorator.NewNoLossStrategy(decorator.NewInverseStrategy(s[0]))
		}, model: func(subs [][]strategy.Action, cl []float64) []strategy.Action {
			return modelNoLoss(modelInverse(subs[0]), cl)
		}, inv: noLossInvariant},
		combo{name: "Inverse(NoLoss)", k: 1, needs: true, build: func(s []strategy.Strategy) strategy.Strategy {
			return decorator.NewInverseStrategy(decorator.NewNoLossStrategy(s[0]))
		}, model: func(subs [][]strategy.Action, cl []float64) []strategy.Action {
			return modelInverse(modelNoLoss(subs[0], cl))
		}},
		combo{name: "StopLoss(0.25)(NoLoss)", k: 1, needs: true, build: func(s []strategy.Strategy) strategy.Strategy {
			return decorator.NewStopLossStrategy(decorator.NewNoLossStrategy(s[0]), 0.25)
		}, model: func(subs [][]strategy.Action, cl []float64) []strategy.Action {
			return modelStopLoss(modelNoLoss(subs[0], cl), cl, 0.25)
		}, inv: func(out []strategy.Action, cl []float64) string { return stopLossInvariant(out, cl, 0.25) }},
		combo{name: "NoLoss(StopLoss(0.25))", k: 1, needs: true, build: func(s []strategy.Strategy) strategy.Strategy {
			return decorator.NewNoLossStrategy(decorator.NewStopLossStrategy(s[0], 0.25))
		}, model: func(subs [][]strategy.Action, cl []float64) []strategy.Action {
			return modelNoLoss(modelStopLoss(subs[0], cl, 0.25), cl)
		}, inv: noLossInvariant},
		combo{name: "And(NoLoss,StopLoss(0.5))", k: 2, needs: true, build: func(s []strategy.Strategy) strategy.Strategy {
			return strategy.NewAndStrategy("and", decorator.NewNoLossStrategy(s[0]), decorator.NewStopLossStrategy(s[1], 0.5))
		}, model: func(subs [][]strategy.Action, cl []float64) []strategy.Action {
			return modelAnd([][]strategy.Action{modelNoLoss(subs[0], cl), modelStopLoss(subs[1], cl, 0.5)}, cl)
		}},
	)
	return cs
}

func comboUnit(c *core.Ctx, cb combo, L int, first int) {
	var n, nontriv int64
	outcomes := map[string]bool{}
	ws := words(3, L)
	var clWords [][]int
	if cb.needs {
		clWords = words(len(closeAlphabet), L)
	} else {
		clWords = [][]int{make([]int, L)}
	}
	idx := make([]int, cb.k)
	for {
		// current tuple of sub-words
		if first < 0 || L == 0 || ws[idx[0]][0] == first {
			subs := make([][]strategy.Action, cb.k)
			for j := range subs {
				subs[j] = toActions(ws[idx[j]])
			}
			alphabets := [][]float64{closeAlphabet}
			if cb.needs && L <= 4 {
				// closes that are no ordinary prices: a missing quote read as NaN, and a worthless asset (close 0)
				alphabets = append(alphabets, []float64{2, math.NaN(), 3, 1}, []float64{2, 0, 3, 1})
				// negative closes (spreads, differenced or de-meaned series): "above" and "x% below" keep their plain meaning
				alphabets = append(alphabets, []float64{-3, -5, -2, 2})
			}
			for _, alphabet := range alphabets {
				for _, cw := range clWords {
					cl := make([]float64, L)
					for i, s := range cw {
						cl[i] = alphabet[s]
					}
					stubs := make([]strategy.Strategy, cb.k)
					for j := range stubs {
						stubs[j] = &stubStrategy{word: subs[j]}
					}
					run := RunStrategy(cb.build(stubs), closeSnaps(cl), 0, mc.Options{})
					n++
					c.Executions++
					c.Transitions += int64(run.Res.Events)
					got := make([]strategy.Action, len(run.Actions))
					for i, a := range run.Actions {
						got[i] = strategy.Action(a)
					}
					cs := map[string]any{"combinator": cb.name, "sub_actions": subs, "closings": cl, "got": run.Actions}
					if !run.Healthy() || run.Res.Buffered > 0 {
						c.Fail("", fmt.Sprintf("%s over %v closings %v: did not terminate cleanly (deadlock=%v panics=%d closed=%v)", cb.name, subs, cl, run.Res.Deadlock, len(run.Res.Panics), run.Closed), cs)
						continue
					}
					want := cb.model(subs, cl)
					if !eqActs(got, want) {
						c.Fail("", fmt.Sprintf("%s over sub-strategy actions %v closings %v: got %v, documented combination gives %v", cb.name, subs, cl, got, want), cs)
						continue
					}
					if cb.inv != nil {
						if msg := cb.inv(got, cl); msg != "" {
							c.Fail("", fmt.Sprintf("%s over %v closings %v emits %v: %s", cb.name, subs, cl, got, msg), cs)
						}
					}
					o := fmt.Sprint(got)
					if !outcomes[o] {
						outcomes[o] = true
						nontriv++
					}
					if n == 30 {
						c.Sample(map[string]any{"combinator": cb.name, "sub_actions": subs, "closings": cl, "actions": run.Actions})
					}
				}
			}
		}
		// next tuple
		j := cb.k - 1
		for ; j >= 0; j-- {
			idx[j]++
			if idx[j] < len(ws) {
				break
			}
			idx[j] = 0
		}
		if j < 0 {
			break
		}
	}
	c.States += n
	c.Evaluations += n
	c.Nontrivial += nontriv
}

// macdRsiUnit checks the MACD-RSI agreement rule against the real sub-strategies run separately.
func macdRsiUnit(c *core.Ctx, p [4]int, L int) {
	mk := func() *compound.MacdRsiStrategy {
		m := compound.NewMacdRsiStrategyWith(50, 50)
		m.MacdStrategy.Macd = trend.NewMacdWithPeriod[float64](p[0], p[1], p[2])
		m.RsiStrategy.Rsi = momentum.NewRsiWithPeriod[float64](p[3])
		return m
	}
	var n, nontriv int64
	for l := 0; l <= L; l++ {
		for _, cw := range words(len(closeAlphabet), l) {
			cl := make([]float64, l)
			for i, s := range cw {
				cl[i] = closeAlphabet[s]
			}
			sn := closeSnaps(cl)
			all := RunStrategy(mk(), sn, 0, mc.Options{})
			a := RunStrategy(mk().MacdStrategy, sn, 0, mc.Options{})
			b := RunStrategy(mk().RsiStrategy, sn, 0, mc.Options{})
			n++
			c.Executions += 3
			c.Transitions += int64(all.Res.Events + a.Res.Events + b.Res.Events)
			if !all.Healthy() || !a.Healthy() || !b.Healthy() {
				c.Count("MacdRsi nodes not reaching clean quiescence (left to C03)", 1)
				continue
			}
			toA := func(xs []int) []strategy.Action {
				o := make([]strategy.Action, len(xs))
				for i, x := range xs {
					o[i] = strategy.Action(x)
				}
				return o
			}
			da, db := refDenormalize(toA(a.Actions)), refDenormalize(toA(b.Actions))
			m := min(len(da), len(db))
			want := make([]strategy.Action, m)
			for i := 0; i < m; i++ {
				if da[i] == db[i] {
					want[i] = da[i]
				}
			}
			if !eqActs(toA(all.Actions), want) {
				c.Fail("", fmt.Sprintf("MacdRsi(macd %v rsi %d) closings %v: got %v, agreement of the standing MACD %v and RSI %v recommendations gives %v", p[:3], p[3], cl, all.Actions, da, db, want), map[string]any{"closings": cl})
			}
			for _, x := range want {
				if x != 0 {
					nontriv++
					break
				}
			}
		}
	}
	c.States += n
	c.Evaluations += n
	c.Nontrivial += nontriv
}

func init() {
	core.Register(&core.Check{
		ID:     "C07",
		Rule:   "combinators over scripted stub strategies: every tuple of action words over {Sell,Hold,Buy} (k=1: length<=7, k=2: <=5, k=3: <=3 quick / 4 thorough, k=4: <=2 / 3, k=5,6: 1 / 2) and, for the price-dependent decorators, every closing word over {1,2,4,3} of the same length (<=5), stop-loss percentages {0,0.25,0.5}, decorator nesting depth 2, group strategies nested in group strategies, one strategy object listed twice (And{x,x}, Or{x,x}, And{x,y,x}, Majority{x,x,y}, Split{x,x}); each case is one execution of the real combinator under the controlled scheduler; oracle: documented position-wise combination / reference state machine, plus the No-Loss and Stop-Loss safety invariants evaluated on the whole history; MACD-RSI against its real sub-strategies run separately; states = cases, non-trivial = distinct emitted action words per unit",
		Assume: []string{"stub strategies emit exactly one scripted action per snapshot (equal lengths); closings positive", "percentage is a fraction as the code documents (closing*(1-Percentage))"},
		Units: func(tier string) []core.Unit {
			var us []core.Unit
			th := tier == "thorough"
			for _, cb := range combos() {
				cb := cb
				maxL := 7
				switch {
				case cb.needs && cb.k == 1:
					maxL = 5
					if th {
						maxL = 6
					}
				case cb.needs && cb.k == 2:
					maxL = 3
					if th {
						maxL = 4
					}
				case cb.k == 2:
					maxL = 5
					if th {
						maxL = 6
					}
				case cb.k == 3:
					maxL = 3
					if th {
						maxL = 4
					}
				case cb.k == 4:
					maxL = 2
					if th {
						maxL = 3
					}
				case cb.k >= 5:
					maxL = 1
					if th {
						maxL = 2
					}
				}
				for L := 0; L <= maxL; L++ {
					L := L
					cost := 1
					for i := 0; i < L*cb.k; i++ {
						cost *= 3
					}
					if cb.needs {
						for i := 0; i < L; i++ {
							cost *= 4
						}
					}
					if cost > 50000 {
						for f := 0; f < 3; f++ {
							f := f
							us = append(us, core.Unit{Key: fmt.Sprintf("%s-L%d-%d", cb.name, L, f), Cost: cost / 3, Run: func(c *core.Ctx) { comboUnit(c, cb, L, f) }})
						}
						continue
					}
					us = append(us, core.Unit{Key: fmt.Sprintf("%s-L%d", cb.name, L), Cost: cost, Run: func(c *core.Ctx) { comboUnit(c, cb, L, -1) }})
				}
			}
			for _, p := range [][4]int{{1, 2, 2, 2}, {2, 3, 1, 3}, {1, 1, 1, 1}, {1, 3, 2, 1}} {
				p := p
				L := 7
				if th {
					L = 8
				}
				us = append(us, core.Unit{Key: fmt.Sprintf("MacdRsi%v", p), Cost: 60000, Run: func(c *core.Ctx) { macdRsiUnit(c, p, L) }})
			}
			return us
		},
	})
}
