package checks

import (
	"fmt"

	"verifharness/cat"
	"verifharness/core"
	"verifharness/ref"

	"github.com/cinar/indicator/v2/asset"
	"github.com/cinar/indicator/v2/strategy"
	"github.com/cinar/indicator/v2/verifmc/mc"
)

// StratRun is the observation of one strategy execution.
type StratRun struct {
	Actions []int
	Closed  bool
	Res     *mc.Result
	// first healthy child in the trie (C04 sibling comparison)
	firstChild *StratRun
	rows       [][5]float64
}

// Healthy reports clean quiescence.
func (r *StratRun) Healthy() bool {
	return !r.Res.Deadlock && !r.Res.Cut && len(r.Res.Panics) == 0 && r.Res.Internal == "" && r.Closed
}

// RunStrategy executes s.Compute on the snapshots under the canonical schedule.
func RunStrategy(s strategy.Strategy, snaps []*asset.Snapshot, capacity int, opt mc.Options) *StratRun {
	r := &StratRun{}
	var sink *Sink[strategy.Action]
	r.Res = mc.Run(func() {
		sink = Collect(s.Compute(Feed(snaps, capacity)))
	}, opt)
	if sink == nil { // Compute itself panicked (recorded in Res.Panics)
		return r
	}
	for _, a := range sink.Vals {
		r.Actions = append(r.Actions, int(a))
	}
	r.Closed = sink.Closed
	return r
}

// rowsSrc is the bar alphabet rowsOf draws from (sigmaBars unless a unit switches it for one pass).
var rowsSrc = sigmaBars

// fineBars: closes and volumes that differ by one part in 10^4, so that averages weighted differently (VWMA against SMA,
// a fast against a slow average) differ by about one part in 10^8: decisive in float64 arithmetic and far above rounding,
// but below the resolution of float32 and of any "close enough" tolerance.
var fineBars = [][5]float64{
	{4, 6, 3, 5, 10},
	{4, 6, 3, 5.0005, 10.001},
	{4, 6, 3, 4.9995, 9.999},
	{7, 7, 2, 2, 5},
}

// microBars: the first bars of sigmaBars with all four prices multiplied by 2^-40 (volumes untouched).
var microBars = func() [][5]float64 {
	out := make([][5]float64, len(sigmaBars))
	for i, r := range sigmaBars {
		out[i] = r
		for f := 0; f < 4; f++ {
			out[i][f] *= 1.0 / (1 << 40)
		}
	}
	return out
}()

func rowsOf(word []int) [][5]float64 {
	rows := make([][5]float64, len(word))
	for i, s := range word {
		rows[i] = rowsSrc[s%len(rowsSrc)]
	}
	return rows
}

type stratCase struct {
	Strategy string       `json:"strategy"`
	Cfg      []float64    `json:"config"`
	Bars     [][5]float64 `json:"bars_OHLCV"`
	Warm     int          `json:"warmup"`
	Got      []int        `json:"got"`
	Want     []int        `json:"want,omitempty"`
}

// expected evaluates a rule over all positions; returns actions and exempt flags.
func expected(rule cat.RuleFn, n int) ([]int, []bool) {
	acts := make([]int, n)
	ex := make([]bool, n)
	for i := 0; i < n; i++ {
		c := &cat.Cmp{}
		acts[i] = rule(i, c)
		ex[i] = c.Tie || c.Exempt
	}
	return acts, ex
}

func walkWords(k, n int, visit func(word []int, parent any) any) {
	var rec func(word []int, parent any)
	rec = func(word []int, parent any) {
		me := visit(word, parent)
		if len(word) == n {
			return
		}
		for s := 0; s < k; s++ {
			w2 := make([]int, len(word)+1)
			copy(w2, word)
			w2[len(word)] = s
			rec(w2, me)
		}
	}
	rec(nil, nil)
}

func stratTrieUnit(c *core.Ctx, e *cat.Strat, cfg []float64, prop string) {
	w := e.Warm(cfg)
	budget, extra := 4000, 3
	if c.Thorough() {
		budget, extra = 30000, 5
	}
	k, n := trieShape(w, len(sigmaBars), extra, budget)
	label := e.Name + fmtCfg(cfg)
	var nodes, unhealthy, compared, exempt, nontriv int64
	visit := func(word []int, parent any) any {
		rows := rowsOf(word)
		run := RunStrategy(e.New(cfg), cat.Snapshots(rows), 0, mc.Options{})
		nodes++
		c.Executions++
		c.Transitions += int64(run.Res.Events)
		nlen := len(word)
		mk := func() stratCase {
			return stratCase{Strategy: e.Name, Cfg: cfg, Bars: rows, Warm: w, Got: run.Actions}
		}
		if run.Res.Internal != "" {
			c.InternalError(run.Res.Internal)
		}
		if nodes == 9 {
			c.Sample(map[string]any{"strategy": e.Name, "config": cfg, "bars_OHLCV": rows, "actions": run.Actions})
		}
		switch prop {
		case "C05":
			// quiescence is part of the oracle here: a strategy that emits a surplus
			// action leaves a blocked sender when zipped; alone it just has a longer stream
			if len(run.Res.Panics) > 0 {
				c.Fail("", fmt.Sprintf("%s on %d snapshots: panic %s", label, nlen, run.Res.Panics[0].Value), mk())
				return run
			}
			if !run.Healthy() {
				unhealthy++
				return run
			}
			got := run.Actions
			for i, a := range got {
				if a < -1 || a > 1 {
					c.Fail("", fmt.Sprintf("%s: action %d is %d, not one of Sell/Hold/Buy", label, i, a), mk())
					return run
				}
			}
			if nlen >= w {
				nontriv++
				if len(got) != nlen {
					key := ""
					if e.CountKey != nil {
						key = e.CountKey(cfg, nlen, len(got))
					}
					c.Fail(key, fmt.Sprintf("%s: %d actions for %d snapshots (warm-up %d)", label, len(got), nlen, w), mk())
					return run
				}
				for i := 0; i < w && i < len(got); i++ {
					if got[i] != 0 {
						c.Fail("", fmt.Sprintf("%s: action %d is %d during the warm-up of %d snapshots (must be Hold)", label, i, got[i], w), mk())
						return run
					}
				}
			} else {
				if len(got) < nlen {
					key := ""
					if e.CountKey != nil {
						key = e.CountKey(cfg, nlen, len(got))
					}
					c.Fail(key, fmt.Sprintf("%s: only %d actions for %d snapshots (shorter than the warm-up %d: at least one Hold per snapshot)", label, len(got), nlen, w), mk())
					return run
				}
				for i, a := range got {
					if a != 0 {
						c.Fail("", fmt.Sprintf("%s: action %d is %d although only %d snapshots (< warm-up %d) were seen", label, i, a, nlen, w), mk())
						return run
					}
				}
			}
		case "C06":
			if !run.Healthy() {
				unhealthy++
				return run
			}
			bars := cat.MakeBars(rows)
			setScale([][]float64{bars.H.V})
			want, ex := expected(e.Rule(cfg, bars), nlen)
			bad := -1
			for i := 0; i < nlen && i < len(run.Actions); i++ {
				if ex[i] {
					exempt++
					continue
				}
				compared++
				if run.Actions[i] != want[i] {
					bad = i
					break
				}
			}
			if compared > 0 {
				nontriv++
			}
			if bad >= 0 {
				key := ""
				for k2, f := range e.AsIs {
					w2, ex2 := expected(f(cfg, bars), nlen)
					ok := true
					for i := 0; i < nlen && i < len(run.Actions); i++ {
						if !ex2[i] && run.Actions[i] != w2[i] {
							ok = false
							break
						}
					}
					if ok {
						key = k2
						break
					}
				}
				cs := mk()
				cs.Want = want
				c.Fail(key, fmt.Sprintf("%s bars %v: action %d is %d, the documented rule gives %d", label, rows, bad, run.Actions[bad], want[bad]), cs)
			}
		case "C04":
			if parent == nil {
				return run
			}
			p := parent.(*StratRun)
			if !p.Healthy() || !run.Healthy() {
				unhealthy++
				return run
			}
			// siblings differ only in the last snapshot: actions for earlier snapshots must agree
			run.rows = rows
			if p.firstChild == nil {
				p.firstChild = run
			} else {
				sib := p.firstChild
				for i := 0; i < nlen-1 && i < len(run.Actions) && i < len(sib.Actions); i++ {
					if run.Actions[i] != sib.Actions[i] {
						c.Fail("", fmt.Sprintf("%s: action %d is %d on %v but %d on %v, which differ only in snapshot %d (look-ahead)", label, i, sib.Actions[i], sib.rows, run.Actions[i], rows, nlen-1), mk())
						return run
					}
				}
			}
			// the first min(len, parent snapshots) actions are the ones already published for the prefix
			m := min(len(p.Actions), nlen-1)
			if m > 0 {
				nontriv++
			}
			for i := 0; i < m; i++ {
				if i >= len(run.Actions) || run.Actions[i] != p.Actions[i] {
					c.Fail("", fmt.Sprintf("%s: action %d for the %d-snapshot prefix was %d but becomes %v once snapshot %d %v is appended (look-ahead)", label, i, nlen-1, p.Actions[i], at(run.Actions, i), nlen-1, rows[nlen-1]), mk())
					return run
				}
			}
		}
		return run
	}
	walkWords(k, n, visit)
	if prop == "C06" {
		// second pass over the fine-difference bars (three symbols plus one ordinary bar)
		rowsSrc = fineBars
		walkWords(min(k, len(fineBars)), n, visit)
		// third pass: the ordinary bars quoted in a unit 2^40 times larger (prices around 5e-12): the documented rules
		// compare prices with prices, so nothing in them knows an absolute size
		rowsSrc = microBars
		walkWords(min(k, 4), n, visit)
		rowsSrc = sigmaBars
	}
	// one long series on top of the trie (see indTrieUnit): a de Bruijn series over the five bars with positive range
	// and volume, thousands of snapshots through one pipeline, judged by the same oracle
	if prop == "C05" || prop == "C06" {
		minLen := 2200
		if c.Thorough() {
			minLen = 20000
		}
		word, order := deBruijn(5, minLen)
		ref.Rel, ref.LongSeries = 1e-9*float64(len(word))/10, true
		before := len(c.Findings)
		visit(word, nil)
		ref.Rel, ref.LongSeries = 1e-9, false
		abbreviateLong(c, before, len(word), order)
	}
	c.States += nodes
	c.Evaluations += nodes
	c.Nontrivial += nontriv
	c.Count("trie nodes whose execution did not reach clean quiescence (left to C03)", unhealthy)
	c.Count("positions compared", compared)
	c.Count("positions exempt", exempt)
	note := map[string]any{"alphabet": k, "depth": n, "warmup": w, "nodes": nodes}
	if prop == "C06" {
		note["compared"], note["exempt"] = compared, exempt
		if exempt > compared {
			note["coverage"] = "NOT COVERED: more than half of the positions are exempt"
		}
	}
	c.Notes[label] = note
	_ = ref.Scale
}

func at(xs []int, i int) any {
	if i < len(xs) {
		return xs[i]
	}
	return "missing"
}

func stratUnits(prop string) func(tier string) []core.Unit {
	return func(tier string) []core.Unit {
		var us []core.Unit
		for _, e := range cat.Strats {
			e := e
			for _, cfg := range e.Cfgs(tier == "thorough") {
				cfg := cfg
				us = append(us, core.Unit{Key: e.Name + fmtCfg(cfg), Cost: 2 + e.Warm(cfg), Run: func(c *core.Ctx) { stratTrieUnit(c, e, cfg, prop) }})
			}
			// the same with every smoothing constant of the strategy's indicators off its default (see smoothing.go)
			if v := smoothedStrat(e); v != nil && prop == "C06" {
				for i, cfg := range e.Cfgs(tier == "thorough") {
					cfg := cfg
					if tier != "thorough" && i%2 == 1 {
						continue
					}
					us = append(us, core.Unit{Key: v.Name + fmtCfg(cfg), Cost: 2 + e.Warm(cfg), Run: withSmoothing(func(c *core.Ctx) { stratTrieUnit(c, v, cfg, prop) })})
				}
			}
		}
		return us
	}
}

var stratAssume = []string{
	"snapshot series range over words of the six-bar OHLCV alphabet (all fields vary independently, low <= open, close <= high) up to the depth recorded per unit",
	"period/threshold configurations range over the boxes recorded per unit",
	"each trie node is one execution of the real strategy under the canonical schedule of the controlled scheduler",
}

func init() {
	core.Register(&core.Check{ID: "C05", Units: func(tier string) []core.Unit { return append(stratUnits("C05")(tier), wrapperUnits("C05")(tier)...) }, Assume: stratAssume,
		Rule: "input trie over OHLCV bar words for every base strategy x configuration, plus decorators and compounds over real sub-strategies; oracle: exactly n actions in {Sell,Hold,Buy} with Hold through the warm-up (n >= w), only Holds and at least n of them for n < w; states = trie nodes, transitions = scheduler events; non-trivial = nodes with n >= w; plus one de Bruijn series (every window of 5 bars once, 3 129 snapshots; thorough 78 129) per unit"})
	core.Register(&core.Check{ID: "C06", Units: stratUnits("C06"), Assume: append(stratAssume, "the rule is restated from the strategy's doc comment (and its inline comments where the doc comment is silent) over the documented-formula references of the indicator catalogue; positions where a compared pair is equal within 1e-9 relative are exempt"),
		Rule: "input trie over OHLCV bar words for every base strategy x configuration; oracle: action_i = documented rule applied to the reference indicator values at i computed from the documented price fields; non-trivial = nodes with at least one compared (non-exempt) position; plus one de Bruijn series (every window of 5 bars once, 3 129 snapshots; thorough 78 129) per unit, comparison tolerance scaled with the length"})
}

// abbreviateLong shortens the messages of the findings recorded for the long series (they quote the whole series;
// the full input stays in the finding's case and in the replay file).
func abbreviateLong(c *core.Ctx, from, n, order int) {
	for i := from; i < len(c.Findings); i++ {
		m := c.Findings[i].Msg
		if len(m) > 700 {
			m = m[:330] + " ... " + m[len(m)-260:]
		}
		c.Findings[i].Msg = fmt.Sprintf("%s [on the de Bruijn series of %d snapshots, order %d]", m, n, order)
	}
}
