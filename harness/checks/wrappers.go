package checks

import (
	"fmt"

	"verifharness/cat"
	"verifharness/core"

	"github.com/cinar/indicator/v2/momentum"
	"github.com/cinar/indicator/v2/strategy"
	"github.com/cinar/indicator/v2/strategy/compound"
	"github.com/cinar/indicator/v2/strategy/decorator"
	"github.com/cinar/indicator/v2/trend"
)

// wrapperEntries builds catalogue entries for decorators and compounds over the
// real base strategies (first configuration of each; pairs (i, i+1) in ring order
// and (i, i+7) so every base strategy appears in every combinator).
func wrapperEntries() []*cat.Strat {
	var out []*cat.Strat
	type base struct {
		e   *cat.Strat
		cfg []float64
	}
	var bases []base
	for _, e := range cat.Strats {
		cfgs := e.Cfgs(false)
		if len(cfgs) == 0 || e.CountKey != nil {
			// a base strategy that is recorded as emitting a wrong number of actions breaks every wrapper
			// around it for the same reason; wrappers are exercised over the well-behaved bases
			continue
		}
		// prefer a configuration with distinct periods if there is one
		pick := cfgs[0]
		for _, c := range cfgs {
			distinct := true
			for i := range c {
				for j := range c {
					if i < j && c[i] == c[j] {
						distinct = false
					}
				}
			}
			if distinct && len(c) > 1 {
				pick = c
				break
			}
		}
		bases = append(bases, base{e, pick})
	}
	// a wrapper is independent of the currency and volume units iff everything it wraps is (C18)
	scaleFree := true
	one := func(name string, warm int, mk func() strategy.Strategy) *cat.Strat {
		return &cat.Strat{Name: name, Cfgs: func(bool) [][]float64 { return [][]float64{{}} }, ScaleFree: scaleFree,
			New: func([]float64) strategy.Strategy { return mk() }, Warm: func([]float64) int { return warm }}
	}
	for _, b := range bases {
		b := b
		w := b.e.Warm(b.cfg)
		tag := b.e.Name + fmtCfg(b.cfg)
		scaleFree = b.e.ScaleFree
		out = append(out, one("decorator.Inverse("+tag+")", w, func() strategy.Strategy { return decorator.NewInverseStrategy(b.e.New(b.cfg)) }))
		out = append(out, one("decorator.NoLoss("+tag+")", w, func() strategy.Strategy { return decorator.NewNoLossStrategy(b.e.New(b.cfg)) }))
		out = append(out, one("decorator.StopLoss("+tag+")", w, func() strategy.Strategy { return decorator.NewStopLossStrategy(b.e.New(b.cfg), 0.25) }))
		// a 100% stop loss never triggers and makes the decorator repeat Buy signals: reports must still normalise them
		out = append(out, one("decorator.StopLoss100("+tag+")", w, func() strategy.Strategy { return decorator.NewStopLossStrategy(b.e.New(b.cfg), 1.0) }))
	}
	for i := range bases {
		for _, step := range []int{1, 7} {
			a, b := bases[i], bases[(i+step)%len(bases)]
			if a.e == b.e {
				continue
			}
			w := max(a.e.Warm(a.cfg), b.e.Warm(b.cfg))
			// Or / Split / Majority may act as soon as one wrapped strategy does: their warm-up is the smallest one
			wmin := min(a.e.Warm(a.cfg), b.e.Warm(b.cfg))
			tag := a.e.Name + fmtCfg(a.cfg) + "," + b.e.Name + fmtCfg(b.cfg)
			scaleFree = a.e.ScaleFree && b.e.ScaleFree
			out = append(out, one("strategy.And("+tag+")", w, func() strategy.Strategy { return strategy.NewAndStrategy("and", a.e.New(a.cfg), b.e.New(b.cfg)) }))
			out = append(out, one("strategy.Or("+tag+")", wmin, func() strategy.Strategy { return strategy.NewOrStrategy("or", a.e.New(a.cfg), b.e.New(b.cfg)) }))
			out = append(out, one("strategy.Split("+tag+")", wmin, func() strategy.Strategy { return strategy.NewSplitStrategy(a.e.New(a.cfg), b.e.New(b.cfg)) }))
			c3 := bases[(i+2*step)%len(bases)]
			w3 := min(wmin, c3.e.Warm(c3.cfg))
			scaleFree = a.e.ScaleFree && b.e.ScaleFree && c3.e.ScaleFree
			out = append(out, one("strategy.Majority("+tag+","+c3.e.Name+fmtCfg(c3.cfg)+")", w3, func() strategy.Strategy {
				return strategy.NewMajorityStrategyWith("majority", []strategy.Strategy{a.e.New(a.cfg), b.e.New(b.cfg), c3.e.New(c3.cfg)})
			}))
		}
	}
	scaleFree = true
	for _, p := range [][4]int{{1, 2, 2, 2}, {2, 3, 1, 3}, {1, 1, 1, 1}} {
		p := p
		out = append(out, one(fmt.Sprintf("compound.MacdRsi(macd %d,%d,%d rsi %d)", p[0], p[1], p[2], p[3]), max(p[1]+p[2]-2, p[3]), func() strategy.Strategy {
			m := compound.NewMacdRsiStrategy()
			m.MacdStrategy.Macd = trend.NewMacdWithPeriod[float64](p[0], p[1], p[2])
			m.RsiStrategy.Rsi = momentum.NewRsiWithPeriod[float64](p[3])
			return m
		}))
	}
	return out
}

func wrapperUnits(prop string) func(tier string) []core.Unit {
	return func(tier string) []core.Unit {
		var us []core.Unit
		for _, e := range wrapperEntries() {
			e := e
			us = append(us, core.Unit{Key: e.Name, Cost: 4 + e.Warm(nil), Run: func(c *core.Ctx) { stratTrieUnit(c, e, []float64{}, prop) }})
		}
		return us
	}
}
