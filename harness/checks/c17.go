package checks

import (
	"fmt"
	"math"
	"sort"

	"verifharness/core"

	"github.com/cinar/indicator/v2/helper"
)

// ---------------------------------------------------------------- Ring

type ringOp struct {
	Kind string // put, get, at, full, empty
	Arg  int
}

func (o ringOp) String() string {
	switch o.Kind {
	case "put", "at":
		return fmt.Sprintf("%s(%d)", o.Kind, o.Arg)
	}
	return o.Kind
}

// applyRing replays hist on a fresh ring against the bounded-FIFO model and
// returns the concrete state dump and the first discrepancy.
func applyRing(capacity int, hist []ringOp) (string, string) {
	r := helper.NewRing[int](capacity)
	var model []int
	for step, op := range hist {
		switch op.Kind {
		case "put":
			full := len(model) == capacity
			got := r.Put(op.Arg)
			if full {
				if got != model[0] {
					return "", fmt.Sprintf("step %d %v: Put on a full ring returned %d, displaced oldest element is %d", step, op, got, model[0])
				}
				model = model[1:]
			}
			model = append(model, op.Arg)
		case "get":
			got, ok := r.Get()
			if len(model) == 0 {
				if ok {
					return "", fmt.Sprintf("step %d: Get on an empty ring returned (%d,true)", step, got)
				}
			} else {
				if !ok || got != model[0] {
					return "", fmt.Sprintf("step %d: Get returned (%d,%v), oldest element is %d", step, got, ok, model[0])
				}
				model = model[1:]
			}
		case "at":
			if op.Arg < len(model) {
				if got := r.At(op.Arg); got != model[op.Arg] {
					return "", fmt.Sprintf("step %d: At(%d) = %d, %d-th oldest element is %d (contents %v)", step, op.Arg, got, op.Arg, model[op.Arg], model)
				}
			}
		case "full":
			if got := r.IsFull(); got != (len(model) == capacity) {
				return "", fmt.Sprintf("step %d: IsFull = %v with %d of %d elements", step, got, len(model), capacity)
			}
		case "empty":
			if got := r.IsEmpty(); got != (len(model) == 0) {
				return "", fmt.Sprintf("step %d: IsEmpty = %v with %d elements", step, got, len(model))
			}
		}
	}
	return core.Dump(r), ""
}

func ringUnit(c *core.Ctx, capacity int) {
	var ops []ringOp
	for v := 1; v <= 3; v++ {
		ops = append(ops, ringOp{"put", v})
	}
	ops = append(ops, ringOp{"get", 0})
	for i := 0; i < capacity; i++ {
		ops = append(ops, ringOp{"at", i})
	}
	ops = append(ops, ringOp{"full", 0}, ringOp{"empty", 0})
	init0, _ := applyRing(capacity, nil)
	seen := map[string]bool{init0: true}
	frontier := [][]ringOp{nil}
	depth := 0
	for len(frontier) > 0 {
		var next [][]ringOp
		for _, h := range frontier {
			for _, op := range ops {
				h2 := append(append([]ringOp{}, h...), op)
				st, bad := applyRing(capacity, h2)
				c.Transitions++
				c.Executions++
				if bad != "" {
					c.Fail("", fmt.Sprintf("Ring[int] capacity %d history %v: %s", capacity, h2, bad), map[string]any{"capacity": capacity, "history": fmt.Sprint(h2)})
					continue
				}
				if !seen[st] {
					seen[st] = true
					next = append(next, h2)
					if len(seen) == 5 {
						c.Sample(map[string]any{"ring_capacity": capacity, "history": fmt.Sprint(h2), "state": st})
					}
				}
			}
		}
		frontier = next
		depth++
		if depth >= 6*capacity+6 && len(frontier) > 0 {
			// a bounded FIFO of this capacity over three values has finitely many concrete states and the unchanged
			// Ring closes at depth 3*capacity; an implementation that counts (free-running positions) never closes:
			// stop at twice that depth and say so, the long wrap-around histories take over from there
			c.NotExhaustive(fmt.Sprintf("Ring capacity %d: the concrete state space did not close within depth %d (%d states); every history up to that depth was compared with the model", capacity, depth, len(seen)))
			break
		}
	}
	c.States += int64(len(seen))
	c.Evaluations += int64(len(seen))
	c.Nontrivial += int64(len(seen) - 1)
	c.Notes[fmt.Sprintf("ring capacity %d", capacity)] = map[string]any{"states": len(seen), "bfs_depth_at_fixpoint": depth}
}

// ---------------------------------------------------------------- Bst

type bstOp struct {
	Kind string // ins, rem
	Arg  int    // index into the value list
}

type bstDriver interface {
	reset()
	insert(i int)
	remove(i int) bool
	contains(i int) bool
	min() float64
	max() float64
	minIs(i int) bool // exact comparison in the element type (float64 cannot tell neighbouring int64 values apart)
	maxIs(i int) bool
	show(i int) string
	dump() string
	val(i int) float64
	nvals() int
	name() string
}

type bstOf[T helper.Number] struct {
	t    *helper.Bst[T]
	vals []T
	nm   string
	zero bool // the tree is the zero value of the exported type (var t helper.Bst[T]), not the result of NewBst
}

func (b *bstOf[T]) reset() {
	if b.zero {
		b.t = &helper.Bst[T]{}
		return
	}
	b.t = helper.NewBst[T]()
}
func (b *bstOf[T]) insert(i int)        { b.t.Insert(b.vals[i]) }
func (b *bstOf[T]) remove(i int) bool   { return b.t.Remove(b.vals[i]) }
func (b *bstOf[T]) contains(i int) bool { return b.t.Contains(b.vals[i]) }
func (b *bstOf[T]) min() float64        { return float64(b.t.Min()) }
func (b *bstOf[T]) max() float64        { return float64(b.t.Max()) }
func (b *bstOf[T]) minIs(i int) bool    { return b.t.Min() == b.vals[i] }
func (b *bstOf[T]) maxIs(i int) bool    { return b.t.Max() == b.vals[i] }
func (b *bstOf[T]) show(i int) string   { return fmt.Sprint(b.vals[i]) }
func (b *bstOf[T]) dump() string        { return core.Dump(b.t) }
func (b *bstOf[T]) val(i int) float64   { return float64(b.vals[i]) }
func (b *bstOf[T]) nvals() int          { return len(b.vals) }
func (b *bstOf[T]) name() string        { return b.nm }

func bstDrivers() []bstDriver {
	return []bstDriver{
		&bstOf[int8]{vals: []int8{math.MinInt8, -1, 0, 1, math.MaxInt8}, nm: "int8"},
		&bstOf[int16]{vals: []int16{math.MinInt16, -1, 0, 1, math.MaxInt16}, nm: "int16"},
		&bstOf[int32]{vals: []int32{math.MinInt32, -1, 0, 1, math.MaxInt32}, nm: "int32"},
		&bstOf[int64]{vals: []int64{math.MinInt64, -1, 0, 1, math.MaxInt64}, nm: "int64"},
		&bstOf[int]{vals: []int{math.MinInt, -1, 0, 1, math.MaxInt}, nm: "int"},
		// the zero value of the exported type is an empty tree too (every method works on a nil root)
		&bstOf[int]{vals: []int{-7, -2, 3, 5, 100}, nm: "int-zero-value", zero: true},
		&bstOf[float64]{vals: []float64{-1.25, -0.5, 0.75, 3, 100}, nm: "float64-zero-value", zero: true},
		&bstOf[int8]{vals: []int8{1, 2, 3, 100, 127}, nm: "int8-zero-value-positive", zero: true},
		&bstOf[int16]{vals: []int16{-300, -20, -3, -2, -1}, nm: "int16-zero-value-negative", zero: true},
		// neighbours that collapse when converted to float64 (53-bit mantissa) or float32
		&bstOf[int64]{vals: []int64{math.MinInt64, math.MinInt64 + 1, 1 << 53, 1<<53 + 1, math.MaxInt64 - 1, math.MaxInt64}, nm: "int64-neighbours"},
		&bstOf[int]{vals: []int{-(1 << 60) - 3, 1<<60 + 3, 1<<60 + 5, 1<<60 + 7}, nm: "int-neighbours"},
		&bstOf[int32]{vals: []int32{1 << 24, 1<<24 + 1, math.MaxInt32 - 1, math.MaxInt32}, nm: "int32-neighbours"},
		&bstOf[float64]{vals: []float64{0, 5e-324, 1, math.Nextafter(1, 2), math.Nextafter(math.MaxFloat64, 0), math.MaxFloat64}, nm: "float64-neighbours"},
		&bstOf[float32]{vals: []float32{-math.MaxFloat32, -1.5, 0, 1.5, math.MaxFloat32}, nm: "float32"},
		&bstOf[float64]{vals: []float64{-math.MaxFloat64, -1.5, 0, 1.5, math.MaxFloat64}, nm: "float64"},
	}
}

// applyBst replays hist on a fresh tree; after every mutation it compares every
// query with the multiset model.
func applyBst(d bstDriver, hist []bstOp) (string, string) {
	d.reset()
	count := make([]int, d.nvals())
	check := func(step int, what string) string {
		size := 0
		for i, n := range count {
			size += n
			if got := d.contains(i); got != (n > 0) {
				return fmt.Sprintf("after step %d (%s): Contains(%v) = %v but the multiset holds %d of it", step, what, d.show(i), got, n)
			}
		}
		if size > 0 {
			lo, hi := -1, -1
			for i, n := range count {
				if n > 0 {
					if lo < 0 {
						lo = i
					}
					hi = i
				}
			}
			if got := d.min(); !d.minIs(lo) {
				return fmt.Sprintf("after step %d (%s): Min = %v, multiset minimum is %v", step, what, got, d.show(lo))
			}
			if got := d.max(); !d.maxIs(hi) {
				return fmt.Sprintf("after step %d (%s): Max = %v, multiset maximum is %v", step, what, got, d.show(hi))
			}
		}
		return ""
	}
	for step, op := range hist {
		what := fmt.Sprintf("%s %v", op.Kind, d.show(op.Arg))
		switch op.Kind {
		case "ins":
			d.insert(op.Arg)
			count[op.Arg]++
		case "rem":
			got := d.remove(op.Arg)
			want := count[op.Arg] > 0
			if got != want {
				return "", fmt.Sprintf("step %d: Remove(%v) returned %v but the multiset holds %d of it", step, d.show(op.Arg), got, count[op.Arg])
			}
			if want {
				count[op.Arg]--
			}
		}
		if bad := check(step, what); bad != "" {
			return "", bad
		}
	}
	return d.dump(), ""
}

func bstHist(d bstDriver, h []bstOp) string {
	s := ""
	for i, op := range h {
		if i > 0 {
			s += " "
		}
		s += fmt.Sprintf("%s(%v)", op.Kind, d.show(op.Arg))
	}
	return s
}

func bstUnit(c *core.Ctx, d bstDriver, maxSize int) {
	init0, _ := applyBst(d, nil)
	seen := map[string]bool{init0: true}
	type st struct {
		h    []bstOp
		size int
	}
	frontier := []st{{nil, 0}}
	depth := 0
	failed := map[string]bool{}
	for len(frontier) > 0 {
		var next []st
		for _, s := range frontier {
			for i := 0; i < d.nvals(); i++ {
				for _, kind := range []string{"ins", "rem"} {
					if kind == "ins" && s.size >= maxSize {
						continue
					}
					h2 := append(append([]bstOp{}, s.h...), bstOp{kind, i})
					dump, bad := applyBst(d, h2)
					c.Transitions++
					c.Executions++
					if bad != "" {
						key := ""
						if d.name()[0] == 'i' && overflowExplains(d, h2) {
							key = "bst-search-by-subtraction-overflows"
						}
						if !failed[key] {
							failed[key] = true
						}
						c.Fail(key, fmt.Sprintf("Bst[%s] history %s: %s", d.name(), bstHist(d, h2), bad), map[string]any{"type": d.name(), "history": bstHist(d, h2)})
						continue
					}
					if !seen[dump] {
						seen[dump] = true
						size := s.size
						if kind == "ins" {
							size++
						} else {
							size = countSize(d, h2)
						}
						next = append(next, st{h2, size})
						if len(seen) == 40 {
							c.Sample(map[string]any{"bst_type": d.name(), "history": bstHist(d, h2), "state": dump})
						}
					}
				}
			}
		}
		frontier = next
		depth++
	}
	c.States += int64(len(seen))
	c.Evaluations += int64(len(seen))
	c.Nontrivial += int64(len(seen) - 1)
	c.Notes["bst "+d.name()] = map[string]any{"states": len(seen), "bfs_depth_at_fixpoint": depth, "max_multiset_size": maxSize}
}

func countSize(d bstDriver, h []bstOp) int {
	count := make([]int, d.nvals())
	n := 0
	for _, op := range h {
		if op.Kind == "ins" {
			count[op.Arg]++
			n++
		} else if count[op.Arg] > 0 {
			count[op.Arg]--
			n--
		}
	}
	return n
}

// overflowExplains reports whether the history mixes values whose difference is
// not representable in the element type (the documented known defect shape).
func overflowExplains(d bstDriver, h []bstOp) bool {
	used := map[int]bool{}
	for _, op := range h {
		used[op.Arg] = true
	}
	var idx []int
	for i := range used {
		idx = append(idx, i)
	}
	sort.Ints(idx)
	if len(idx) < 2 {
		return false
	}
	lo, hi := d.val(idx[0]), d.val(idx[len(idx)-1])
	// extremes of the type are at index 0 and nvals-1
	return hi-lo > d.val(d.nvals()-1)
}

// ---------------------------------------------------------------- long histories

// bstSlide drives a tree the way MovingMax / MovingMin do, over long series: insert x[i], remove x[i-w] once the window is
// full, and compare Min, Max, Contains (of the inserted, the removed and a never inserted value) and the result of Remove
// with a counting multiset after every step; at the end the window is removed element by element.
func bstSlide[T helper.Number](c *core.Ctx, tname, sname string, xs []T, w int, absent T) {
	t := helper.NewBst[T]()
	count := map[T]int{}
	size := 0
	label := fmt.Sprintf("Bst[%s] as a sliding window of %d over the %s series of %d values", tname, w, sname, len(xs))
	fail := func(step int, msg string) {
		c.Fail("", fmt.Sprintf("%s, step %d: %s", label, step, msg), map[string]any{"element_type": tname, "series": sname, "window": w, "length": len(xs), "step": step})
	}
	check := func(step int) bool {
		if size == 0 {
			return true
		}
		first := true
		var lo, hi T
		for v, n := range count {
			if n == 0 {
				continue
			}
			if first || v < lo {
				lo = v
			}
			if first || v > hi {
				hi = v
			}
			first = false
		}
		if t.Min() != lo {
			fail(step, fmt.Sprintf("Min = %v, multiset minimum is %v", t.Min(), lo))
			return false
		}
		if t.Max() != hi {
			fail(step, fmt.Sprintf("Max = %v, multiset maximum is %v", t.Max(), hi))
			return false
		}
		return true
	}
	remove := func(step int, v T) bool {
		got := t.Remove(v)
		want := count[v] > 0
		if got != want {
			fail(step, fmt.Sprintf("Remove(%v) returned %v but the multiset holds %d of it", v, got, count[v]))
			return false
		}
		if want {
			count[v]--
			size--
		}
		if t.Contains(v) != (count[v] > 0) {
			fail(step, fmt.Sprintf("Contains(%v) = %v after the removal but the multiset holds %d of it", v, t.Contains(v), count[v]))
			return false
		}
		return true
	}
	steps := int64(0)
	defer func() {
		c.States += steps
		c.Evaluations += steps
		c.Nontrivial += steps
		c.Executions += steps
		c.Transitions += steps
	}()
	for i, x := range xs {
		t.Insert(x)
		count[x]++
		size++
		steps++
		if !t.Contains(x) {
			fail(i, fmt.Sprintf("Contains(%v) is false right after Insert", x))
			return
		}
		if count[absent] == 0 && t.Contains(absent) {
			fail(i, fmt.Sprintf("Contains(%v) is true for a value that was never inserted", absent))
			return
		}
		if i >= w && !remove(i, xs[i-w]) {
			return
		}
		if !check(i) {
			return
		}
	}
	for i := max(0, len(xs)-w); i < len(xs); i++ {
		steps++
		if !remove(len(xs)+i, xs[i]) || !check(len(xs)+i) {
			return
		}
	}
	if size != 0 {
		fail(2*len(xs), fmt.Sprintf("model holds %d elements after removing the whole window", size))
	}
}

// longSeries: staircases with duplicates, plateaus, a sawtooth and a de Bruijn series (every window of 5 symbols once).
func longSeries(n int) map[string][]int {
	out := map[string][]int{}
	up, down, saw, flat, pairs := make([]int, n), make([]int, n), make([]int, n), make([]int, n), make([]int, n)
	for i := 0; i < n; i++ {
		up[i] = i / 2
		down[i] = (n - i) / 3
		saw[i] = (i % 37) - (i%5)*3
		flat[i] = 7
		pairs[i] = (i / 2) * (1 - 2*(i/2%2)) // 0,0,-1,-1,2,2,-3,-3 ...
	}
	db, _ := deBruijn(5, n)
	out["rising staircase (each value twice)"], out["falling staircase (each value three times)"] = up, down
	out["sawtooth"], out["constant"], out["alternating growing pairs"], out["de Bruijn over 5 values"] = saw, flat, pairs, db
	return out
}

func bstLongUnit(c *core.Ctx, n int) {
	for name, xs := range longSeries(n) {
		fs := make([]float64, len(xs))
		i64 := make([]int64, len(xs))
		for i, x := range xs {
			fs[i] = float64(x) + 0.25
			i64[i] = int64(x)*(1<<40) + 1
		}
		for _, w := range []int{1, 2, 9, 70, 150, n} {
			bstSlide(c, "int", name, xs, w, -99999)
			bstSlide(c, "float64", name, fs, w, -99999.5)
			bstSlide(c, "int64", name, i64, w, -5)
		}
	}
}

// ringLongUnit: a ring that wraps hundreds of times, read positionally after every step.
func ringLongUnit(c *core.Ctx, n int) {
	// (capacities beyond 1024 and 4096 as well: an implementation may size or grow its storage in steps; the Get every
	// seventh Put moves the read position before the storage has been filled for the first time)
	for _, capacity := range []int{1, 2, 7, 64, 65, 100, 1000, 1025, 1500, 4100} {
		r := helper.NewRing[int](capacity)
		var model []int
		steps := int64(0)
		n := max(n, 3*capacity+50)
		for i := 0; i < n; i++ {
			steps++
			full := len(model) == capacity
			got := r.Put(i)
			if full {
				if got != model[0] {
					c.Fail("", fmt.Sprintf("Ring[int] capacity %d, put number %d: returned %d, displaced oldest element is %d", capacity, i, got, model[0]), nil)
					return
				}
				model = model[1:]
			}
			model = append(model, i)
			if r.IsFull() != (len(model) == capacity) || r.IsEmpty() {
				c.Fail("", fmt.Sprintf("Ring[int] capacity %d after %d puts: IsFull=%v IsEmpty=%v with %d elements", capacity, i+1, r.IsFull(), r.IsEmpty(), len(model)), nil)
				return
			}
			for _, k := range []int{0, len(model) / 2, len(model) - 1} {
				if r.At(k) != model[k] {
					c.Fail("", fmt.Sprintf("Ring[int] capacity %d after %d puts: At(%d) = %d, %d-th oldest element is %d", capacity, i+1, k, r.At(k), k, model[k]), nil)
					return
				}
			}
			if i%7 == 6 { // a Get now and then moves the read position as well
				g, ok := r.Get()
				if !ok || g != model[0] {
					c.Fail("", fmt.Sprintf("Ring[int] capacity %d after %d puts: Get = (%d,%v), oldest element is %d", capacity, i+1, g, ok, model[0]), nil)
					return
				}
				model = model[1:]
			}
		}
		c.States += steps
		c.Evaluations += steps
		c.Nontrivial += steps
		c.Executions += steps
		c.Transitions += steps
	}
}

// ringWrapUnit pushes one ring through n puts (n beyond 2^16 in the quick tier and beyond 2^32 in the thorough tier), so
// that every position or count the implementation keeps in a 16- or 32-bit integer wraps at least once; every Put is
// compared with the bounded-FIFO model (the displaced element is the one put `capacity` calls earlier), and the queries
// and a drain at the end.
func ringWrapUnit(c *core.Ctx, capacity int, n int64) {
	r := helper.NewRing[int64](capacity)
	k := int64(capacity)
	for i := int64(0); i < n; i++ {
		got := r.Put(i)
		if i >= k && got != i-k {
			c.Fail("", fmt.Sprintf("Ring[int64] capacity %d, put number %d (counting from 0): returned %d, the displaced oldest element is %d", capacity, i, got, i-k), nil)
			return
		}
	}
	if !r.IsFull() || r.IsEmpty() {
		c.Fail("", fmt.Sprintf("Ring[int64] capacity %d after %d puts: IsFull=%v IsEmpty=%v", capacity, n, r.IsFull(), r.IsEmpty()), nil)
		return
	}
	for j := 0; j < capacity; j++ {
		if want := n - k + int64(j); r.At(j) != want {
			c.Fail("", fmt.Sprintf("Ring[int64] capacity %d after %d puts: At(%d) = %d, that element is %d", capacity, n, j, r.At(j), want), nil)
			return
		}
	}
	for j := 0; j < capacity; j++ {
		g, ok := r.Get()
		if want := n - k + int64(j); !ok || g != want {
			c.Fail("", fmt.Sprintf("Ring[int64] capacity %d after %d puts: Get number %d = (%d,%v), the oldest element is %d", capacity, n, j, g, ok, want), nil)
			return
		}
	}
	if _, ok := r.Get(); ok || !r.IsEmpty() {
		c.Fail("", fmt.Sprintf("Ring[int64] capacity %d after %d puts and %d gets: not empty", capacity, n, capacity), nil)
		return
	}
	c.States += n
	c.Evaluations += n
	c.Nontrivial += n
	c.Executions++
	c.Transitions += n
}

func init() {
	core.Register(&core.Check{
		ID:   "C17",
		Rule: "explicit-state BFS over operation histories of the real Ring and Bst objects with deduplication on the deep dump of the concrete object (sound: deterministic objects with equal concrete state have equal futures); Ring to fixpoint for capacities 1..4 (5 thorough) over values {1,2,3}; Bst per element type over {min,-1,0,1,max} with multiset size bounded; after every transition every query is compared with the bounded-FIFO / multiset model; non-trivial = non-initial states; plus long deterministic histories: the tree driven as a sliding window (sizes 1, 2, 9, 70, 150, all) over staircases with duplicates, plateaus, a sawtooth, alternating growing pairs and a de Bruijn series of 1 200 (6 000) values in int, int64 and float64, and rings of capacity 1..4100 wrapping through at least 4 800 (24 000) puts with a Get every seventh Put, every query compared with the model after every step; rings of capacity 3, 4, 5, 7 through 2^16+64 (thorough: 2^32+64) puts, so that 16- and 32-bit positions or counts wrap, every Put compared with the model",
		Assume: []string{"Ring values range over {1,2,3} (int elements); Bst values over five values per type including both extremes; multiset size <= 5 (quick) / 7 (thorough)",
			"Put on a non-full ring and At beyond the current size are unconstrained by the property and not compared"},
		Units: func(tier string) []core.Unit {
			var us []core.Unit
			maxCap, maxSize := 4, 5
			if tier == "thorough" {
				maxCap, maxSize = 5, 7
			}
			for cp := 1; cp <= maxCap; cp++ {
				cp := cp
				us = append(us, core.Unit{Key: fmt.Sprintf("ring-%d", cp), Cost: cp, Run: func(c *core.Ctx) { ringUnit(c, cp) }})
			}
			for _, d := range bstDrivers() {
				d := d
				us = append(us, core.Unit{Key: "bst-" + d.name(), Cost: 100, Run: func(c *core.Ctx) { bstUnit(c, d, maxSize) }})
			}
			long := 1200
			if tier == "thorough" {
				long = 6000
			}
			us = append(us, core.Unit{Key: "bst-long-histories", Cost: 200, Run: func(c *core.Ctx) { bstLongUnit(c, long) }})
			us = append(us, core.Unit{Key: "ring-long-histories", Cost: 50, Run: func(c *core.Ctx) { ringLongUnit(c, 4*long) }})
			wrap := int64(1)<<16 + 64
			if tier == "thorough" {
				wrap = int64(1)<<32 + 64
			}
			for _, capacity := range []int{3, 4, 5, 7} {
				capacity := capacity
				us = append(us, core.Unit{Key: fmt.Sprintf("ring-counter-wrap-%d", capacity), Cost: 400, Run: func(c *core.Ctx) { ringWrapUnit(c, capacity, wrap) }})
			}
			return us
		},
	})
}
