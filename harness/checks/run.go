// Package checks holds the per-property decision procedures.
package checks

import (
	"fmt"
	"math"
	"strings"

	"verifharness/cat"

	"github.com/cinar/indicator/v2/verifmc/mc"
)

// Feed starts a producer goroutine that sends xs on a channel of the given
// capacity and closes it.
func Feed[T any](xs []T, capacity int) <-chan T {
	c := make(chan T, capacity)
	mc.Go(func() {
		for _, x := range xs {
			mc.Send(c, x)
		}
		mc.Close(c)
	})
	return c
}

// Sink collects one output stream with an independent reader goroutine.
type Sink[T any] struct {
	Vals   []T
	Closed bool
}

// Collect starts an independent reader for c.
func Collect[T any](c <-chan T) *Sink[T] {
	s := &Sink[T]{}
	mc.Go(func() {
		for {
			v, ok := mc.Recv2(c)
			if !ok {
				s.Closed = true
				return
			}
			s.Vals = append(s.Vals, v)
		}
	})
	return s
}

// IndRun is the observation of one indicator execution.
type IndRun struct {
	Outs   [][]float64
	Closed []bool
	Res    *mc.Result
}

// Healthy reports whether the execution reached clean quiescence.
func (r *IndRun) Healthy() bool {
	if r.Res.Deadlock || r.Res.Cut || len(r.Res.Panics) > 0 || r.Res.Internal != "" {
		return false
	}
	for _, c := range r.Closed {
		if !c {
			return false
		}
	}
	return true
}

// Problem describes an unhealthy execution.
func (r *IndRun) Problem() string {
	var p []string
	if r.Res.Deadlock {
		p = append(p, fmt.Sprintf("deadlock (%d goroutines blocked)", len(r.Res.Blocked)))
	}
	if len(r.Res.Panics) > 0 {
		p = append(p, "panic: "+r.Res.Panics[0].Value)
	}
	if r.Res.Cut {
		p = append(p, "event cap")
	}
	if r.Res.Internal != "" {
		p = append(p, "internal: "+r.Res.Internal)
	}
	for i, c := range r.Closed {
		if !c {
			p = append(p, fmt.Sprintf("output %d not closed", i))
		}
	}
	return strings.Join(p, "; ")
}

// RunInd executes inst.Compute on the given input columns under the canonical
// schedule (S0) with one producer per input and one independent reader per output.
func RunInd(inst *cat.Inst, in [][]float64, capacity int, opt mc.Options) *IndRun {
	r := &IndRun{}
	var sinks []*Sink[float64]
	r.Res = mc.Run(func() {
		chans := make([]cat.Ch, len(in))
		for i := range in {
			chans[i] = Feed(in[i], capacity)
		}
		for _, o := range inst.Compute(chans) {
			sinks = append(sinks, Collect(o))
		}
	}, opt)
	for _, s := range sinks {
		r.Outs = append(r.Outs, s.Vals)
		r.Closed = append(r.Closed, s.Closed)
	}
	return r
}

func bitsEq(a, b float64) bool {
	return math.Float64bits(a) == math.Float64bits(b) || (math.IsNaN(a) && math.IsNaN(b))
}

func fmtF(xs []float64) string {
	var sb strings.Builder
	sb.WriteByte('[')
	for i, x := range xs {
		if i > 0 {
			sb.WriteByte(' ')
		}
		fmt.Fprintf(&sb, "%.6g", x)
	}
	sb.WriteByte(']')
	return sb.String()
}

func fmtCfg(c []float64) string {
	var p []string
	for _, x := range c {
		p = append(p, fmt.Sprintf("%g", x))
	}
	return "(" + strings.Join(p, ",") + ")"
}
