package checks

import (
	"bytes"
	"context"
	"encoding/csv"
	"encoding/json"
	"errors"
	"fmt"
	"io"
	"io/fs"
	"net/http"
	"os"
	"path/filepath"
	"reflect"
	"strconv"
	"strings"
	"syscall"
	"time"

	"verifharness/core"

	"github.com/cinar/indicator/v2/asset"
	"github.com/cinar/indicator/v2/helper"
	"github.com/cinar/indicator/v2/verifmc/mc"
)

type shapeA struct {
	S string `header:"a"`
	N int    `header:"x"`
}
type shapeB struct {
	D time.Time `header:"a" format:"2006-01-02"`
	F float64   `header:"x"`
	S string
}
type shapeC struct {
	N int `header:"x"`
}

var csvTokens = []string{"a", "1", ",", "\"", "\n", "x,1", "2024-01-02"}

// refCsv is the reference reader: encoding/csv tokenisation, header mapping by
// name, strconv parsing; it stops at the first malformed record and never fails.
func refCsv[T any](data string, header bool) []*T {
	rd := csv.NewReader(strings.NewReader(data))
	st := reflect.TypeOf((*T)(nil)).Elem()
	type colT struct {
		idx    int
		format string
	}
	cols := make([]colT, st.NumField())
	for i := range cols {
		f := st.Field(i)
		cols[i] = colT{idx: i, format: helper.DefaultDateTimeFormat}
		if v, ok := f.Tag.Lookup("format"); ok {
			cols[i].format = v
		}
	}
	if header {
		h, err := rd.Read()
		if err != nil {
			return nil
		}
		pos := map[string]int{}
		for i, name := range h {
			pos[name] = i
		}
		for i := range cols {
			f := st.Field(i)
			name := f.Name
			if v, ok := f.Tag.Lookup("header"); ok {
				name = v
			}
			if p, ok := pos[name]; ok {
				cols[i].idx = p
			} else {
				cols[i].idx = -1
			}
		}
	}
	var out []*T
	for {
		rec, err := rd.Read()
		if err != nil {
			return out
		}
		row := new(T)
		rv := reflect.ValueOf(row).Elem()
		for i, c := range cols {
			if c.idx < 0 {
				continue
			}
			if c.idx >= len(rec) {
				return out // fewer fields than the struct needs: malformed
			}
			s := rec[c.idx]
			f := rv.Field(i)
			switch f.Kind() {
			case reflect.String:
				f.SetString(s)
			case reflect.Int:
				v, err := strconv.ParseInt(s, 10, strconv.IntSize)
				if err != nil {
					return out
				}
				f.SetInt(v)
			case reflect.Float64:
				v, err := strconv.ParseFloat(s, 64)
				if err != nil {
					return out
				}
				f.SetFloat(v)
			case reflect.Struct:
				v, err := time.Parse(c.format, s)
				if err != nil {
					return out
				}
				f.Set(reflect.ValueOf(v))
			}
		}
		out = append(out, row)
	}
}

func csvTokenUnit[T any](c *core.Ctx, shape string, first int, maxLen int) {
	var n, nontriv int64
	var rec func(prefix string, depth int)
	rec = func(prefix string, depth int) {
		for _, header := range []bool{true, false} {
			var got, again []*T
			res := mc.Run(func() {
				cs, err := helper.NewCsv[T](header)
				if err != nil {
					panic(err)
				}
				cs.Logger = quietLogger
				got = drain(cs.ReadFromReader(strings.NewReader(prefix)))
				// the reader object survives a malformed source: the same text read once more through the same object
				again = drain(cs.ReadFromReader(strings.NewReader(prefix)))
			}, mc.Options{})
			n++
			c.Executions++
			c.Transitions += int64(res.Events)
			want := refCsv[T](prefix, header)
			info := map[string]any{"shape": shape, "header": header, "input": prefix}
			switch {
			case len(res.Panics) > 0:
				c.Fail("", fmt.Sprintf("CSV reader (%s, header=%v) panics on input %q: %s", shape, header, prefix, res.Panics[0].Value), info)
			case res.Deadlock:
				c.Fail("", fmt.Sprintf("CSV reader (%s, header=%v) hangs or leaks a goroutine on input %q (%s)", shape, header, prefix, blockedDesc(res)), info)
			case !rowsEq(got, want):
				c.Fail("", fmt.Sprintf("CSV reader (%s, header=%v) on input %q delivered %s, the well-formed prefix is %s", shape, header, prefix, descRows(got), descRows(want)), info)
			case !rowsEq(again, want):
				c.Fail("", fmt.Sprintf("CSV reader (%s, header=%v) reading input %q a second time through the same Csv object delivered %s, the well-formed prefix is %s", shape, header, prefix, descRows(again), descRows(want)), info)
			}
			if len(want) > 0 {
				nontriv++
			}
			if n == 200 {
				c.Sample(info)
			}
			// the file-based entry point (ReadFromFile: Waitable + a goroutine that closes the file) on the short inputs
			if depth <= 4 {
				file := filepath.Join(tmpBase(), "c19-in.csv")
				os.WriteFile(file, []byte(prefix), 0o600)
				var gotF []*T
				var ferr error
				resF := mc.Run(func() {
					cs, _ := helper.NewCsv[T](header)
					cs.Logger = quietLogger
					var ch <-chan *T
					ch, ferr = cs.ReadFromFile(file)
					if ferr == nil {
						gotF = drain(ch)
					}
				}, mc.Options{})
				n++
				c.Executions++
				c.Transitions += int64(resF.Events)
				switch {
				case len(resF.Panics) > 0:
					c.Fail("", fmt.Sprintf("Csv.ReadFromFile (%s, header=%v) panics on file content %q: %s", shape, header, prefix, resF.Panics[0].Value), info)
				case resF.Deadlock:
					c.Fail("", fmt.Sprintf("Csv.ReadFromFile (%s, header=%v) hangs or leaks a goroutine on file content %q (%s)", shape, header, prefix, blockedDesc(resF)), info)
				case ferr != nil:
					c.Fail("", fmt.Sprintf("Csv.ReadFromFile (%s, header=%v) fails on a readable file with content %q: %v", shape, header, prefix, ferr), info)
				case !rowsEq(gotF, want):
					c.Fail("", fmt.Sprintf("Csv.ReadFromFile (%s, header=%v) on file content %q delivered %s, the well-formed prefix is %s", shape, header, prefix, descRows(gotF), descRows(want)), info)
				}
			}
		}
		if depth == maxLen {
			return
		}
		for ti, t := range csvTokens {
			if depth == 0 && first >= 0 && ti != first {
				continue
			}
			rec(prefix+t, depth+1)
		}
	}
	rec("", 0)
	c.States += n
	c.Evaluations += n
	c.Nontrivial += nontriv
}

// ---------------------------------------------------------------- JSON stream reader

type jrow struct {
	Date     time.Time `json:"date"`
	AdjClose float64   `json:"adjClose"`
}

var jsonTokens = []string{"[", "]", "{", "}", ",", "1", "\"a\"", ":", "null", `{"date":"2024-01-02T00:00:00Z","adjClose":1}`}

// refJSON: rows of the well-formed prefix of a JSON array of T.
func refJSON[T any](data string) []T {
	dec := json.NewDecoder(strings.NewReader(data))
	tok, err := dec.Token()
	if err != nil || tok != json.Delim('[') {
		return nil
	}
	var out []T
	for dec.More() {
		var v T
		if err := dec.Decode(&v); err != nil {
			return out
		}
		out = append(out, v)
	}
	return out
}

type fakeRT struct {
	status int
	body   string
	open   bool // the server keeps the connection open after the body text: a read past it never returns
}

// stayOpen delivers data and then blocks for ever (no EOF): a response whose sender has said all it has to say so far.
type stayOpen struct {
	data []byte
	gate chan struct{}
}

func (r *stayOpen) Read(p []byte) (int, error) {
	if len(r.data) > 0 {
		k := copy(p, r.data)
		r.data = r.data[k:]
		return k, nil
	}
	mc.Recv((<-chan struct{})(r.gate)) // never sent to, never closed
	return 0, io.EOF
}

// RoundTrip answers with the canned status and body. Time is not modelled by counting seconds: if the request carries a
// time limit at all (a context deadline, or the cancel channel http.Client arms for its Timeout), the limit may expire at
// any moment the consumer of the body chooses to be slow - here in the middle of the body, which then fails like a timed
// out read does. A client without a time limit gets the whole body.
func (f *fakeRT) RoundTrip(req *http.Request) (*http.Response, error) {
	var body io.Reader = strings.NewReader(f.body)
	if f.open {
		body = &stayOpen{data: []byte(f.body), gate: make(chan struct{})}
	}
	_, hasDeadline := req.Context().Deadline()
	if hasDeadline || req.Cancel != nil { //nolint:staticcheck // the deprecated field is exactly what http.Client.Timeout uses with custom transports
		body = &failAfter{data: []byte(f.body), n: len(f.body) / 2, err: context.DeadlineExceeded}
	}
	return &http.Response{StatusCode: f.status, Status: fmt.Sprintf("%d %s", f.status, http.StatusText(f.status)), Body: io.NopCloser(body), Header: http.Header{}, Request: req}, nil
}

func jsonTokenUnit(c *core.Ctx, first int, maxLen int) {
	var n, nontriv int64
	var rec func(prefix string, depth int)
	rec = func(prefix string, depth int) {
		// (1) JSONToChan
		var got []jrow
		res := mc.Run(func() {
			got = drain(helper.JSONToChanWithLogger[jrow](strings.NewReader(prefix), quietLogger))
		}, mc.Options{})
		n++
		c.Executions++
		c.Transitions += int64(res.Events)
		want := refJSON[jrow](prefix)
		info := map[string]any{"json": prefix}
		switch {
		case len(res.Panics) > 0:
			c.Fail("", fmt.Sprintf("JSONToChan panics on %q: %s", prefix, res.Panics[0].Value), info)
		case res.Deadlock:
			c.Fail("", fmt.Sprintf("JSONToChan hangs or leaks on %q (%s)", prefix, blockedDesc(res)), info)
		case fmt.Sprint(got) != fmt.Sprint(want):
			c.Fail("", fmt.Sprintf("JSONToChan on %q delivered %v, the well-formed prefix is %v", prefix, got, want), info)
		}
		// (2) Tiingo repository over a synchronous fake transport
		for _, status := range []int{200, 204, 301, 400, 401, 404, 429, 500} {
			var snaps []*asset.Snapshot
			var gerr error
			res := mc.Run(func() {
				http.DefaultTransport = &fakeRT{status: status, body: prefix}
				repo := asset.NewTiingoRepository("key")
				repo.Logger = quietLogger
				ch, err := repo.GetSince("A", day(0))
				gerr = err
				if err == nil {
					snaps = drainSnaps(ch)
				}
			}, mc.Options{})
			n++
			c.Executions++
			c.Transitions += int64(res.Events)
			info := map[string]any{"http_status": status, "body": prefix}
			wantRows := refJSON[asset.TiingoEndOfDay](prefix)
			switch {
			case len(res.Panics) > 0:
				c.Fail("", fmt.Sprintf("TiingoRepository.GetSince panics on status %d body %q: %s", status, prefix, res.Panics[0].Value), info)
			case res.Deadlock:
				c.Fail("", fmt.Sprintf("TiingoRepository.GetSince hangs or leaks on status %d body %q (%s)", status, prefix, blockedDesc(res)), info)
			case status != 200 && gerr == nil:
				c.Fail("", fmt.Sprintf("TiingoRepository.GetSince reports success for HTTP status %d", status), info)
			case status == 200 && gerr != nil:
				c.Fail("", fmt.Sprintf("TiingoRepository.GetSince fails on HTTP 200: %v", gerr), info)
			case status == 200 && len(snaps) != len(wantRows):
				key := ""
				if !strings.HasPrefix(strings.TrimSpace(prefix), "[") {
					key = "tiingo-accepts-non-array-body"
				}
				c.Fail(key, fmt.Sprintf("TiingoRepository.GetSince on body %q delivered %d snapshots, the well-formed prefix (a JSON array) has %d records", prefix, len(snaps), len(wantRows)), info)
			}
			if status == 200 && len(wantRows) > 0 {
				nontriv++
			}
			if status != 200 && depth > 1 {
				break // the body is irrelevant for failures: one non-200 status per body suffices beyond the first levels
			}
		}
		if n == 300 {
			c.Sample(info)
		}
		if depth == maxLen {
			return
		}
		for ti, t := range jsonTokens {
			if depth == 0 && first >= 0 && ti != first {
				continue
			}
			rec(prefix+t, depth+1)
		}
	}
	rec("", 0)
	c.States += n
	c.Evaluations += n
	c.Nontrivial += nontriv
}

// failAfter delivers the first n bytes of data and then fails with err (a connection reset, a disk error).
type failAfter struct {
	data []byte
	n    int
	err  error
}

func (f *failAfter) Read(p []byte) (int, error) {
	if f.n <= 0 {
		return 0, f.err
	}
	k := copy(p, f.data[:f.n])
	f.data, f.n = f.data[k:], f.n-k
	return k, nil
}

// readerFailureUnit: the reader under a CSV / JSON stream breaks after every possible number of bytes, with every kind
// of error an io.Reader may return: the rows delivered are a prefix of the rows of the whole text, at least the rows
// whose text was delivered completely, the stream closes, nothing panics or stays blocked.
func readerFailureUnit(c *core.Ctx) {
	text := "a,x\nu,1\n\"v,w\",2\nz,3\n"
	whole := refCsv[shapeA](text, true)
	errs := []error{io.ErrUnexpectedEOF, errors.New("connection reset by peer"), &fs.PathError{Op: "read", Path: "x.csv", Err: syscall.EISDIR}, io.ErrClosedPipe}
	for _, header := range []bool{true, false} {
		full := whole
		if !header {
			full = refCsv[shapeA](text, false)
		}
		for k := 0; k <= len(text); k++ {
			for ei, e := range errs {
				var got []*shapeA
				res := mc.Run(func() {
					cs, _ := helper.NewCsv[shapeA](header)
					cs.Logger = quietLogger
					got = drain(cs.ReadFromReader(&failAfter{data: []byte(text), n: k, err: e}))
				}, mc.Options{})
				c.Executions++
				c.States++
				c.Evaluations++
				c.Transitions += int64(res.Events)
				least := refCsv[shapeA](text[:strings.LastIndex(text[:k], "\n")+1], header)
				info := map[string]any{"text": text, "bytes_before_failure": k, "error": e.Error(), "header": header}
				switch {
				case len(res.Panics) > 0:
					c.Fail("", fmt.Sprintf("CSV reader (header=%v) panics when the underlying reader fails with %q after %d bytes: %s", header, e, k, res.Panics[0].Value), info)
				case res.Deadlock:
					c.Fail("", fmt.Sprintf("CSV reader (header=%v) hangs or leaks a goroutine when the underlying reader fails with %q after %d bytes (%s)", header, e, k, blockedDesc(res)), info)
				case len(got) > len(full) || !rowsEq(got, full[:len(got)]):
					c.Fail("", fmt.Sprintf("CSV reader (header=%v), reader failing after %d bytes: delivered %s, not a prefix of the rows of the text %s", header, k, descRows(got), descRows(full)), info)
				case len(got) < len(least):
					c.Fail("", fmt.Sprintf("CSV reader (header=%v), reader failing after %d bytes: delivered %s although the rows %s had arrived completely", header, k, descRows(got), descRows(least)), info)
				default:
					c.Nontrivial++
				}
				if k == 9 && ei == 0 {
					c.Sample(info)
				}
			}
		}
	}
	jtext := `[{"S":"u","N":1},{"S":"v","N":2},{"S":"w","N":3}]`
	jwhole := refJSON[shapeA](jtext)
	for k := 0; k <= len(jtext); k++ {
		for _, e := range errs {
			var got []shapeA
			res := mc.Run(func() {
				got = drain(helper.JSONToChanWithLogger[shapeA](&failAfter{data: []byte(jtext), n: k, err: e}, quietLogger))
			}, mc.Options{})
			c.Executions++
			c.States++
			c.Evaluations++
			info := map[string]any{"text": jtext, "bytes_before_failure": k, "error": e.Error()}
			switch {
			case len(res.Panics) > 0 || res.Deadlock:
				c.Fail("", fmt.Sprintf("JSON reader panics or hangs when the underlying reader fails with %q after %d bytes", e, k), info)
			case len(got) > len(jwhole) || fmt.Sprint(got) != fmt.Sprint(jwhole[:len(got)]):
				c.Fail("", fmt.Sprintf("JSON reader, reader failing after %d bytes: delivered %v, not a prefix of %v", k, got, jwhole), info)
			default:
				c.Nontrivial++
			}
		}
	}
}

// openConnectionUnit: what a reader owes its caller does not wait for the end of the transmission - a stream is closed as
// soon as the text received so far is complete or malformed, a non-success status is reported as soon as it is known -
// even if the server keeps the connection open and never sends an end of file.
func openConnectionUnit(c *core.Ctx) {
	rec := `{"date":"2021-03-01T00:00:00.000Z","open":1,"high":2,"low":0.5,"close":1.5,"volume":10}`
	cases := []struct {
		name   string
		status int
		body   string
		want   int
	}{
		{"a complete array", 200, "[" + rec + "," + rec + "]", 2},
		{"an empty array", 200, "[]", 0},
		// (a well-formed value of the wrong type, "[rec, 5", is not in this list: the reader skips to the next token, which on an
		// open connection has not been sent yet - waiting for it is what any incomplete body requires)
		{"one record and then a syntax error", 200, "[" + rec + ",}", 1},
		{"a body that is no array", 200, `{"detail":"x"} `, 0},
		{"an error status with a body", 500, "internal error", 0},
		{"an error status without a body", 404, "", 0},
	}
	for _, cs := range cases {
		var snaps []*asset.Snapshot
		var gerr, lerr error
		res := mc.Run(func() {
			http.DefaultTransport = &fakeRT{status: cs.status, body: cs.body, open: true}
			repo := asset.NewTiingoRepository("key")
			repo.Logger = quietLogger
			ch, err := repo.GetSince("A", day(0))
			gerr = err
			if err == nil {
				snaps = drainSnaps(ch)
			}
			if cs.status != 200 {
				_, lerr = repo.LastDate("A")
			}
		}, mc.Options{})
		c.Executions++
		c.States++
		c.Evaluations++
		c.Nontrivial++
		c.Transitions += int64(res.Events)
		info := map[string]any{"http_status": cs.status, "body": cs.body, "connection": "kept open, no end of file"}
		switch {
		case len(res.Panics) > 0:
			c.Fail("", fmt.Sprintf("TiingoRepository on %s (status %d, connection kept open): panic %s", cs.name, cs.status, res.Panics[0].Value), info)
		case res.Deadlock:
			c.Fail("", fmt.Sprintf("TiingoRepository on %s (status %d) with the connection kept open: the call or the stream never finishes (%s)", cs.name, cs.status, blockedDesc(res)), info)
		case cs.status != 200 && (gerr == nil || lerr == nil):
			c.Fail("", fmt.Sprintf("TiingoRepository reports success for HTTP status %d (connection kept open)", cs.status), info)
		case cs.status == 200 && (gerr != nil || len(snaps) != cs.want):
			c.Fail("", fmt.Sprintf("TiingoRepository.GetSince on %s (connection kept open): %d snapshots, error %v; expected %d snapshots", cs.name, len(snaps), gerr, cs.want), info)
		}
	}
}

func filesUnit(c *core.Ctx) {
	dir := mustTempDir("c19")
	defer os.RemoveAll(dir)
	cases := []struct {
		name  string
		setup func() string
	}{
		{"missing file", func() string { return filepath.Join(dir, "missing.csv") }},
		{"directory instead of file", func() string { p := filepath.Join(dir, "d.csv"); os.Mkdir(p, 0o700); return p }},
		{"unreadable file", func() string { p := filepath.Join(dir, "u.csv"); os.WriteFile(p, []byte("Date\n"), 0o000); return p }},
	}
	for ci, cs := range append(cases, cases...) {
		header := ci < len(cases) // with and without a header row: the first read of the file happens in different places
		p := cs.setup()
		var err error
		var rows []*asset.Snapshot
		res := mc.Run(func() {
			var ch <-chan *asset.Snapshot
			ch, err = helper.ReadFromCsvFile[asset.Snapshot](p, header)
			if err == nil {
				rows = drain(ch)
			}
		}, mc.Options{})
		c.Executions++
		c.States++
		c.Evaluations++
		c.Nontrivial++
		switch {
		case len(res.Panics) > 0 || res.Deadlock:
			c.Fail("", fmt.Sprintf("ReadFromCsvFile on a %s panics or hangs", cs.name), nil)
		case err == nil && os.Geteuid() != 0 && cs.name != "directory instead of file":
			c.Fail("", fmt.Sprintf("ReadFromCsvFile on a %s reports success with %d rows", cs.name, len(rows)), nil)
		case err == nil && cs.name == "missing file":
			c.Fail("", "ReadFromCsvFile on a missing file reports success", nil)
		}
	}
	// repositories on a missing directory / asset
	var errs []error
	mc.Run(func() {
		r := asset.NewFileSystemRepository(filepath.Join(dir, "nope"))
		_, e1 := r.Get("A")
		_, e2 := r.LastDate("A")
		_, e3 := r.Assets()
		errs = []error{e1, e2, e3}
	}, mc.Options{})
	c.Executions++
	for i, e := range errs {
		if e == nil {
			c.Fail("", fmt.Sprintf("FileSystemRepository on a missing directory: call %d reports success", i), nil)
		}
	}
	c.Sample(map[string]any{"files": "missing, directory, unreadable, missing repository directory"})
}

func init() {
	core.Register(&core.Check{
		ID:     "C19",
		Rule:   "bounded-exhaustive token strings: CSV inputs = all strings of up to 6 (7 thorough) tokens over {a, 1, comma, quote, newline, 'x,1', a date} fed to ReadFromReader (and, up to 4 tokens, through a file to ReadFromFile) for three row shapes with and without header; JSON inputs = all strings of up to 4 (5 thorough) tokens over {[ ] { } , 1 \"a\" : null <valid record>} fed to JSONToChan and, as HTTP bodies with statuses {200,204,301,400,401,404,429,500}, to TiingoRepository.GetSince through a synchronous fake transport; unreadable/missing files. Every input is one controlled execution with an independent reader: a panic in the reader goroutine, a reader that never closes its stream or a leaked goroutine is a violation, delivered rows must equal the rows of the well-formed prefix according to a reference reader built on encoding/csv / encoding/json; non-200 statuses and missing files must yield errors. states = inputs, non-trivial = inputs whose well-formed prefix has at least one record",
		Assume: []string{"byte strings are token strings over the stated alphabets", "the reference reader uses the standard library tokenisers themselves, so the check does not out-demand encoding/csv or encoding/json"},
		Units: func(tier string) []core.Unit {
			cl, jl := 6, 4
			if tier == "thorough" {
				cl, jl = 7, 5
			}
			var us []core.Unit
			for f := range csvTokens {
				f := f
				us = append(us, core.Unit{Key: fmt.Sprintf("csv-shapeA-%d", f), Cost: 10, Run: func(c *core.Ctx) { csvTokenUnit[shapeA](c, "struct{a string; x int}", f, cl) }})
				us = append(us, core.Unit{Key: fmt.Sprintf("csv-shapeB-%d", f), Cost: 12, Run: func(c *core.Ctx) { csvTokenUnit[shapeB](c, "struct{a date; x float64; S string}", f, cl) }})
				us = append(us, core.Unit{Key: fmt.Sprintf("csv-shapeC-%d", f), Cost: 9, Run: func(c *core.Ctx) { csvTokenUnit[shapeC](c, "struct{x int}", f, cl) }})
			}
			for f := range jsonTokens {
				f := f
				us = append(us, core.Unit{Key: fmt.Sprintf("json-%d", f), Cost: 8, Run: func(c *core.Ctx) { jsonTokenUnit(c, f, jl) }})
			}
			us = append(us, core.Unit{Key: "files", Cost: 1, Run: filesUnit})
			us = append(us, core.Unit{Key: "reader-failures", Cost: 2, Run: readerFailureUnit})
			us = append(us, core.Unit{Key: "open-connection", Cost: 1, Run: openConnectionUnit})
			return us
		},
	})
	_ = bytes.MinRead
}
