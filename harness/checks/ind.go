package checks

import (
	"fmt"
	"math"

	"verifharness/cat"
	"verifharness/core"
	"verifharness/ref"

	"github.com/cinar/indicator/v2/verifmc/mc"
)

// Alphabets (DESIGN 4.3). The first symbols are the ones kept when the alphabet
// has to shrink for deep tries: they always contain a tie and, where allowed, a zero.
var (
	// 0.1 is not a dyadic rational: sums of squares of it do not cancel exactly, which exposes
	// numerically unstable rewrites (variance as E[x^2]-E[x]^2) on flat runs
	sigmaPlain = []float64{1, 0, 0.1, 2, -3, 5}
	// 1.0001 next to 1: a quiet window (relative variation 1e-4) for tolerance guards that mix units
	sigmaPlainPos = []float64{1, 0.1, 1.0001, 2, 3, 6}
	// bars: O, H, L, C, V with L <= O,C <= H, V >= 0
	sigmaBars = [][5]float64{
		{4, 6, 3, 5, 10}, // up bar
		{7, 7, 2, 2, 5},  // close at low
		// almost the up bar: near-ties (differences of a few thousandths) expose absolute tolerances and
		// rounding applied to compared quantities
		{4, 6.002, 3, 5.004, 10},
		{5, 8, 5, 8, 20}, // close at high
		{1, 2, 1, 1, 10}, // small
		{5, 5, 5, 5, 0},  // flat, zero volume (zero range: exempts ratio indicators from there on, so it comes late)
		{6, 9, 4, 7, 0},  // wide, zero volume
	}
	sigmaXY    = [][2]float64{{1, 2}, {2, 1}, {3, 5}, {2, 2}, {0, 0}}
	sigmaXYPos = [][2]float64{{1, 2}, {2, 1}, {3, 5}, {2, 2}}
)

var fieldIdx = map[string]int{"O": 0, "H": 1, "L": 2, "C": 3, "V": 4}

// alphabet returns, for an entry, the list of symbols; each symbol is the row of
// values for the entry's input fields.
func alphabet(fields []string, positive bool) [][]float64 {
	plain := true
	for _, f := range fields {
		if f != "X" && f != "Y" {
			plain = false
		}
	}
	var rows [][]float64
	switch {
	case len(fields) == 1:
		src := sigmaPlain
		if positive {
			src = sigmaPlainPos
		}
		for _, v := range src {
			rows = append(rows, []float64{v})
		}
	case plain:
		src := sigmaXY
		if positive {
			src = sigmaXYPos
		}
		for _, p := range src {
			rows = append(rows, []float64{p[0], p[1]})
		}
	default:
		for _, b := range sigmaBars {
			row := make([]float64, len(fields))
			for i, f := range fields {
				row[i] = b[fieldIdx[f]]
			}
			rows = append(rows, row)
		}
	}
	return rows
}

// trieShape picks alphabet size k and depth N for a warm-up w within a node budget.
func trieShape(w, alpha, extra, budget int) (k, n int) {
	n = w + extra
	nodes := func(k, n int) int {
		t, p := 0, 1
		for i := 0; i <= n; i++ {
			t += p
			if p > budget*8 {
				return budget*8 + 1
			}
			p *= k
		}
		return t
	}
	for k = alpha; k > 2; k-- {
		if nodes(k, n) <= budget {
			return k, n
		}
	}
	k = 2
	for n > w+2 && nodes(2, n) > budget*4 {
		n--
	}
	return k, n
}

type trieNode struct {
	word []int
	in   [][]float64 // per input field
	run  *IndRun
	// first healthy child seen (siblings differ only in the last input position and must agree on everything earlier)
	firstChild *trieNode
}

// walkTrie visits every word over {0..k-1} of length 0..n depth-first; visit gets
// the node and its parent (nil at the root).
func walkTrie(k, n int, rows [][]float64, nf int, exec func(in [][]float64) *IndRun, visit func(node, parent *trieNode)) {
	var rec func(parent *trieNode, word []int)
	rec = func(parent *trieNode, word []int) {
		in := make([][]float64, nf)
		for f := 0; f < nf; f++ {
			col := make([]float64, len(word))
			for i, s := range word {
				col[i] = rows[s][f]
			}
			in[f] = col
		}
		nd := &trieNode{word: word, in: in, run: exec(in)}
		visit(nd, parent)
		if len(word) == n {
			return
		}
		for s := 0; s < k; s++ {
			w2 := make([]int, len(word)+1)
			copy(w2, word)
			w2[len(word)] = s
			rec(nd, w2)
		}
	}
	rec(nil, nil)
}

func setScale(in [][]float64) { setScaleFields(nil, in) }

// setScaleFields sets ref.Scale to the magnitude of the input in its own unit (quotes of 1e-12 are as legitimate as
// quotes of 1e+9): the largest absolute PRICE (a denominator is "numerically zero" relative to the prices; volumes of
// ordinary size would otherwise hide a tiny price unit), the largest absolute value if there is no price field; 1 for an
// all-zero input.
func setScaleFields(fields []string, in [][]float64) {
	scan := func(vol bool) float64 {
		m := 0.0
		for f, c := range in {
			if fields != nil && f < len(fields) && isVolumeField(fields[f]) != vol {
				continue
			}
			for _, x := range c {
				if a := math.Abs(x); a > m && !math.IsInf(a, 0) {
					m = a
				}
			}
		}
		return m
	}
	m := scan(false)
	if m == 0 && fields != nil {
		m = scan(true)
	}
	if m == 0 {
		m = 1
	}
	ref.Scale = m
}

// outFloor is the magnitude below which a difference in output j is rounding: the input scale raised to the output's
// homogeneity degree in the prices (1 for a pure number such as an oscillator in per cent; the input scale itself when the
// catalogue records no degree).
func outFloor(e *cat.Ind, j int) float64 {
	if e.PriceDeg == nil || j >= len(e.PriceDeg) {
		return math.Max(ref.Scale, 1)
	}
	return math.Pow(ref.Scale, float64(e.PriceDeg[j]))
}

func toRef(in [][]float64) []ref.S {
	r := make([]ref.S, len(in))
	for i := range in {
		r[i] = ref.From(in[i])
	}
	return r
}

type indCase struct {
	Indicator string      `json:"indicator"`
	Cfg       []float64   `json:"config"`
	Fields    []string    `json:"fields"`
	Input     [][]float64 `json:"input"`
	Idle      int         `json:"idle"`
	Got       [][]float64 `json:"got,omitempty"`
	Want      [][]float64 `json:"want,omitempty"`
}

// compareRef compares outputs with a position-aligned reference. It returns the
// first mismatch description ("" if none) and the numbers of compared and exempt positions.
func compareRef(e *cat.Ind, outs [][]float64, refs []ref.S, w int) (string, int, int) {
	cmp, ex := 0, 0
	defer func() { ref.Floor = 0 }()
	for j := range outs {
		ref.Floor = outFloor(e, j)
		if j >= len(refs) {
			return fmt.Sprintf("output %d has no reference", j), cmp, ex
		}
		for k, got := range outs[j] {
			p := k + w
			if p >= refs[j].Len() {
				break // surplus values are C02's business
			}
			if refs[j].X[p] {
				ex++
				continue
			}
			if !refs[j].Def(p) {
				return fmt.Sprintf("output %d value %d (position %d) = %g but the documented formula is not defined yet at that position", j, k, p, got), cmp, ex
			}
			cmp++
			if !ref.Close(got, refs[j].V[p]) {
				return fmt.Sprintf("output %d value %d (position %d): got %.12g, documented formula gives %.12g", j, k, p, got, refs[j].V[p]), cmp, ex
			}
		}
	}
	return "", cmp, ex
}

func refWant(refs []ref.S, w int) [][]float64 {
	var o [][]float64
	for _, r := range refs {
		if w < len(r.V) {
			o = append(o, r.V[w:])
		} else {
			o = append(o, nil)
		}
	}
	return o
}

// indTrieUnit explores the input trie of one (indicator, configuration) for one property.
func indTrieUnit(c *core.Ctx, e *cat.Ind, cfg []float64, prop string) {
	inst := e.New(cfg)
	w := inst.Idle
	budget := 5000
	extra := 3
	if c.Thorough() {
		budget, extra = 40000, 5
	}
	positive := e.Positive || prop == "C15"
	rows := alphabet(e.In, positive)
	k, n := trieShape(w, len(rows), extra, budget)
	label := e.Name + fmtCfg(cfg)
	var nodes, deadlocked, compared, exempt, nonEmpty int64
	exec := func(in [][]float64) *IndRun {
		return RunInd(e.New(cfg), in, 0, mc.Options{})
	}
	visit := func(nd, parent *trieNode) {
		nodes++
		c.Executions++
		c.Transitions += int64(nd.run.Res.Events)
		r := nd.run
		nlen := len(nd.word)
		if c.Only != "" && c.Only != fmt.Sprint(nd.word) {
			return
		}
		mk := func() indCase {
			return indCase{Indicator: e.Name, Cfg: cfg, Fields: e.In, Input: nd.in, Idle: w, Got: r.Outs}
		}
		if !r.Healthy() {
			deadlocked++
			if r.Res.Internal != "" {
				c.InternalError(r.Res.Internal)
			}
			return // C03 reports hangs; value oracles judge healthy runs only
		}
		if nodes == 7 || (nodes == 2 && len(c.Samples) == 0) {
			c.Sample(map[string]any{"indicator": e.Name, "config": cfg, "input": nd.in, "outputs": r.Outs})
		}
		switch prop {
		case "C02":
			want := nlen - w
			if want < 0 {
				want = 0
			}
			if want > 0 {
				nonEmpty++
			}
			for j, o := range r.Outs {
				if len(o) != want {
					key := ""
					if len(r.Res.UncheckedZero) > 0 {
						key = "seed-read-from-closed-stream"
					}
					if e.Name == "momentum.IchimokuCloud" && j == 4 && len(o) == max(0, nlen+cat.I(cfg, 3)-w) {
						key = "ichimoku-lagging-span-longer"
					}
					cs := mk()
					c.Fail(key, fmt.Sprintf("%s n=%d: output %d (%s) has %d values, warm-up contract n-w = %d (w=%d)", label, nlen, j, e.Out[j], len(o), want, w), cs)
					break
				}
			}
		case "C01":
			setScaleFields(e.In, nd.in)
			refs := e.Ref(cfg, toRef(nd.in))
			msg, cm, ex := compareRef(e, r.Outs, refs, w)
			compared += int64(cm)
			exempt += int64(ex)
			if cm > 0 {
				nonEmpty++
			}
			if msg != "" {
				key := ""
				for k2, f := range e.AsIs {
					if m2, _, _ := compareRef(e, r.Outs, f(cfg, toRef(nd.in)), w); m2 == "" {
						key = k2
						break
					}
				}
				cs := mk()
				cs.Want = refWant(refs, w)
				c.Fail(key, label+" input "+fmtCols(nd.in)+": "+msg, cs)
			}
			// the values are a function of the input values alone: a caller that hands Compute a buffered channel (an
			// application's feed, another helper's output) gets the same numbers. Every fourth deepest node and the long
			// series are run again on input channels of capacity 1, 3 (and 2 for the long series).
			if (nlen == n && nodes%4 == 0) || nlen > n {
				caps := []int{1, 3}
				if nlen > n {
					caps = []int{2}
				}
				for _, capacity := range caps {
					r2 := RunInd(e.New(cfg), nd.in, capacity, mc.Options{})
					c.Executions++
					c.Transitions += int64(r2.Res.Events)
					if !r2.Healthy() {
						continue // left to C03 (which explores the capacities for termination)
					}
					for j := range r.Outs {
						same := j < len(r2.Outs) && len(r.Outs[j]) == len(r2.Outs[j])
						for i2 := 0; same && i2 < len(r.Outs[j]); i2++ {
							same = bitsEq(r.Outs[j][i2], r2.Outs[j][i2])
						}
						if !same {
							c.Fail("", fmt.Sprintf("%s input %s: output %d is %s when the input channels are unbuffered but %s when they have capacity %d", label, fmtCols(nd.in), j, fmtF(head(r.Outs[j], 12)), fmtF(head(at2(r2.Outs, j), 12)), capacity), mk())
							break
						}
					}
				}
			}
		case "C04":
			if parent == nil || !parent.run.Healthy() {
				return
			}
			// siblings differ only at the last input position: everything that refers to earlier positions must agree,
			// also when the run on the prefix itself emitted nothing for it
			if parent.firstChild == nil {
				parent.firstChild = nd
			} else {
				sib := parent.firstChild
				for j := range r.Outs {
					lim := nlen - 1 - w // outputs that refer to positions < nlen-1
					for i2 := 0; i2 < lim && i2 < len(r.Outs[j]) && i2 < len(sib.run.Outs[j]); i2++ {
						if !bitsEq(sib.run.Outs[j][i2], r.Outs[j][i2]) {
							c.Fail("", fmt.Sprintf("%s: output %d value %d (input position %d) is %.12g on %s but %.12g on %s, which differ only at position %d (look-ahead)", label, j, i2, i2+w, sib.run.Outs[j][i2], fmtCols(sib.in), r.Outs[j][i2], fmtCols(nd.in), nlen-1), mk())
							return
						}
					}
				}
			}
			for j := range r.Outs {
				po := parent.run.Outs[j]
				if len(po) > 0 {
					nonEmpty++
				}
				if len(po) > len(r.Outs[j]) {
					c.Fail("", fmt.Sprintf("%s: output %d on the %d-prefix has %d values but only %d on the longer series %s", label, j, nlen-1, len(po), len(r.Outs[j]), fmtCols(nd.in)), mk())
					return
				}
				for i2 := range po {
					if !bitsEq(po[i2], r.Outs[j][i2]) {
						c.Fail("", fmt.Sprintf("%s: output %d value %d changed from %.12g to %.12g when position %d was appended (input %s)", label, j, i2, po[i2], r.Outs[j][i2], nlen-1, fmtCols(nd.in)), mk())
						return
					}
				}
			}
		case "C15":
			if e.Range == nil {
				return
			}
			setScaleFields(e.In, nd.in)
			refs := e.Ref(cfg, toRef(nd.in))
			for k2 := 0; ; k2++ {
				p := k2 + w
				vals := make([]float64, len(r.Outs))
				ok := true
				for j := range r.Outs {
					if k2 >= len(r.Outs[j]) {
						ok = false
						break
					}
					vals[j] = r.Outs[j][k2]
				}
				if !ok || p >= nlen {
					break
				}
				ex := false
				for _, rf := range refs {
					if p < rf.Len() && rf.X[p] {
						ex = true
					}
				}
				if ex {
					exempt++
					continue
				}
				compared++
				msg := e.Range(cfg, nd.in, p, vals)
				for j, v := range vals {
					if msg == "" && (math.IsNaN(v) || math.IsInf(v, 0)) {
						msg = fmt.Sprintf("output %d is %v where the defining denominator is not zero", j, v)
					}
				}
				if msg != "" {
					key := ""
					if e.RangeKnown != nil {
						key = e.RangeKnown(cfg, nd.in, p, vals)
					}
					c.Fail(key, fmt.Sprintf("%s input %s position %d values %s: %s", label, fmtCols(nd.in), p, fmtF(vals), msg), mk())
					break
				}
			}
			if len(r.Outs) > 0 && len(r.Outs[0]) > 0 {
				nonEmpty++
			}
		}
	}
	walkTrie(k, n, rows, len(e.In), exec, visit)
	// Non-finite samples (a missing value read as NaN, an overflowed +-Inf): the COUNT and alignment contract does not depend
	// on the values, so every series of length w+4 with one NaN / +Inf / -Inf at each position in turn (in every input
	// field) must still produce n-w values per output.
	if prop == "C02" {
		lrows := alphabet(e.In, true)
		nlen := w + 4
		for _, special := range []float64{math.NaN(), math.Inf(1), math.Inf(-1)} {
			for p := 0; p < nlen; p++ {
				in := make([][]float64, len(e.In))
				for f := range in {
					col := make([]float64, nlen)
					for i := range col {
						col[i] = lrows[(i*2+i/3)%len(lrows)][f]
					}
					col[p] = special
					in[f] = col
				}
				nd := &trieNode{word: make([]int, nlen), in: in, run: exec(in)}
				save := c.Only
				c.Only = ""
				visit(nd, nil)
				c.Only = save
			}
		}
	}
	// One long series on top of the trie: a de Bruijn sequence over the well-behaved symbols (positive range and
	// volume), i.e. a cyclic series in which EVERY window of `order` consecutive symbols occurs exactly once. It
	// reaches the regime the depth-bounded trie cannot: thousands of values through one pipeline (running sums,
	// recursive averages, ring buffers and trees that have wrapped many times), judged by the same oracle.
	if prop == "C01" || prop == "C02" || prop == "C15" {
		lrows := alphabet(e.In, true)
		if len(e.In) > 2 || (len(e.In) == 2 && len(lrows[0]) == len(e.In) && len(lrows) == len(sigmaBars)) {
			lrows = lrows[:5]
		}
		minLen := 2200
		if c.Thorough() {
			minLen = 20000
		}
		lens := []int{minLen}
		// a very long series (70 000 values, beyond 2^16) for the count / alignment contract: the first configuration of
		// every indicator (thorough: every configuration)
		if prop == "C02" && (c.Thorough() || fmtCfg(cfg) == fmtCfg(e.Cfgs(false)[0])) {
			lens = append(lens, 70000)
		}
		for _, want := range lens {
			word, order := deBruijn(len(lrows), want)
			if len(word) > want+want/8 {
				word = word[:want+order] // a prefix of the sequence is long enough; not every window occurs then
			}
			// the formulas and ranges are those of the values as given, in whatever unit: the long series is also judged
			// with all prices in a unit 2^40 times larger (quotes of 1e-12) and 2^30 times smaller, volumes untouched
			scales := []float64{1}
			if (prop == "C01" || prop == "C15") && want == minLen {
				scales = []float64{1, 1.0 / (1 << 40), 1 << 30}
			}
			for _, scale := range scales {
				in := make([][]float64, len(e.In))
				for f := range in {
					col := make([]float64, len(word))
					for i, sy := range word {
						col[i] = lrows[sy][f]
						if !isVolumeField(e.In[f]) {
							col[i] *= scale
						}
					}
					in[f] = col
				}
				nd := &trieNode{word: word, in: in, run: exec(in)}
				c.Only = ""
				ref.Rel, ref.LongSeries = 1e-9*float64(len(word))/10, true
				visit(nd, nil)
				ref.Rel, ref.LongSeries = 1e-9, false
				c.Notes[fmt.Sprintf("%s long series (%d, prices x %g)", label, len(word), scale)] = map[string]any{"symbols": len(lrows), "de_bruijn_order": order, "length": len(word), "events": nd.run.Res.Events}
			}
		}
	}
	c.States += nodes
	c.Evaluations += nodes
	c.Nontrivial += nonEmpty
	c.Count("trie nodes whose execution did not reach clean quiescence (left to C03)", deadlocked)
	c.Count("positions compared", compared)
	c.Count("positions exempt", exempt)
	note := map[string]any{"alphabet": k, "depth": n, "idle": w, "nodes": nodes, "compared": compared, "exempt": exempt}
	if compared+exempt > 0 && exempt > compared {
		note["coverage"] = "NOT COVERED: more than half of the positions are exempt"
	}
	c.Notes[label] = note
}

func head(xs []float64, n int) []float64 {
	if len(xs) > n {
		return xs[:n]
	}
	return xs
}

func at2(o [][]float64, j int) []float64 {
	if j < len(o) {
		return o[j]
	}
	return nil
}

func fmtCols(in [][]float64) string {
	s := ""
	for i, col := range in {
		if i > 0 {
			s += "|"
		}
		if len(col) > 40 {
			s += fmt.Sprintf("%s ... %s (%d values, the de Bruijn series of the unit)", fmtF(col[:6]), fmtF(col[len(col)-3:]), len(col))
			continue
		}
		s += fmtF(col)
	}
	return s
}

// deBruijn returns a de Bruijn sequence B(k, order) over {0..k-1} (FKM algorithm: concatenation of the Lyndon words
// whose length divides the order), extended by its first order-1 symbols so that every window also occurs linearly;
// order is the smallest one with k^order >= minLen.
func deBruijn(k, minLen int) ([]int, int) {
	order, total := 1, k
	for total < minLen {
		order++
		total *= k
	}
	a := make([]int, k*order)
	var seq []int
	var db func(t, p int)
	db = func(t, p int) {
		if t > order {
			if order%p == 0 {
				seq = append(seq, a[1:p+1]...)
			}
			return
		}
		a[t] = a[t-p]
		db(t+1, p)
		for j := a[t-p] + 1; j < k; j++ {
			a[t] = j
			db(t+1, t)
		}
	}
	db(1, 1)
	// the cyclic sequence starts with `order` zeros; rotated so that this flat stretch (0/0 in every ratio of changes,
	// after which recursive indicators are exempt for good) comes at the end instead of at the very start
	seq = append(seq[order:], seq[:order]...)
	return append(seq, seq[:order-1]...), order
}

func indUnits(prop string) func(tier string) []core.Unit {
	return func(tier string) []core.Unit {
		var us []core.Unit
		for _, e := range cat.Inds {
			e := e
			if prop == "C15" && e.Range == nil {
				continue
			}
			for _, cfg := range e.Cfgs(tier == "thorough") {
				cfg := cfg
				inst := e.New(cfg)
				us = append(us, core.Unit{Key: e.Name + fmtCfg(cfg), Cost: 1 + inst.Idle, Run: func(c *core.Ctx) { indTrieUnit(c, e, cfg, prop) }})
			}
			if prop == "C01" || prop == "C02" {
				us = append(us, core.Unit{Key: "large periods: " + e.Name, Cost: 60, First: true, Run: func(c *core.Ctx) { indLargeValuesUnit(c, e, prop) }})
			}
			// the same with every smoothing constant of the object off its default (values only; see smoothing.go)
			if v := smoothedInd(e); v != nil && prop == "C01" {
				for i, cfg := range e.Cfgs(tier == "thorough") {
					cfg := cfg
					if tier != "thorough" && i%2 == 1 {
						continue
					}
					us = append(us, core.Unit{Key: v.Name + fmtCfg(cfg), Cost: 1 + e.New(cfg).Idle, Run: withSmoothing(func(c *core.Ctx) { indTrieUnit(c, v, cfg, prop) })})
				}
			}
		}
		return us
	}
}

var indAssume = []string{
	"inputs range over the finite alphabets and lengths recorded under notes (nothing is claimed outside them)",
	"periods range over the configuration boxes recorded under notes",
	"each trie node is one execution of the real pipeline under the canonical schedule of the controlled scheduler; schedule independence is C03's subject",
	"float comparison: relative 1e-9 against a reference written from the type's doc comment",
}

func init() {
	core.Register(&core.Check{ID: "C01", Units: indUnits("C01"), Assume: indAssume,
		Rule: "input trie: states = words over the per-indicator alphabet up to depth N (every node is executed on the real Compute), transitions = scheduler events executed; a node is non-trivial when at least one output position was compared with the documented formula (not exempt)"})
	core.Register(&core.Check{ID: "C02", Units: indUnits("C02"), Assume: indAssume,
		Rule: "input trie as C01; oracle: every output has exactly max(0,n-w) values; non-trivial = nodes with n > w"})
	core.Register(&core.Check{ID: "C04", Units: func(tier string) []core.Unit {
		us := append(append(indUnits("C04")(tier), stratUnits("C04")(tier)...), wrapperUnits("C04")(tier)...)
		th := tier == "thorough"
		for _, e := range cat.Inds {
			e := e
			us = append(us, core.Unit{Key: "long:" + e.Name, Cost: 6, Run: func(c *core.Ctx) {
				c04LongInd(c, e, spread(e.Cfgs(th)), false)
				c04LongInd(c, e, degenerate(e.Cfgs(th)), true)
				if e.Name == "momentum.IchimokuCloud" {
					// periods outside their documented order (conversion < base < leading): see the known finding
					c04LongInd(c, e, [][]float64{{2, 1, 3, 1}, {3, 2, 2, 1}}, true)
				}
			}})
		}
		for _, e := range cat.Strats {
			e := e
			us = append(us, core.Unit{Key: "long:" + e.Name, Cost: 8, Run: func(c *core.Ctx) {
				c04LongStrat(c, e, spread(e.Cfgs(th)), false)
				c04LongStrat(c, e, degenerate(e.Cfgs(th)), true)
			}})
		}
		nl := 5
		if th {
			nl = 6
		}
		us = append(us, core.Unit{Key: "non-finite:snapshot-adapters", Cost: 10, Run: func(c *core.Ctx) { c04AdapterUnit(c, nl) }})
		us = append(us, core.Unit{Key: "non-finite:decorators", Cost: 20, Run: func(c *core.Ctx) { c04DecoratorNfUnit(c, nl) }})
		for i, e := range wrapperEntries() {
			e := e
			if th || i%4 == 0 {
				us = append(us, core.Unit{Key: "long:" + e.Name, Cost: 4, Run: func(c *core.Ctx) { c04LongStrat(c, e, [][]float64{{}}, false) }})
			}
		}
		return us
	}, Assume: indAssume,
		Rule: "every edge (s, s+symbol) of the input trie: outputs(s) must be a bit-identical prefix of outputs(s+symbol); non-trivial = edges whose parent has a non-empty output"})
	core.Register(&core.Check{ID: "C15", Units: func(tier string) []core.Unit {
		us := indUnits("C15")(tier)
		ml := 4
		if tier == "thorough" {
			ml = 5
		}
		us = append(us, core.Unit{Key: "typed-bounded-oscillators", Cost: 20, Run: func(c *core.Ctx) { c15TypedBoundedUnit(c, ml) }})
		return append(us, core.Unit{Key: "typed-moving-extremes", Cost: 20, Run: func(c *core.Ctx) { c15TypedUnit(c, ml) }})
	}, Assume: indAssume,
		Rule: "input trie over valid OHLCV / positive alphabets; oracle: documented range and ordering inequalities at every non-exempt position; non-trivial = nodes with at least one output value; plus MovingMax / MovingMin instantiated with int64, int, int32, int8 and float32 over neighbouring values that collapse in float64 / float32 (all words to length 4 / 5, periods 1..3): min <= value <= max and both equal the brute-force window extremes"})
}
