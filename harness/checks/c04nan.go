package checks

import (
	"fmt"
	"math"

	"verifharness/core"

	"github.com/cinar/indicator/v2/asset"
	"github.com/cinar/indicator/v2/strategy"
	"github.com/cinar/indicator/v2/strategy/decorator"
	"github.com/cinar/indicator/v2/verifmc/mc"
)

// Causality on series with non-finite samples (a missing quote read as NaN, an overflow): whatever a stage does with
// such a sample, what it emits for position i may depend on positions <= i only - no interpolation or back-fill from
// the next value. Exhaustive over all words of length <= 5 over {4, 3, NaN, 8, +Inf}.

var nfAlphabet = []float64{4, 3, math.NaN(), 8, math.Inf(1)}

func nfWords(maxLen int, visit func(vals []float64)) {
	var rec func(w []float64)
	rec = func(w []float64) {
		visit(w)
		if len(w) == maxLen {
			return
		}
		for _, v := range nfAlphabet {
			rec(append(append([]float64{}, w...), v))
		}
	}
	rec(nil)
}

func nfKey(v []float64) string { return fmtF(v) }

// c04AdapterUnit: the snapshot-to-series adapters every strategy reads its inputs through.
func c04AdapterUnit(c *core.Ctx, maxLen int) {
	adapters := []struct {
		name string
		f    func(<-chan *asset.Snapshot) <-chan float64
	}{
		{"asset.SnapshotsAsOpenings", asset.SnapshotsAsOpenings}, {"asset.SnapshotsAsHighs", asset.SnapshotsAsHighs},
		{"asset.SnapshotsAsLows", asset.SnapshotsAsLows}, {"asset.SnapshotsAsClosings", asset.SnapshotsAsClosings},
		{"asset.SnapshotsAsVolumes", asset.SnapshotsAsVolumes},
	}
	for _, ad := range adapters {
		seen := map[string][]float64{}
		nfWords(maxLen, func(vals []float64) {
			snaps := closeSnaps(vals)
			for i, s := range snaps {
				s.Volume = vals[i]
			}
			var sink *Sink[float64]
			res := mc.Run(func() { sink = Collect(ad.f(Feed(snaps, 0))) }, mc.Options{})
			c.Executions++
			c.States++
			c.Evaluations++
			c.Transitions += int64(res.Events)
			if res.Deadlock || len(res.Panics) > 0 || sink == nil || !sink.Closed {
				c.Fail("", fmt.Sprintf("%s on the series %s did not terminate cleanly", ad.name, fmtF(vals)), nil)
				return
			}
			seen[nfKey(vals)] = sink.Vals
			if len(vals) == 0 {
				return
			}
			c.Nontrivial++
			prev := seen[nfKey(vals[:len(vals)-1])]
			for i, p := range prev {
				if i >= len(sink.Vals) || !bitsEq(p, sink.Vals[i]) {
					c.Fail("", fmt.Sprintf("%s: value %d is %v on the series %s but %s once %v is appended (look-ahead)", ad.name, i, p, fmtF(vals[:len(vals)-1]), fmtF(head(sink.Vals, 8)), vals[len(vals)-1]), map[string]any{"adapter": ad.name, "series": fmtF(vals)})
					return
				}
			}
			if len(sink.Vals) != len(vals) {
				c.Fail("", fmt.Sprintf("%s yields %d values for %d snapshots (%s)", ad.name, len(sink.Vals), len(vals), fmtF(vals)), nil)
			}
		})
	}
}

// c04DecoratorNfUnit: decorators and compounds over a buy-and-hold and over scripted inner strategies, closings with non-finite samples.
func c04DecoratorNfUnit(c *core.Ctx, maxLen int) {
	script := []strategy.Action{strategy.Buy, strategy.Hold, strategy.Sell, strategy.Buy, strategy.Sell, strategy.Hold}
	builds := []struct {
		name string
		mk   func() strategy.Strategy
	}{
		{"StopLoss(BuyAndHold, 10%)", func() strategy.Strategy { return decorator.NewStopLossStrategy(strategy.NewBuyAndHoldStrategy(), 0.1) }},
		{"StopLoss(scripted, 25%)", func() strategy.Strategy { return decorator.NewStopLossStrategy(&stubStrategy{word: script}, 0.25) }},
		{"NoLoss(scripted)", func() strategy.Strategy { return decorator.NewNoLossStrategy(&stubStrategy{word: script}) }},
		{"Inverse(StopLoss(BuyAndHold, 50%))", func() strategy.Strategy {
			return decorator.NewInverseStrategy(decorator.NewStopLossStrategy(strategy.NewBuyAndHoldStrategy(), 0.5))
		}},
		{"And(StopLoss(BuyAndHold,10%), NoLoss(scripted))", func() strategy.Strategy {
			return strategy.NewAndStrategy("and", decorator.NewStopLossStrategy(strategy.NewBuyAndHoldStrategy(), 0.1), decorator.NewNoLossStrategy(&stubStrategy{word: script}))
		}},
	}
	for _, b := range builds {
		seen := map[string][]int{}
		nfWords(maxLen, func(vals []float64) {
			run := RunStrategy(b.mk(), closeSnaps(vals), 0, mc.Options{})
			c.Executions++
			c.States++
			c.Evaluations++
			c.Transitions += int64(run.Res.Events)
			if !run.Healthy() {
				return
			}
			seen[nfKey(vals)] = run.Actions
			if len(vals) == 0 {
				return
			}
			c.Nontrivial++
			prev, ok := seen[nfKey(vals[:len(vals)-1])]
			if !ok {
				return
			}
			for i, p := range prev {
				if i < len(vals)-1 && (i >= len(run.Actions) || run.Actions[i] != p) {
					c.Fail("", fmt.Sprintf("%s: action %d is %d on the closings %s but becomes %v once the closing %v is appended (look-ahead)", b.name, i, p, fmtF(vals[:len(vals)-1]), at(run.Actions, i), vals[len(vals)-1]), map[string]any{"strategy": b.name, "closings": fmtF(vals)})
					return
				}
			}
		})
	}
}
