package checks

import (
	"bytes"
	"fmt"
	"math"
	"os"
	"path/filepath"
	"reflect"
	"strings"
	"time"

	"verifharness/core"

	"github.com/cinar/indicator/v2/asset"
	"github.com/cinar/indicator/v2/helper"
	"github.com/cinar/indicator/v2/verifmc/mc"
)

// Row shapes over the supported kinds.
type rowS struct {
	A string
	B string
	C bool
}
type rowI struct {
	A int8
	B int16
	C int32
	D int64
	E int
}
type rowU struct {
	A uint8
	B uint16
	C uint32
	D uint64
	E uint
}
type rowF struct {
	A float32
	B float64
	C float64
}
type rowT struct {
	A time.Time
	B time.Time `format:"2006-01-02"`
	C string    `header:"note"`
}
type row1 struct {
	A string
}
type jsonOpt struct {
	A int      `json:"a,omitempty"`
	B []string `json:"b,omitempty"`
	C string   `json:"c,omitempty"`
}

// header names that differ only in case, in a trailing digit or by being a prefix of one another are different columns
type rowK struct {
	Lower  float64 `header:"k"`
	Upper  float64 `header:"K"`
	Long   int     `header:"kk"`
	K1     string  `header:"k1"`
	Kspace string  `header:"k k"`
}

type jsonAny struct {
	Name  string
	Value any
}

type rowP struct { // header permutation shape
	W string  `header:"w"`
	X int     `header:"x"`
	Y float64 `header:"y"`
	Z bool    `header:"z"`
}

var (
	catStrings = []string{"", "a", "a,b", `say "hi"`, "line1\nline2", " lead", "trail ", "üñí€", ",", `"`}
	// strings that look like something else to a lenient reader: missing-value markers, numbers, booleans, comments
	catLookalikes = []string{"null", "NULL", "nil", "NaN", "N/A", "-", "0", "1e5", "true", "#x", "2024-01-02", "\\N", "=1+1"}
	catF64        = []float64{0, math.Copysign(0, -1), 5e-324, math.MaxFloat64, -math.MaxFloat64, 0.1, 1e21, 1.0 / 3, 123456789.125, math.Inf(1), math.NaN()}
	catF32        = []float32{0, float32(math.Copysign(0, -1)), math.SmallestNonzeroFloat32, math.MaxFloat32, 0.1, 16777217, math.Nextafter32(1, 2), float32(math.Inf(-1))}
	catTimes      = []time.Time{{}, time.Date(1999, 12, 31, 23, 59, 59, 0, time.UTC), time.Date(2024, 2, 29, 12, 0, 0, 0, time.UTC), time.Date(9999, 12, 31, 0, 0, 1, 0, time.UTC)}
	catDates      = []time.Time{{}, time.Date(2000, 1, 1, 0, 0, 0, 0, time.UTC), time.Date(2024, 2, 29, 0, 0, 0, 0, time.UTC), time.Date(2038, 1, 19, 0, 0, 0, 0, time.UTC)}
)

func valEq(a, b reflect.Value) bool {
	if !a.IsValid() || !b.IsValid() {
		return a.IsValid() == b.IsValid()
	}
	if a.Type() != b.Type() {
		return false // e.g. a float64 that comes back as a json.Number
	}
	switch a.Kind() {
	case reflect.Interface:
		if a.IsNil() || b.IsNil() {
			return a.IsNil() == b.IsNil()
		}
		return valEq(a.Elem(), b.Elem())
	case reflect.Float32, reflect.Float64:
		x, y := a.Float(), b.Float()
		return math.Float64bits(x) == math.Float64bits(y) || (math.IsNaN(x) && math.IsNaN(y))
	case reflect.Struct:
		if t, ok := a.Interface().(time.Time); ok {
			u := b.Interface().(time.Time)
			return t.Equal(u) && u.Location() == time.UTC
		}
		for i := 0; i < a.NumField(); i++ {
			if !valEq(a.Field(i), b.Field(i)) {
				return false
			}
		}
		return true
	case reflect.Map:
		if a.Len() != b.Len() {
			return false
		}
		for _, k := range a.MapKeys() {
			bv := b.MapIndex(k)
			if !bv.IsValid() || !valEq(a.MapIndex(k), bv) {
				return false
			}
		}
		return true
	case reflect.Slice:
		if a.Len() != b.Len() {
			return false
		}
		for i := 0; i < a.Len(); i++ {
			if !valEq(a.Index(i), b.Index(i)) {
				return false
			}
		}
		return true
	case reflect.Pointer:
		if a.IsNil() || b.IsNil() {
			return a.IsNil() == b.IsNil()
		}
		return valEq(a.Elem(), b.Elem())
	default:
		return a.Interface() == b.Interface()
	}
}

func rowsEq[T any](a, b []*T) bool {
	if len(a) != len(b) {
		return false
	}
	for i := range a {
		if a[i] == nil || b[i] == nil || !valEq(reflect.ValueOf(*a[i]), reflect.ValueOf(*b[i])) {
			return false
		}
	}
	return true
}

func descRows[T any](rs []*T) string {
	var p []string
	for _, r := range rs {
		if r == nil {
			p = append(p, "nil")
		} else {
			p = append(p, fmt.Sprintf("%+v", *r))
		}
	}
	return "[" + strings.Join(p, " ") + "]"
}

func drain[T any](c <-chan T) []T {
	var out []T
	for {
		v, ok := mc.Recv2(c)
		if !ok {
			return out
		}
		out = append(out, v)
	}
}

// csvRoundTrip writes rows to a fresh file and reads them back, all inside one controlled execution.
func csvRoundTrip[T any](dir string, rows []*T, header bool) (got []*T, problem string) {
	file := filepath.Join(dir, "rt.csv")
	os.Remove(file)
	res := mc.Run(func() {
		// the codec always writes the header row; a header-less reader is fed the same file without its first line
		w, err := helper.NewCsv[T](true)
		if err != nil {
			problem = err.Error()
			return
		}
		if err := w.WriteToFile(file, Feed(rows, 0)); err != nil {
			problem = "WriteToFile: " + err.Error()
			return
		}
		if !header {
			b, _ := os.ReadFile(file)
			if i := bytes.IndexByte(b, '\n'); i >= 0 {
				os.WriteFile(file, b[i+1:], 0o600)
			}
		}
		c, _ := helper.NewCsv[T](header)
		ch, err := c.ReadFromFile(file)
		if err != nil {
			problem = "ReadFromFile: " + err.Error()
			return
		}
		got = drain(ch)
	}, mc.Options{})
	if problem == "" {
		if len(res.Panics) > 0 {
			problem = "panic: " + res.Panics[0].Value
		} else if res.Deadlock {
			problem = "hang: " + blockedDesc(res)
		}
	}
	return
}

func rtUnit[T any](c *core.Ctx, shape string, rows []*T, knownKey func(r *T) string) {
	dir := mustTempDir("c11")
	defer os.RemoveAll(dir)
	for _, header := range []bool{true, false} {
		// every row alone, then all rows in one file
		for i := 0; i <= len(rows); i++ {
			batch := rows
			if i < len(rows) {
				batch = rows[i : i+1]
			}
			got, prob := csvRoundTrip(dir, batch, header)
			c.Executions++
			c.States++
			c.Evaluations++
			if prob == "" && !rowsEq(got, batch) {
				prob = fmt.Sprintf("read back %s", descRows(got))
			}
			if prob != "" {
				key := ""
				if knownKey != nil && len(batch) == 1 {
					key = knownKey(batch[0])
				}
				if len(batch) > 1 && knownKey != nil {
					// the combined file fails for the same reason if removing the known rows repairs it
					var rest []*T
					for _, r := range batch {
						if knownKey(r) == "" {
							rest = append(rest, r)
						}
					}
					if g2, p2 := csvRoundTrip(dir, rest, header); p2 == "" && rowsEq(g2, rest) && len(rest) < len(batch) {
						key = knownKey(firstKnown(batch, knownKey))
					}
				}
				n := len(batch)
				show := batch
				if n > 3 {
					show = batch[:3]
				}
				c.Fail(key, fmt.Sprintf("CSV round trip of %s (header=%v) rows %s (%d rows): %s", shape, header, descRows(show), n, prob), map[string]any{"shape": shape, "header": header})
			} else {
				c.Nontrivial++
			}
			if i == 3 && header {
				c.Sample(map[string]any{"shape": shape, "row": fmt.Sprintf("%+v", *batch[0])})
			}
		}
	}
}

func firstKnown[T any](rows []*T, k func(*T) string) *T {
	for _, r := range rows {
		if k(r) != "" {
			return r
		}
	}
	return rows[0]
}

func permutations(xs []int) [][]int {
	if len(xs) <= 1 {
		return [][]int{append([]int{}, xs...)}
	}
	var out [][]int
	for i := range xs {
		rest := append(append([]int{}, xs[:i]...), xs[i+1:]...)
		for _, p := range permutations(rest) {
			out = append(out, append([]int{xs[i]}, p...))
		}
	}
	return out
}

func headerUnit(c *core.Ctx) {
	cols := []string{"w", "x", "y", "z"}
	vals := [][]string{{"a b", "7", "0.25", "true"}, {`q"r`, "-3", "1e+21", "false"}}
	want := []*rowP{{"a b", 7, 0.25, true}, {`q"r`, -3, 1e21, false}}
	check := func(label string, header []string, pick []int, expect []*rowP) {
		var buf bytes.Buffer
		buf.WriteString(strings.Join(header, ",") + "\n")
		for _, v := range vals {
			var f []string
			for _, i := range pick {
				if i < 0 {
					f = append(f, "extra")
				} else {
					f = append(f, `"`+strings.ReplaceAll(v[i], `"`, `""`)+`"`)
				}
			}
			buf.WriteString(strings.Join(f, ",") + "\n")
		}
		var got []*rowP
		res := mc.Run(func() {
			cs, _ := helper.NewCsv[rowP](true)
			got = drain(cs.ReadFromReader(bytes.NewReader(buf.Bytes())))
		}, mc.Options{})
		c.Executions++
		c.States++
		c.Evaluations++
		if len(res.Panics) > 0 || res.Deadlock || !rowsEq(got, expect) {
			c.Fail("", fmt.Sprintf("CSV header mapping %s: file %q read as %s, expected %s (panics=%d deadlock=%v)", label, buf.String(), descRows(got), descRows(expect), len(res.Panics), res.Deadlock), nil)
		} else {
			c.Nontrivial++
		}
	}
	for _, p := range permutations([]int{0, 1, 2, 3}) {
		h := make([]string, 4)
		for i, j := range p {
			h[i] = cols[j]
		}
		check(fmt.Sprint("permutation ", p), h, p, want)
		// one extra column at every position; its name is unrelated, or differs from a real column only in case,
		// by a doubled letter or by a suffix (header names are matched exactly)
		for at := 0; at <= 4; at++ {
			for _, name := range []string{"extra", "W", "X", "Y", "Z", "ww", "x1", "W ", ""} {
				h2 := append(append(append([]string{}, h[:at]...), name), h[at:]...)
				p2 := append(append(append([]int{}, p[:at]...), -1), p[at:]...)
				check(fmt.Sprintf("permutation %v extra column %q at %d", p, name, at), h2, p2, want)
			}
		}
	}
	// one missing column: the field keeps its zero value
	for miss := 0; miss < 4; miss++ {
		var h []string
		var p []int
		for i := 0; i < 4; i++ {
			if i != miss {
				h = append(h, cols[i])
				p = append(p, i)
			}
		}
		var exp []*rowP
		for _, w := range want {
			r := *w
			switch miss {
			case 0:
				r.W = ""
			case 1:
				r.X = 0
			case 2:
				r.Y = 0
			case 3:
				r.Z = false
			}
			exp = append(exp, &r)
		}
		check(fmt.Sprint("missing column ", cols[miss]), h, p, exp)
	}
	c.Sample(map[string]any{"header_permutations": 24, "columns": cols})
}

// ---------------------------------------------------------------- one codec instance used for reads and writes

// instanceReuseUnit: all sequences (length <= maxLen) of reads of differently laid out files, writes and appends on
// ONE Csv instance; after every write/append the file is read back with a fresh codec and with the same instance.
func instanceReuseUnit(c *core.Ctx, maxLen int) {
	rowsA := []*rowP{{"a b", 7, 0.25, true}, {`q"r`, -3, 1e21, false}}
	rowsB := []*rowP{{"z", 1, 0.5, true}}
	layouts := map[string]string{
		"read-natural":  "w,x,y,z\nn,1,1.5,true\n",
		"read-permuted": "z,y,x,w\ntrue,1.5,1,n\n",
		"read-rotated":  "y,z,w,x\n1.5,true,n,1\n",
		"read-missing":  "w,z\nn,true\n",
		"read-extra":    "extra,w,x,y,z\ne,n,1,1.5,true\n",
	}
	wantRead := map[string]*rowP{
		"read-natural": {"n", 1, 1.5, true}, "read-permuted": {"n", 1, 1.5, true}, "read-rotated": {"n", 1, 1.5, true},
		"read-missing": {"n", 0, 0, true}, "read-extra": {"n", 1, 1.5, true},
	}
	ops := []string{"read-natural", "read-permuted", "read-rotated", "read-missing", "read-extra", "write", "append"}
	dir := mustTempDir("c11i")
	defer os.RemoveAll(dir)
	file := filepath.Join(dir, "i.csv")
	var n int64
	var rec func(hist []string)
	rec = func(hist []string) {
		if len(hist) > 0 {
			os.Remove(file)
			viol := ""
			res := mc.Run(func() {
				cs, _ := helper.NewCsv[rowP](true)
				cs.Logger = quietLogger
				var model []*rowP
				exists := false
				for i, op := range hist {
					switch op {
					case "write":
						if err := cs.WriteToFile(file, Feed(rowsA, 0)); err != nil {
							viol = fmt.Sprintf("step %d write failed: %v", i, err)
							return
						}
						model, exists = append([]*rowP{}, rowsA...), true
					case "append":
						if !exists {
							continue
						}
						if err := cs.AppendToFile(file, Feed(rowsB, 0)); err != nil {
							viol = fmt.Sprintf("step %d append failed: %v", i, err)
							return
						}
						model = append(model, rowsB...)
					default:
						got := drain(cs.ReadFromReader(strings.NewReader(layouts[op])))
						if !rowsEq(got, []*rowP{wantRead[op]}) {
							viol = fmt.Sprintf("step %d %s: read %s, expected %s", i, op, descRows(got), descRows([]*rowP{wantRead[op]}))
							return
						}
						continue
					}
					// read back with a fresh codec and with the same instance
					ch, err := helper.ReadFromCsvFile[rowP](file, true)
					if err != nil {
						viol = fmt.Sprintf("after step %d %s the file cannot be read: %v", i, op, err)
						return
					}
					if got := drain(ch); !rowsEq(got, model) {
						viol = fmt.Sprintf("after step %d %s a fresh codec reads %s, written so far %s", i, op, descRows(got), descRows(model))
						return
					}
					ch, err = cs.ReadFromFile(file)
					if err != nil {
						viol = fmt.Sprintf("after step %d %s the writing codec cannot read its file: %v", i, op, err)
						return
					}
					if got := drain(ch); !rowsEq(got, model) {
						viol = fmt.Sprintf("after step %d %s the writing codec reads %s, written so far %s", i, op, descRows(got), descRows(model))
						return
					}
				}
			}, mc.Options{})
			n++
			c.Executions++
			c.Transitions += int64(res.Events)
			if viol == "" && len(res.Panics) > 0 {
				viol = "panic: " + res.Panics[0].Value
			}
			if viol == "" && res.Deadlock {
				viol = "hang: " + blockedDesc(res)
			}
			if viol != "" {
				c.Fail("", fmt.Sprintf("one Csv codec instance, operations %v: %s", hist, viol), map[string]any{"operations": hist})
			} else {
				c.Nontrivial++
			}
			if n == 40 {
				c.Sample(map[string]any{"codec_instance_operations": hist})
			}
		}
		if len(hist) == maxLen {
			return
		}
		for _, op := range ops {
			rec(append(append([]string{}, hist...), op))
		}
	}
	rec(nil)
	c.States += n
	c.Evaluations += n
}

// ---------------------------------------------------------------- file histories

type fileOp struct {
	Kind string // write, append, appendOrWrite
	Rows int    // index into the row lists
}

func (o fileOp) String() string { return fmt.Sprintf("%s(rows#%d)", o.Kind, o.Rows) }

func fileHistUnit(c *core.Ctx, depth int) {
	mk := func(i int) *asset.Snapshot { return snap(i, i%3) }
	lists := [][]*asset.Snapshot{{}, {mk(0)}, {mk(1), mk(2), mk(3)}, {mk(4)}}
	dir := mustTempDir("c11h")
	defer os.RemoveAll(dir)
	file := filepath.Join(dir, "h.csv")
	// replay returns the file bytes ("<missing>" if absent) and a violation
	replay := func(hist []fileOp) (string, string, string) {
		os.Remove(file)
		var model []*asset.Snapshot
		exists := false
		viol, key := "", ""
		res := mc.Run(func() {
			cs, _ := helper.NewCsv[asset.Snapshot](true)
			for i, op := range hist {
				rows := lists[op.Rows]
				var err error
				switch op.Kind {
				case "write":
					err = cs.WriteToFile(file, Feed(rows, 0))
					model, exists = append([]*asset.Snapshot{}, rows...), true
				case "append":
					err = cs.AppendToFile(file, Feed(rows, 0))
					model = append(model, rows...)
				case "appendOrWrite":
					err = helper.AppendOrWriteToCsvFile(file, true, Feed(rows, 0))
					model, exists = append(model, rows...), true
				}
				if err != nil {
					viol = fmt.Sprintf("step %d %v failed: %v", i, op, err)
					return
				}
				ch, err := helper.ReadFromCsvFile[asset.Snapshot](file, true)
				if err != nil {
					viol = fmt.Sprintf("after step %d %v the file cannot be read: %v", i, op, err)
					return
				}
				if got := drain(ch); !sameSnaps(got, model) {
					viol = fmt.Sprintf("after step %d %v the file reads as %s, expected %s", i, op, descSnaps(got), descSnaps(model))
					if op.Kind == "write" {
						key = "csv-write-does-not-truncate"
					}
					return
				}
			}
		}, mc.Options{})
		_ = exists
		if viol == "" && (len(res.Panics) > 0 || res.Deadlock) {
			viol = fmt.Sprintf("panic/hang: panics=%d deadlock=%v %s", len(res.Panics), res.Deadlock, blockedDesc(res))
		}
		b, err := os.ReadFile(file)
		if err != nil {
			return "<missing>", viol, key
		}
		return string(b), viol, key
	}
	seen := map[string]bool{"<missing>": true}
	type st struct {
		h     []fileOp
		bytes string
	}
	frontier := []st{{nil, "<missing>"}}
	for d := 0; d < depth && len(frontier) > 0; d++ {
		var next []st
		for _, s := range frontier {
			for _, kind := range []string{"write", "append", "appendOrWrite"} {
				if kind == "append" && (s.bytes == "<missing>" || s.bytes == "") {
					continue // AppendToFile presupposes an existing file that already has its header
				}
				for li := range lists {
					h2 := append(append([]fileOp{}, s.h...), fileOp{kind, li})
					state, viol, key := replay(h2)
					c.Transitions++
					c.Executions++
					if viol != "" {
						c.Fail(key, fmt.Sprintf("CSV file history %v: %s", h2, viol), map[string]any{"history": fmt.Sprint(h2)})
						continue
					}
					if !seen[state] {
						seen[state] = true
						next = append(next, st{h2, state})
						if len(seen) == 5 {
							c.Sample(map[string]any{"file_history": fmt.Sprint(h2), "file_bytes": state})
						}
					}
				}
			}
		}
		frontier = next
	}
	c.States += int64(len(seen))
	c.Evaluations += int64(len(seen))
	c.Nontrivial += int64(len(seen) - 1)
	c.Notes["file histories"] = map[string]any{"states": len(seen), "depth": depth}
}

// ---------------------------------------------------------------- JSON

func jsonRT[T any](c *core.Ctx, label string, vals []T) {
	for i := 0; i <= len(vals); i++ {
		batch := vals
		if i < len(vals) {
			batch = vals[i : i+1]
		}
		var got []T
		var werr error
		res := mc.Run(func() {
			var buf bytes.Buffer
			werr = helper.ChanToJSON(Feed(batch, 0), &buf)
			if werr == nil {
				got = drain(helper.JSONToChan[T](&buf))
			}
		}, mc.Options{})
		c.Executions++
		c.States++
		c.Evaluations++
		ok := werr == nil && len(res.Panics) == 0 && !res.Deadlock && len(got) == len(batch)
		if ok {
			for j := range batch {
				if !valEq(reflect.ValueOf(batch[j]), reflect.ValueOf(got[j])) {
					ok = false
				}
			}
		}
		if !ok {
			c.Fail("", fmt.Sprintf("JSON round trip of %s values %v: got %v (err=%v panics=%d deadlock=%v)", label, batch, got, werr, len(res.Panics), res.Deadlock), nil)
		} else {
			c.Nontrivial++
		}
	}
}

func init() {
	core.Register(&core.Check{
		ID:   "C11",
		Rule: "(a) full cartesian products of per-kind boundary catalogues for five row shapes (strings incl. quotes/commas/newlines/unicode, bool, int8..int64, uint8..uint64, float32/float64 incl. -0, subnormals, max, NaN, Inf, time.Time in both formats) plus asset.Snapshot and a one-column shape, each row alone and all rows in one file, with and without header, through WriteToFile/ReadFromFile; (b) all 24 header permutations of a 4-column shape, with an extra column at every position, and each column missing; (c) explicit-state BFS over WriteToFile/AppendToFile/AppendOrWriteToCsvFile histories (4 row lists, depth 4 / 5 thorough) deduplicated on the file bytes with a list model read back after every step; (d) ChanToJSON->JSONToChan on the same catalogues; (e) all sequences (length <= 4 / 5) of reads of five differently laid out files (permuted, missing, extra columns), writes and appends on ONE codec instance, read back with a fresh codec and with the same instance. Every case is one controlled execution of the real codec. states = cases / BFS states; non-trivial = cases that round-tripped",
		Assume: []string{"carriage returns are excluded (encoding/csv normalises \\r\\n inside quoted fields); JSON floats are finite; times are whole seconds (default format) or whole days (date format) in UTC",
			"AppendToFile is only applied to an existing file that already has content (it presupposes the header)"},
		Units: func(tier string) []core.Unit {
			depth := 4
			if tier == "thorough" {
				depth = 5
			}
			var us []core.Unit
			us = append(us, core.Unit{Key: "csv-strings", Cost: 20, Run: func(c *core.Ctx) {
				var rows []*rowS
				for _, a := range catStrings {
					for _, b := range catStrings {
						for _, x := range []bool{false, true} {
							rows = append(rows, &rowS{a, b, x})
						}
					}
				}
				rtUnit(c, "struct{string,string,bool}", rows, nil)
			}})
			us = append(us, core.Unit{Key: "csv-lookalike-strings", Cost: 10, Run: func(c *core.Ctx) {
				var rows []*rowS
				for _, a := range catLookalikes {
					for _, b := range []string{"x", a} {
						rows = append(rows, &rowS{a, b, len(a)%2 == 0}, &rowS{b, a, true})
					}
				}
				rtUnit(c, "struct{string,string,bool} with look-alike strings", rows, nil)
				var ones []*row1
				for _, a := range catLookalikes {
					ones = append(ones, &row1{a})
				}
				rtUnit(c, "struct{string} with look-alike strings", ones, nil)
			}})
			us = append(us, core.Unit{Key: "csv-ints", Cost: 20, Run: func(c *core.Ctx) {
				var rows []*rowI
				for _, a := range []int8{math.MinInt8, -1, 0, math.MaxInt8} {
					for _, b := range []int16{math.MinInt16, 0, math.MaxInt16} {
						for _, x := range []int32{math.MinInt32, 1, math.MaxInt32} {
							for _, d := range []int64{math.MinInt64, -1, 0, math.MaxInt64} {
								rows = append(rows, &rowI{a, b, x, d, int(d)})
							}
						}
					}
				}
				rtUnit(c, "struct{int8,int16,int32,int64,int}", rows, nil)
			}})
			us = append(us, core.Unit{Key: "csv-uints", Cost: 10, Run: func(c *core.Ctx) {
				var rows []*rowU
				for _, a := range []uint8{0, 1, math.MaxUint8} {
					for _, b := range []uint16{0, math.MaxUint16} {
						for _, x := range []uint32{0, math.MaxUint32} {
							for _, d := range []uint64{0, 1, math.MaxUint64} {
								rows = append(rows, &rowU{a, b, x, d, uint(d)})
							}
						}
					}
				}
				rtUnit(c, "struct{uint8,uint16,uint32,uint64,uint}", rows, nil)
			}})
			us = append(us, core.Unit{Key: "csv-floats", Cost: 30, Run: func(c *core.Ctx) {
				var rows []*rowF
				for _, a := range catF32 {
					for _, b := range catF64 {
						for _, x := range catF64 {
							rows = append(rows, &rowF{a, b, x})
						}
					}
				}
				rtUnit(c, "struct{float32,float64,float64}", rows, nil)
			}})
			us = append(us, core.Unit{Key: "csv-times", Cost: 10, Run: func(c *core.Ctx) {
				var rows []*rowT
				for _, a := range catTimes {
					for _, b := range catDates {
						for _, s := range []string{"", "x,y", "ok"} {
							rows = append(rows, &rowT{a, b, s})
						}
					}
				}
				rtUnit(c, "struct{time,date,string}", rows, nil)
			}})
			us = append(us, core.Unit{Key: "csv-snapshots", Cost: 5, Run: func(c *core.Ctx) {
				var rows []*asset.Snapshot
				for i := 0; i < 12; i++ {
					rows = append(rows, snap(i, i%3))
				}
				rtUnit(c, "asset.Snapshot", rows, nil)
			}})
			us = append(us, core.Unit{Key: "csv-one-column", Cost: 5, Run: func(c *core.Ctx) {
				var rows []*row1
				for _, a := range catStrings {
					rows = append(rows, &row1{a})
				}
				rtUnit(c, "struct{string}", rows, func(r *row1) string {
					if r.A == "" {
						return "csv-single-empty-field-row-lost"
					}
					return ""
				})
			}})
			us = append(us, core.Unit{Key: "csv-near-equal-headers", Cost: 5, Run: func(c *core.Ctx) {
				var rows []*rowK
				for _, a := range []float64{1.5, -2} {
					for _, b := range []float64{2.5, 0} {
						for _, l := range []int{3, -7} {
							for _, k1 := range []string{"a", ""} {
								rows = append(rows, &rowK{a, b, l, k1, "z" + k1})
							}
						}
					}
				}
				rtUnit(c, "struct with headers k, K, kk, k1, 'k k'", rows, nil)
			}})
			us = append(us, core.Unit{Key: "csv-header", Cost: 5, Run: headerUnit})
			us = append(us, core.Unit{Key: "csv-file-histories", Cost: 40, Run: func(c *core.Ctx) { fileHistUnit(c, depth) }})
			us = append(us, core.Unit{Key: "csv-instance-reuse", Cost: 30, Run: func(c *core.Ctx) { instanceReuseUnit(c, depth) }})
			us = append(us, core.Unit{Key: "json", Cost: 10, Run: func(c *core.Ctx) {
				jsonRT(c, "string", catStrings)
				jsonRT(c, "float64", catF64[:9])
				jsonRT(c, "float32", catF32[:7])
				jsonRT(c, "int64", []int64{math.MinInt64, -1, 0, math.MaxInt64})
				jsonRT(c, "uint64", []uint64{0, math.MaxUint64})
				jsonRT(c, "bool", []bool{true, false})
				jsonRT(c, "time", catTimes)
				var snaps []asset.Snapshot
				for i := 0; i < 6; i++ {
					snaps = append(snaps, *snap(i, i%3))
				}
				jsonRT(c, "asset.Snapshot", snaps)
				var rs []rowS
				for _, a := range catStrings {
					rs = append(rs, rowS{a, a + "!", len(a)%2 == 0})
				}
				jsonRT(c, "struct{string,string,bool}", rs)
				// element types whose decoding merges into an existing value: each element must start from a fresh zero value
				jsonRT(c, "map[string]int", []map[string]int{{"a": 1, "b": 2}, {"c": 3}, {}, {"a": 4}})
				jsonRT(c, "[]int", [][]int{{1, 2, 3}, {4}, {}, {5, 6}})
				one, two := 1.5, 2.5
				jsonRT(c, "*float64", []*float64{&one, nil, &two, &one})
				// interface-typed positions: what was written as a float64, string, bool, nil, object or array comes back as one
				jsonRT(c, "any", []any{1.5, "x", true, nil, -0.25, map[string]any{"a": 2.0, "b": []any{1.0, "y"}}, []any{3.0, nil}})
				jsonRT(c, "map[string]any", []map[string]any{{"n": 318.600006, "s": "t"}, {}, {"deep": map[string]any{"k": 1e21}}, {"z": nil}})
				jsonRT(c, "[]any", [][]any{{1.0, 2.5}, {}, {"a", false}, {[]any{0.1}}})
				jsonRT(c, "struct with an any field", []jsonAny{{Name: "a", Value: 1.5}, {Name: "b", Value: "s"}, {}, {Name: "c", Value: []any{2.0}}})
				jsonRT(c, "struct with omitempty", []jsonOpt{{A: 7, B: []string{"x", "y"}, C: "n"}, {}, {A: 1}, {B: []string{"z"}}})
				c.Sample(map[string]any{"json_values": "strings, floats, ints, bools, times, snapshots, structs, maps, slices, pointers (incl. null), structs with omitted fields"})
			}})
			return us
		},
	})
}
