package checks

import (
	"fmt"

	"verifharness/cat"
	"verifharness/core"

	"github.com/cinar/indicator/v2/strategy"
	"github.com/cinar/indicator/v2/verifmc/mc"
)

// Long-series cut test for C04: one de Bruijn series S (every window of 4 symbols once, 628 values) per configuration;
// for several cut points m the suffix after m is replaced by different symbols and everything emitted for positions
// <= m must be bit-identical; the run on the prefix S[:m] must agree with the full run on all it emits. The
// configurations include degenerate ones (each numeric component of the first configuration set to 0 in turn: a
// zero-value period or level is a configuration too) - runs that do not terminate cleanly are left to C03.

func degenerate(cfgs [][]float64) [][]float64 {
	if len(cfgs) == 0 {
		return nil
	}
	var out [][]float64
	base := cfgs[0]
	for i := range base {
		if base[i] == 0 {
			continue
		}
		d := append([]float64{}, base...)
		d[i] = 0
		out = append(out, d)
	}
	return out
}

// c04Known names the recorded look-ahead findings (known_findings.json) by indicator and configuration.
func c04Known(name string, cfg []float64) string {
	if name == "momentum.IchimokuCloud" && len(cfg) >= 2 && cfg[1] < cfg[0] {
		// the alignment skips assume ConversionPeriod <= BasePeriod <= LeadingPeriod; with a shorter base period the
		// conversion line, base line and leading span A are skipped one bar per missing period too far
		return "ichimoku-base-period-below-conversion-period"
	}
	return ""
}

func safely[T any](f func() T) (v T, ok bool) {
	defer func() {
		if recover() != nil {
			ok = false
		}
	}()
	return f(), true
}

func cutPoints(n int) []int { return []int{n / 3, n - 120, n - 55, n - 2} }

func c04LongInd(c *core.Ctx, e *cat.Ind, cfgs [][]float64, degen bool) {
	lrows := alphabet(e.In, true)
	if len(e.In) > 2 || (len(lrows) == len(sigmaBars) && len(e.In) >= 2) {
		lrows = lrows[:5]
	}
	word, order := deBruijn(len(lrows), 600)
	n := len(word)
	build := func(w2 []int) [][]float64 {
		in := make([][]float64, len(e.In))
		for f := range in {
			col := make([]float64, len(w2))
			for i, sy := range w2 {
				col[i] = lrows[sy][f]
			}
			in[f] = col
		}
		return in
	}
	for _, cfg := range cfgs {
		inst, ok := safely(func() *cat.Inst { return e.New(cfg) })
		if !ok {
			c.Count("degenerate configurations whose constructor panics", 1)
			continue
		}
		w := max(inst.Idle, 0)
		label := e.Name + fmtCfg(cfg)
		full := RunInd(inst, build(word), 0, mc.Options{})
		c.Executions++
		c.Transitions += int64(full.Res.Events)
		c.States++
		c.Evaluations++
		if !full.Healthy() {
			c.Count("long series whose execution did not reach clean quiescence (left to C03)", 1)
			continue
		}
		emitted := false
		for _, o := range full.Outs {
			if len(o) > 0 {
				emitted = true
			}
		}
		if emitted {
			c.Nontrivial++
		}
		for _, m := range cutPoints(n) {
			alt := append([]int{}, word...)
			for i := m; i < n; i++ {
				alt[i] = (alt[i] + 2) % len(lrows)
			}
			for vi, variant := range [][]int{alt, word[:m]} {
				i2, ok := safely(func() *cat.Inst { return e.New(cfg) })
				if !ok {
					continue
				}
				r := RunInd(i2, build(variant), 0, mc.Options{})
				c.Executions++
				c.Transitions += int64(r.Res.Events)
				if !r.Healthy() {
					continue
				}
				for j := range full.Outs {
					if j >= len(r.Outs) {
						break
					}
					for k := 0; k+w < m && k < len(full.Outs[j]); k++ {
						what := fmt.Sprintf("when the inputs from position %d on are replaced", m)
						if vi == 1 {
							what = fmt.Sprintf("on the prefix of %d values", m)
						}
						if k >= len(r.Outs[j]) {
							if vi == 1 {
								break // how many values a prefix yields is C02's business
							}
							c.Fail(c04Known(e.Name, cfg), fmt.Sprintf("%s on the de Bruijn series (order %d, %d values): output %d has %d values %s but %d on the original, although only later inputs differ", label, order, n, j, len(r.Outs[j]), what, len(full.Outs[j])), map[string]any{"indicator": e.Name, "config": cfg, "cut": m, "degenerate": degen})
							break
						}
						if !bitsEq(full.Outs[j][k], r.Outs[j][k]) {
							c.Fail(c04Known(e.Name, cfg), fmt.Sprintf("%s on the de Bruijn series (order %d, %d values): output %d value %d (input position %d) is %.12g on the whole series but %.12g %s (look-ahead)", label, order, n, j, k, k+w, full.Outs[j][k], r.Outs[j][k], what), map[string]any{"indicator": e.Name, "config": cfg, "cut": m, "degenerate": degen})
							break
						}
					}
				}
			}
		}
	}
}

func c04LongStrat(c *core.Ctx, e *cat.Strat, cfgs [][]float64, degen bool) {
	word, order := deBruijn(5, 600)
	n := len(word)
	for _, cfg := range cfgs {
		label := e.Name + fmtCfg(cfg)
		mk := func() (strategy.Strategy, bool) { return safely(func() strategy.Strategy { return e.New(cfg) }) }
		s, ok := mk()
		if !ok || s == nil {
			c.Count("degenerate configurations whose constructor panics", 1)
			continue
		}
		full := RunStrategy(s, cat.Snapshots(rowsOf(word)), 0, mc.Options{})
		c.Executions++
		c.Transitions += int64(full.Res.Events)
		c.States++
		c.Evaluations++
		if !full.Healthy() {
			c.Count("long series whose execution did not reach clean quiescence (left to C03)", 1)
			continue
		}
		acted := false
		for _, a := range full.Actions {
			if a != 0 {
				acted = true
			}
		}
		if acted {
			c.Nontrivial++
		}
		for _, m := range cutPoints(n) {
			alt := append([]int{}, word...)
			for i := m; i < n; i++ {
				alt[i] = (alt[i] + 2) % 5
			}
			for vi, variant := range [][]int{alt, word[:m]} {
				s2, ok := mk()
				if !ok {
					continue
				}
				r := RunStrategy(s2, cat.Snapshots(rowsOf(variant)), 0, mc.Options{})
				c.Executions++
				c.Transitions += int64(r.Res.Events)
				if !r.Healthy() {
					continue
				}
				what := fmt.Sprintf("when the snapshots from %d on are replaced", m)
				if vi == 1 {
					what = fmt.Sprintf("on the prefix of %d snapshots", m)
				}
				for k := 0; k < m && k < len(full.Actions); k++ {
					if k >= len(r.Actions) {
						break // counts are C05's business
					}
					if full.Actions[k] != r.Actions[k] {
						c.Fail("", fmt.Sprintf("%s on the de Bruijn series (order %d, %d snapshots): action %d is %d on the whole series but %d %s (look-ahead)", label, order, n, k, full.Actions[k], r.Actions[k], what), map[string]any{"strategy": e.Name, "config": cfg, "cut": m, "degenerate": degen})
						break
					}
				}
			}
		}
	}
}
