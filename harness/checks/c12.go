package checks

import (
	"errors"
	"fmt"
	"io"
	"log/slog"
	"os"
	"path/filepath"
	"runtime/pprof"
	"sort"
	"strings"
	"time"
	_ "time/tzdata" // the daylight-saving scenarios must not depend on the host's zone database

	"verifharness/core"
	"verifharness/explore"

	"github.com/cinar/indicator/v2/asset"
	"github.com/cinar/indicator/v2/verifmc/mc"
)

var quietLogger = slog.New(slog.NewTextHandler(io.Discard, nil))

// faultRepo makes Append fail for chosen assets (after consuming the stream, so
// that the injected fault itself strands nobody).
type faultRepo struct {
	asset.Repository
	fail map[string]bool
}

func (f *faultRepo) Append(name string, sn <-chan *asset.Snapshot) error {
	if f.fail[name] {
		for {
			if _, ok := mc.Recv2(sn); !ok {
				break
			}
		}
		return errors.New("injected append failure")
	}
	return f.Repository.Append(name, sn)
}

// Assets returns the names in sorted order so that executions are deterministic
// (the in-memory repository iterates a map).
func (f *faultRepo) Assets() ([]string, error) {
	a, err := f.Repository.Assets()
	sort.Strings(a)
	return a, err
}

// per-asset situation
type syncAsset struct {
	Target int  // number of snapshots already in the target (0 = asset absent, -1 = a zero-byte file exists: file-system target only), dated d0..
	Source bool // present at the source with d0..d3
	Fault  bool // target Append fails
}

func (a syncAsset) String() string {
	s := fmt.Sprintf("t%d", a.Target)
	if !a.Source {
		s += "-nosrc"
	}
	if a.Fault {
		s += "-fault"
	}
	return s
}

type syncScen struct {
	Assets   []syncAsset
	Workers  int
	Explicit bool   // explicit asset list (otherwise taken from the target)
	Kind     string // memory | filesystem
	Cal      int    // calendar of the snapshot dates: 0 = UTC midnights of March 2021; 1 / 2 = local midnights in America/New_York where day 1 is the 23-hour / 25-hour day of 2024; 3 = year 2300; 4 = new year 1902
	Repeat   bool   // the explicit list names every asset twice (A B A B): two watch lists concatenated
	Delay    int    // Sync.Delay in seconds (the default of NewSync is 5; the pause is a scheduling point, no wall-clock time passes)
}

var nyLoc = func() *time.Location {
	l, err := time.LoadLocation("America/New_York") // from the embedded time/tzdata
	if err != nil {
		panic(err)
	}
	return l
}()

// calDay is day d of the scenario's calendar ("the day after" is a calendar notion: with daylight saving a day has 23 or 25 hours).
func calDay(cal, d int) time.Time {
	switch cal {
	case 1:
		return time.Date(2024, 3, 9+d, 0, 0, 0, 0, nyLoc) // day 1 = 10 March 2024, 23 hours
	case 2:
		return time.Date(2024, 11, 2+d, 0, 0, 0, 0, nyLoc) // day 1 = 3 November 2024, 25 hours
	case 3:
		return time.Date(2300, 1, 1+d, 0, 0, 0, 0, time.UTC) // far ahead of any wall clock: what is copied depends on the repositories only
	case 4:
		return time.Date(1901, 12, 30+d, 0, 0, 0, 0, time.UTC) // far in the past, across a year end
	}
	return day(d)
}

func calSnap(cal, d int) *asset.Snapshot {
	sn := snap(d, 0)
	sn.Date = calDay(cal, d)
	return sn
}

func (s syncScen) String() string {
	var p []string
	for _, a := range s.Assets {
		p = append(p, a.String())
	}
	cal := ""
	if s.Cal != 0 {
		cal = ", " + map[int]string{1: "local-midnight dates across the 23-hour day", 2: "local-midnight dates across the 25-hour day", 3: "dates in the year 2300", 4: "dates around new year 1902"}[s.Cal]
	}
	if s.Repeat {
		cal += ", every name listed twice"
	}
	if s.Delay > 0 {
		cal += fmt.Sprintf(", delay %ds", s.Delay)
	}
	return fmt.Sprintf("%s target, workers=%d, explicit=%v, assets=[%s]%s", s.Kind, s.Workers, s.Explicit, strings.Join(p, " "), cal)
}

func assetName(i int) string { return string(rune('A' + i)) }

const syncDefaultStart = 1 // default start date = day(1)

// expectedSync computes the reference result: per asset the snapshot days in the target after one run, and whether an error must be reported.
func expectedSync(s syncScen) (map[string][]int, bool) {
	out := map[string][]int{}
	hasErr := false
	for i, a := range s.Assets {
		name := assetName(i)
		var cur []int
		for d := 0; d < a.Target; d++ {
			cur = append(cur, d)
		}
		requested := s.Explicit || a.Target != 0 // an existing (even empty) file registers the asset
		if requested {
			start := syncDefaultStart
			if a.Target > 0 {
				start = a.Target // last date + 1 day
			}
			switch {
			case !a.Source:
				hasErr = true
			case a.Fault:
				hasErr = true
			default:
				for d := start; d < 4; d++ {
					cur = append(cur, d)
				}
			}
		}
		if len(cur) > 0 {
			out[name] = cur
		}
	}
	return out, hasErr
}

func syncScenario(s syncScen) explore.Scenario {
	return func() explore.Exec {
		var final map[string][]int
		var err1, err2 error
		var readErr string
		returned := false
		var dir string
		body := func() {
			source := asset.NewInMemoryRepository()
			var base asset.Repository
			if s.Kind == "filesystem" {
				dir = mustTempDir("c12")
				base = asset.NewFileSystemRepository(dir)
			} else {
				base = asset.NewInMemoryRepository()
			}
			fail := map[string]bool{}
			var names []string
			for i, a := range s.Assets {
				name := assetName(i)
				names = append(names, name)
				if a.Source {
					var sn []*asset.Snapshot
					for d := 0; d < 4; d++ {
						sn = append(sn, calSnap(s.Cal, d))
					}
					source.Append(name, Feed(sn, 0))
				}
				if a.Target < 0 && dir != "" {
					os.WriteFile(filepath.Join(dir, name+".csv"), nil, 0o600)
				}
				if a.Target > 0 {
					var sn []*asset.Snapshot
					for d := 0; d < a.Target; d++ {
						sn = append(sn, calSnap(s.Cal, d))
					}
					base.Append(name, Feed(sn, 0))
				}
				fail[name] = a.Fault
			}
			target := &faultRepo{Repository: base, fail: fail}
			run := func() error {
				sy := asset.NewSync()
				sy.Workers, sy.Delay, sy.Logger = s.Workers, s.Delay, quietLogger
				if s.Explicit {
					sy.Assets = append([]string{}, names...)
					if s.Repeat {
						sy.Assets = append(sy.Assets, names...)
					}
				}
				return sy.Run(source, target, calDay(s.Cal, syncDefaultStart))
			}
			err1 = run()
			err2 = run() // idempotence: a second run must add nothing
			returned = true
			final = map[string][]int{}
			for _, name := range names {
				ch, err := base.Get(name)
				if err != nil {
					continue
				}
				var days []int
				for _, sn := range drainSnaps(ch) {
					d := -1
					for k := 0; k < 4; k++ {
						if sn.Date.Equal(calDay(s.Cal, k)) {
							d = k
						}
					}
					days = append(days, d)
					if d < 0 || !snapEq(sn, calSnap(s.Cal, d)) {
						readErr = fmt.Sprintf("asset %s holds a corrupted snapshot for day %d", name, d)
					}
				}
				if len(days) > 0 {
					final[name] = days
				}
			}
		}
		observe := func(res *mc.Result) (string, string) {
			want, wantErr := expectedSync(s)
			out := fmt.Sprintf("final=%v err1=%v err2=%v", final, err1 != nil, err2 != nil)
			switch {
			case len(res.Panics) > 0:
				return out + " PANIC", "panic: " + res.Panics[0].Value
			case !returned || res.Deadlock:
				return out + " HANG", fmt.Sprintf("Sync.Run did not return or left goroutines blocked (%d blocked: %s)", len(res.Blocked), blockedDesc(res))
			case readErr != "":
				return out, readErr
			case fmt.Sprint(final) != fmt.Sprint(want):
				return out, fmt.Sprintf("target holds %v after two runs, expected %v (days; previous snapshots followed by exactly the missing ones, once)", final, want)
			case (err1 != nil) != wantErr:
				return out, fmt.Sprintf("first run returned error=%v, expected error=%v (a failed asset must be reported, and only then)", err1, wantErr)
			case (err2 != nil) != wantErr:
				return out, fmt.Sprintf("second run returned error=%v, expected error=%v", err2, wantErr)
			}
			return out, ""
		}
		return explore.Exec{Body: body, Observe: observe, Cleanup: func() {
			if dir != "" {
				os.RemoveAll(dir)
			}
		}}
	}
}

func syncScens(tier string) []syncScen {
	var out []syncScen
	var per []syncAsset
	for _, t := range []int{0, 1, 2} {
		for _, src := range []bool{true, false} {
			for _, f := range []bool{false, true} {
				per = append(per, syncAsset{t, src, f})
			}
		}
	}
	thorough := tier == "thorough"
	kinds := []string{"memory", "filesystem"}
	// one and two assets: full product of the per-asset situations
	for _, k := range kinds {
		for _, ex := range []bool{true, false} {
			for _, a := range per {
				for _, w := range []int{1, 2} {
					out = append(out, syncScen{Assets: []syncAsset{a}, Workers: w, Explicit: ex, Kind: k, Cal: 0, Repeat: false})
				}
			}
			for _, a := range per {
				for _, b := range per {
					for _, w := range []int{1, 2, 3} {
						// the in-memory target is mutex-protected: three workers multiply the lock orders, thorough tier only
						if w == 3 && (k == "memory" || !ex) && !thorough {
							continue
						}
						if !thorough && k == "filesystem" && !ex && w > 1 {
							continue
						}
						out = append(out, syncScen{Assets: []syncAsset{a, b}, Workers: w, Explicit: ex, Kind: k, Cal: 0, Repeat: false})
					}
				}
			}
		}
	}
	// "the day after the last date" across a daylight-saving change: dates are local midnights and the target's last
	// date is the 23-hour (25-hour) day; the in-memory repositories keep the dates as given (scheduling is irrelevant here: one worker)
	for _, cal := range []int{1, 2, 3, 4} {
		for _, ex := range []bool{true, false} {
			for _, a := range per {
				if a.Fault {
					continue
				}
				out = append(out, syncScen{Assets: []syncAsset{a}, Workers: 1, Explicit: ex, Kind: "memory", Cal: cal, Repeat: false})
				out = append(out, syncScen{Assets: []syncAsset{a, {2, true, false}}, Workers: 1, Explicit: ex, Kind: "memory", Cal: cal, Repeat: false})
			}
		}
	}
	// an explicit list that names an asset more than once: every occurrence starts from what the target holds by then
	// (one worker: the occurrences are handled one after the other; two workers: they may be handled at the same time)
	for _, k := range kinds {
		for _, a := range per {
			out = append(out, syncScen{Assets: []syncAsset{a}, Workers: 1, Explicit: true, Kind: k, Repeat: true})
			out = append(out, syncScen{Assets: []syncAsset{a}, Workers: 2, Explicit: true, Kind: k, Repeat: true})
			out = append(out, syncScen{Assets: []syncAsset{a, {1, true, false}}, Workers: 1, Explicit: true, Kind: k, Repeat: true})
		}
	}
	// the pause between two assets of a worker (Sync.Delay, 5 s by default): more assets than workers, one and two workers
	for _, k := range kinds {
		for _, w := range []int{1, 2} {
			out = append(out, syncScen{Assets: []syncAsset{{0, true, false}, {1, true, false}, {2, true, false}}, Workers: w, Explicit: true, Kind: k, Delay: 5})
			out = append(out, syncScen{Assets: []syncAsset{{1, true, false}, {0, true, false}}, Workers: 1, Explicit: w == 1, Kind: k, Delay: 1})
		}
	}
	// a zero-byte asset file in a file-system target (e.g. created to register a new asset)
	for _, ex := range []bool{true, false} {
		for _, w := range []int{1, 2} {
			out = append(out, syncScen{Assets: []syncAsset{{-1, true, false}}, Workers: w, Explicit: ex, Kind: "filesystem", Cal: 0, Repeat: false})
			out = append(out, syncScen{Assets: []syncAsset{{-1, true, false}, {1, true, false}}, Workers: w, Explicit: ex, Kind: "filesystem", Cal: 0, Repeat: false})
			out = append(out, syncScen{Assets: []syncAsset{{2, true, false}, {-1, true, false}}, Workers: w, Explicit: ex, Kind: "filesystem", Cal: 0, Repeat: false})
		}
	}
	// three assets: representative situations per asset on the file-system target (and in memory in the thorough tier)
	rep := []syncAsset{{0, true, false}, {2, true, false}, {1, false, false}, {1, true, true}}
	if thorough {
		rep = append(rep, syncAsset{0, true, true}, syncAsset{0, false, false})
	}
	for _, a := range rep {
		for _, b := range rep {
			for _, c := range rep {
				// three workers on three assets have > 20000 traces: thorough tier only, under the execution cap
				out = append(out, syncScen{Assets: []syncAsset{a, b, c}, Workers: 2, Explicit: true, Kind: "filesystem", Cal: 0, Repeat: false})
				if thorough {
					out = append(out, syncScen{Assets: []syncAsset{a, b, c}, Workers: 3, Explicit: true, Kind: "filesystem", Cal: 0, Repeat: false})
					out = append(out, syncScen{Assets: []syncAsset{a, b, c}, Workers: 2, Explicit: true, Kind: "memory", Cal: 0, Repeat: false})
				}
			}
		}
	}
	if !thorough {
		// several failing assets contend for the error-flag mutex; with three workers or three assets the
		// number of lock orders passes the quick tier's execution cap: thorough tier only
		var keep []syncScen
		for _, s := range out {
			failing := 0
			for _, a := range s.Assets {
				if !a.Source || a.Fault {
					failing++
				}
			}
			if failing >= 2 && (s.Workers >= 3 || len(s.Assets) >= 3) {
				continue
			}
			keep = append(keep, s)
		}
		out = keep
	}
	return out
}

func syncUnit(c *core.Ctx, scens []syncScen) {
	for i, s := range scens {
		sc := syncScenario(s)
		maxExec := 6000
		if c.Thorough() {
			maxExec = 30000
		}
		st := explore.DPOR(sc, explore.Opts{Races: true, MaxExec: maxExec})
		c.States++
		c.Evaluations++
		c.Executions += int64(st.Executions)
		c.Transitions += int64(st.Events)
		if st.Executions > 1 {
			c.Nontrivial++
		}
		c.Count("DPOR traces", int64(st.Executions))
		c.Count("DPOR backtrack points", int64(st.RacesBranch))
		if st.Internal != "" {
			c.InternalError(st.Internal)
		}
		if !st.Exhaustive {
			c.NotExhaustive("DPOR execution cap on some scenarios: " + st.CapHit)
			c.Count("scenarios cut by the execution cap", 1)
			c.SetAdd("cut", s.String())
		}
		cs := map[string]any{"scenario": s.String()}
		for o := range st.Outcomes {
			c.SetAdd("outcomes", o)
		}
		if len(st.Outcomes) > 1 {
			c.Fail("", fmt.Sprintf("Sync %s: %d different results depending on the schedule: %v", s, len(st.Outcomes), st.OutcomeKeys()), cs)
		}
		for _, v := range st.Violations {
			c.Fail("", fmt.Sprintf("Sync %s (schedule %v): %s", s, compact(v.Choices), v.Text), map[string]any{"scenario": s.String(), "choices": compact(v.Choices)})
			break
		}
		for pair := range st.RacePairs {
			c.Fail(raceKey(pair), fmt.Sprintf("Sync %s: data race between %s", s, pair), cs)
		}
		// cross-check without independence assumptions
		if s.Workers > 1 && len(s.Assets) <= 2 && i%6 == 0 {
			s2 := explore.DelayBounded(sc, 1, explore.Opts{Races: true, MaxExec: 4000})
			c.Executions += int64(s2.Executions)
			c.Transitions += int64(s2.Events)
			c.Count("delay-bounded executions (d<=1)", int64(s2.Executions))
			for o := range s2.Outcomes {
				if st.Outcomes[o] == 0 && st.Exhaustive {
					c.Fail("", fmt.Sprintf("Sync %s: delay-bounded search found outcome %q that DPOR did not (independence relation unsound?)", s, o), cs)
				}
			}
			for _, v := range s2.Violations {
				c.Fail("", fmt.Sprintf("Sync %s (delay-bounded schedule %v): %s", s, compact(v.Choices), v.Text), cs)
				break
			}
			for pair := range s2.RacePairs {
				c.Fail(raceKey(pair), fmt.Sprintf("Sync %s: data race between %s", s, pair), cs)
			}
		}
		if i == 3 {
			c.Sample(map[string]any{"scenario": s.String(), "dpor_traces": st.Executions, "outcomes": st.OutcomeKeys(), "first_events": st.SampleTrace})
		}
	}
}

// raceKey turns a pair of access sites into a known-finding key (line numbers
// dropped so that unrelated edits do not change it).
func raceKey(pair string) string {
	var parts []string
	for _, p := range strings.Split(pair, " <> ") {
		if i := strings.LastIndex(p, ":"); i >= 0 {
			p = p[:i]
		}
		parts = append(parts, p)
	}
	return "race:" + strings.Join(parts, "<>")
}

func init() {
	core.Register(&core.Check{
		ID:   "C12",
		Rule: "scenarios = initial target content per asset {absent,[d0],[d0,d1]} x source {present d0..d3, missing} x injected Append failure x explicit / target-derived asset list x workers {1,2,3} x in-memory / file-system target (1-2 assets: full product; 3 assets: representative situations), each running Sync twice; every scenario is explored by DPOR over all Mazurkiewicz traces of the real worker pool (cap per scenario recorded) with the vector-clock race detector on, and a delay-bounded (d<=1) cross-check on every fifth; oracle per execution: Run returns, final target = reference function of (source, target, default start), error iff an asset failed, second run adds nothing, one outcome per scenario; states = scenarios, transitions = scheduler events, non-trivial = scenarios with more than one trace",
		Assume: []string{"the injected Append failure consumes its input before failing", "source is an in-memory repository; Delay 0",
			"data races are decided by the happens-before detector on instrumented accesses (fields through pointers, captured mutated variables, maps, slice elements)"},
		Units: func(tier string) []core.Unit {
			sc := syncScens(tier)
			var us []core.Unit
			chunk := 6
			for i := 0; i < len(sc); i += chunk {
				j := min(i+chunk, len(sc))
				part := sc[i:j]
				cost := 0
				for _, s := range part {
					cost += len(s.Assets) * len(s.Assets) * s.Workers * s.Workers
				}
				us = append(us, core.Unit{Key: fmt.Sprintf("sync-%04d", i), Cost: cost, Run: func(c *core.Ctx) { syncUnit(c, part) }})
			}
			return us
		},
	})
}

// DebugSync prints DPOR statistics for a few scenarios (development aid).
func DebugSync() {
	f, _ := os.Create("/var/tmp/dbgsync.prof")
	pprof.StartCPUProfile(f)
	defer pprof.StopCPUProfile()
	for _, s := range []syncScen{
		{Assets: []syncAsset{{0, true, false}, {1, true, false}}, Workers: 2, Explicit: true, Kind: "memory", Cal: 0, Repeat: false},
		{Assets: []syncAsset{{0, true, false}, {1, true, false}, {2, true, false}}, Workers: 3, Explicit: true, Kind: "filesystem", Cal: 0, Repeat: false},
	} {
		t0 := time.Now()
		st := explore.DPOR(syncScenario(s), explore.Opts{Races: true, MaxExec: 20000})
		fmt.Println(s, "=>", st.Describe(), "maxEvents", st.MaxEvents, time.Since(t0))
	}
}
