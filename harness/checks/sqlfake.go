package checks

import (
	"database/sql"
	"database/sql/driver"
	"errors"
	"fmt"
	"io"
	"sort"
	"sync"
	"time"
)

// A minimal conforming in-memory database/sql driver with a six-statement
// dialect. Rows are returned in insertion order; parameters bind positionally.

type fakeRow struct {
	name string
	date time.Time
	v    [5]float64
}

type fakeDB struct {
	mu      sync.Mutex
	created bool
	rows    []fakeRow
}

type fakeDriver struct {
	mu  sync.Mutex
	dbs map[string]*fakeDB
}

var theFakeDriver = &fakeDriver{dbs: map[string]*fakeDB{}}

func init() { sql.Register("verifsql", theFakeDriver) }

func (d *fakeDriver) Open(dsn string) (driver.Conn, error) {
	d.mu.Lock()
	defer d.mu.Unlock()
	db := d.dbs[dsn]
	if db == nil {
		db = &fakeDB{}
		d.dbs[dsn] = db
	}
	return &fakeConn{db: db}, nil
}

func (d *fakeDriver) drop(dsn string) {
	d.mu.Lock()
	delete(d.dbs, dsn)
	d.mu.Unlock()
}

func (d *fakeDriver) dump(dsn string) string {
	d.mu.Lock()
	db := d.dbs[dsn]
	d.mu.Unlock()
	if db == nil {
		return "<none>"
	}
	db.mu.Lock()
	defer db.mu.Unlock()
	s := ""
	for _, r := range db.rows {
		s += fmt.Sprintf("%s|%s|%v;", r.name, r.date.Format(time.RFC3339), r.v)
	}
	return s
}

type fakeConn struct{ db *fakeDB }

func (c *fakeConn) Prepare(q string) (driver.Stmt, error) {
	switch q {
	case "CREATE", "DROP", "ASSETS", "GETSINCE", "LASTDATE", "APPEND":
		return &fakeStmt{c: c, q: q}, nil
	}
	return nil, errors.New("verifsql: unknown statement " + q)
}
func (c *fakeConn) Close() error              { return nil }
func (c *fakeConn) Begin() (driver.Tx, error) { return nil, errors.New("no transactions") }

type fakeStmt struct {
	c *fakeConn
	q string
}

func (s *fakeStmt) Close() error { return nil }
func (s *fakeStmt) NumInput() int {
	switch s.q {
	case "GETSINCE":
		return 2
	case "LASTDATE":
		return 1
	case "APPEND":
		return 7
	}
	return 0
}

func (s *fakeStmt) Exec(args []driver.Value) (driver.Result, error) {
	db := s.c.db
	db.mu.Lock()
	defer db.mu.Unlock()
	switch s.q {
	case "CREATE":
		db.created = true
	case "DROP":
		db.created, db.rows = false, nil
	case "APPEND":
		r := fakeRow{name: args[0].(string), date: args[1].(time.Time)}
		for i := 0; i < 5; i++ {
			r.v[i] = args[2+i].(float64)
		}
		db.rows = append(db.rows, r)
	default:
		return nil, errors.New("verifsql: not an exec statement")
	}
	return driver.RowsAffected(1), nil
}

func (s *fakeStmt) Query(args []driver.Value) (driver.Rows, error) {
	db := s.c.db
	db.mu.Lock()
	defer db.mu.Unlock()
	switch s.q {
	case "ASSETS":
		set := map[string]bool{}
		for _, r := range db.rows {
			set[r.name] = true
		}
		var names []string
		for n := range set {
			names = append(names, n)
		}
		sort.Strings(names)
		out := &fakeRows{cols: []string{"name"}}
		for _, n := range names {
			out.data = append(out.data, []driver.Value{n})
		}
		return out, nil
	case "GETSINCE":
		name, since := args[0].(string), args[1].(time.Time)
		out := &fakeRows{cols: []string{"date", "open", "high", "low", "close", "volume"}}
		for _, r := range db.rows {
			if r.name == name && !r.date.Before(since) {
				out.data = append(out.data, []driver.Value{r.date, r.v[0], r.v[1], r.v[2], r.v[3], r.v[4]})
			}
		}
		return out, nil
	case "LASTDATE":
		name := args[0].(string)
		out := &fakeRows{cols: []string{"date"}}
		var last *fakeRow
		for i := range db.rows {
			if db.rows[i].name == name && (last == nil || !db.rows[i].date.Before(last.date)) {
				last = &db.rows[i]
			}
		}
		if last != nil {
			out.data = append(out.data, []driver.Value{last.date})
		}
		return out, nil
	}
	return nil, errors.New("verifsql: not a query statement")
}

type fakeRows struct {
	cols []string
	data [][]driver.Value
	pos  int
}

func (r *fakeRows) Columns() []string { return r.cols }
func (r *fakeRows) Close() error      { return nil }
func (r *fakeRows) Next(dest []driver.Value) error {
	if r.pos >= len(r.data) {
		return io.EOF
	}
	copy(dest, r.data[r.pos])
	r.pos++
	return nil
}

type fakeDialect struct{}

func (fakeDialect) CreateTable() string { return "CREATE" }
func (fakeDialect) DropTable() string   { return "DROP" }
func (fakeDialect) Assets() string      { return "ASSETS" }
func (fakeDialect) GetSince() string    { return "GETSINCE" }
func (fakeDialect) LastDate() string    { return "LASTDATE" }
func (fakeDialect) Append() string      { return "APPEND" }
