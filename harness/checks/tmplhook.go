package checks

import (
	"reflect"
	"text/template"
	"time"

	"github.com/cinar/indicator/v2/verifmc/mc"
)

// text/template ranges over channels through reflect; route those receives
// through the controlled scheduler (the hook variable exists only in the
// overlaid copy of the standard library file, see engine/instr).
func init() {
	template.VerifRecvHook = func(v reflect.Value) (reflect.Value, bool) {
		if !mc.Controlled() {
			return v.Recv()
		}
		switch c := v.Interface().(type) {
		case <-chan time.Time:
			x, ok := mc.Recv2(c)
			return reflect.ValueOf(x), ok
		case chan time.Time:
			x, ok := mc.Recv2((<-chan time.Time)(c))
			return reflect.ValueOf(x), ok
		case <-chan float64:
			x, ok := mc.Recv2(c)
			return reflect.ValueOf(x), ok
		case <-chan string:
			x, ok := mc.Recv2(c)
			return reflect.ValueOf(x), ok
		case <-chan int:
			x, ok := mc.Recv2(c)
			return reflect.ValueOf(x), ok
		}
		panic("verif: template ranges over a channel type the harness does not bridge: " + v.Type().String())
	}
}
