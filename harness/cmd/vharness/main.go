// Command vharness runs the property checks.
//
//	vharness check <ID> <tier>          drive the whole check with worker processes
//	vharness worker <ID> <tier> i n out run shard i of n, write the JSON context to out
//	vharness replay <file>              re-run the unit of a recorded violation
package main

import (
	"encoding/json"
	"fmt"
	"io"
	"log"
	"log/slog"
	"os"
	"runtime"
	"strconv"
	"time"

	_ "verifharness/cat"
	"verifharness/checks"
	"verifharness/core"

	"github.com/cinar/indicator/v2/verifmc/mc"
)

func seed() int64 {
	s, _ := strconv.ParseInt(os.Getenv("VERIF_SEED"), 10, 64)
	return s
}

func root() string {
	if r := os.Getenv("VERIF_ROOT"); r != "" {
		return r
	}
	return "/verif"
}

func main() {
	slog.SetDefault(slog.New(slog.NewTextHandler(io.Discard, nil)))
	log.SetOutput(io.Discard)
	if os.Getenv("VERIF_FREE") != "" {
		// the free-running pass under Go's race detector: same harness bodies, ordinary goroutines, nothing decided
		mc.SetFree(true)
		if b, err := strconv.Atoi(os.Getenv("VERIF_FREE_BUDGET")); err == nil && b > 0 {
			mc.FreeDeadline = time.Now().Add(time.Duration(b) * time.Second)
		}
	}
	if len(os.Args) < 2 {
		fmt.Fprintln(os.Stderr, "usage: vharness check|worker|replay ...")
		os.Exit(2)
	}
	switch os.Args[1] {
	case "racefilter":
		os.Exit(core.RaceFilter(os.Args[2], root(), os.Args[3], os.Args[4:]))
	case "dbg-bt":
		checks.DebugBacktest()
	case "dbg-sync":
		checks.DebugSync()
	case "list":
		for _, id := range core.IDs() {
			fmt.Println(id, len(core.Lookup(id).Units("quick")), len(core.Lookup(id).Units("thorough")))
		}
	case "check":
		ch := core.Lookup(os.Args[2])
		if ch == nil {
			fmt.Fprintln(os.Stderr, "unknown check", os.Args[2])
			os.Exit(2)
		}
		tier := os.Args[3]
		w := runtime.NumCPU()
		if v, err := strconv.Atoi(os.Getenv("VERIF_WORKERS")); err == nil && v > 0 {
			w = v
		}
		self, _ := os.Executable()
		os.MkdirAll(root()+"/.cache", 0o755)
		os.Exit(core.Drive(ch, tier, seed(), root(), w, self))
	case "worker":
		ch := core.Lookup(os.Args[2])
		i, _ := strconv.Atoi(os.Args[4])
		n, _ := strconv.Atoi(os.Args[5])
		ctx := core.RunShard(ch, os.Args[3], seed(), i, n, "", os.Getenv("VERIF_UNIT"))
		checks.CleanupTmp()
		ctx.Notes, _ = core.JSONSafe(ctx.Notes).(map[string]any)
		js, err := json.Marshal(ctx)
		if err != nil {
			fmt.Fprintln(os.Stderr, "worker: cannot encode result:", err)
			os.Exit(2)
		}
		if err := os.WriteFile(os.Args[6], js, 0o644); err != nil {
			fmt.Fprintln(os.Stderr, err)
			os.Exit(2)
		}
	case "replay":
		b, err := os.ReadFile(os.Args[2])
		if err != nil {
			fmt.Fprintln(os.Stderr, err)
			os.Exit(2)
		}
		var f core.Finding
		json.Unmarshal(b, &f)
		ch := core.Lookup(f.Prop)
		if ch == nil {
			fmt.Fprintln(os.Stderr, "unknown property in replay file")
			os.Exit(2)
		}
		t0 := time.Now()
		rc := 0
		for rep := 0; rep < 2; rep++ {
			ctx := core.RunShard(ch, "quick", seed(), 0, 1, "", f.Unit)
			if len(ctx.Findings) == 0 {
				ctx = core.RunShard(ch, "thorough", seed(), 0, 1, "", f.Unit)
			}
			hit := false
			for _, g := range ctx.Findings {
				if g.Msg == f.Msg {
					hit = true
				}
			}
			checks.CleanupTmp()
			fmt.Printf("replay run %d of unit %s: %d findings, recorded violation reproduced: %v\n", rep+1, f.Unit, len(ctx.Findings), hit)
			if hit {
				rc = 1
			}
		}
		if rc == 1 {
			fmt.Printf("VIOLATION property=%s replay=%s\n  %s\n", f.Prop, os.Args[2], f.Msg)
		}
		_ = t0
		os.Exit(rc)
	default:
		fmt.Fprintln(os.Stderr, "unknown command")
		os.Exit(2)
	}
}
