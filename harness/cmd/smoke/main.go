package main

import (
	"fmt"
	"time"

	"github.com/cinar/indicator/v2/helper"
	"github.com/cinar/indicator/v2/momentum"
	"github.com/cinar/indicator/v2/trend"
	"github.com/cinar/indicator/v2/verifmc/mc"
)

func feed(xs []float64, capacity int) <-chan float64 {
	c := make(chan float64, capacity)
	mc.Go(func() {
		for _, x := range xs {
			mc.Send(c, x)
		}
		mc.Close(c)
	})
	return c
}

func collect(c <-chan float64, out *[]float64, closed *bool) {
	mc.Go(func() {
		for {
			v, ok := mc.Recv2(c)
			if !ok {
				*closed = true
				return
			}
			*out = append(*out, v)
		}
	})
}

func main() {
	xs := []float64{1, 2, 3, 4, 5, 6, 7, 8}
	var out []float64
	var closed bool
	res := mc.Run(func() {
		sma := trend.NewSmaWithPeriod[float64](3)
		collect(sma.Compute(feed(xs, 0)), &out, &closed)
	}, mc.Options{Record: true})
	fmt.Println(out, closed, res.Events, res.Goroutines, res.Deadlock, res.Panics)
	_ = helper.Abs[float64]

	// PPO hang
	for n := 0; n < 6; n++ {
		var o1, o2, o3 []float64
		var c1, c2, c3 bool
		res = mc.Run(func() {
			ppo := momentum.NewPpo[float64]()
			ppo.ShortEma.Period, ppo.LongEma.Period, ppo.SignalEma.Period = 2, 3, 2
			a, b, c := ppo.Compute(feed(xs[:n], 0))
			collect(a, &o1, &c1)
			collect(b, &o2, &c2)
			collect(c, &o3, &c3)
		}, mc.Options{Sites: true})
		fmt.Println("ppo n=", n, o1, o2, o3, "deadlock:", res.Deadlock, len(res.Blocked), res.UncheckedZero)
		if res.Deadlock {
			for _, b := range res.Blocked {
				fmt.Println("   ", b)
			}
		}
	}
	t0 := time.Now()
	N := 20000
	ev := 0
	for i := 0; i < N; i++ {
		out = out[:0]
		res = mc.Run(func() {
			sma := trend.NewSmaWithPeriod[float64](3)
			collect(sma.Compute(feed(xs, 0)), &out, &closed)
		}, mc.Options{})
		ev += res.Events
	}
	d := time.Since(t0)
	fmt.Printf("%d runs in %v: %.0f runs/s, %.2f us/event\n", N, d, float64(N)/d.Seconds(), float64(d.Microseconds())/float64(ev))
}
