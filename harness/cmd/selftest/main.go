// Command selftest validates the explorers on micro-programs with known answers.
package main

import (
	"fmt"
	"os"
	"sort"
	"strings"
	"time"

	"verifharness/explore"

	"github.com/cinar/indicator/v2/verifmc/mc"
)

type prog struct {
	name     string
	sc       explore.Scenario
	outcomes int  // expected number of distinct outcomes (full DFS is the truth; this is a sanity pin)
	deadlock bool // some schedule deadlocks
	race     bool // some schedule has a HB race
	noFull   bool // too large for the unreduced DFS: compare DPOR with the pinned outcome count and S2 d<=3 (subset)
}

func obs(f func() string) func(*mc.Result) (string, string) {
	return func(r *mc.Result) (string, string) {
		o := f()
		if r.Deadlock {
			o += "|DEADLOCK"
		}
		if len(r.Panics) > 0 {
			o += "|PANIC:" + r.Panics[0].Value
		}
		return o, ""
	}
}

func progs() []prog {
	return []prog{
		{name: "two senders one receiver", outcomes: 2, sc: func() explore.Exec {
			var got []int
			return explore.Exec{Body: func() {
				c := make(chan int)
				mc.Go(func() { mc.Send(c, 1) })
				mc.Go(func() { mc.Send(c, 2) })
				got = append(got, mc.Recv(c), mc.Recv(c))
			}, Observe: obs(func() string { return fmt.Sprint(got) })}
		}},
		{name: "three workers on a jobs channel", outcomes: 27, noFull: true, sc: func() explore.Exec {
			who := make([]int, 3)
			return explore.Exec{Body: func() {
				jobs := make(chan int)
				var wg mc.WaitGroup
				for w := 0; w < 3; w++ {
					w := w
					wg.Add(1)
					mc.Go(func() {
						defer wg.Done()
						for {
							j, ok := mc.Recv2(jobs)
							if !ok {
								return
							}
							who[j] = w
						}
					})
				}
				for j := 0; j < 3; j++ {
					mc.Send(jobs, j)
				}
				mc.Close(jobs)
				wg.Wait()
			}, Observe: obs(func() string { return fmt.Sprint(who) })}
		}},
		{name: "lock order inversion", outcomes: 2, deadlock: true, sc: func() explore.Exec {
			return explore.Exec{Body: func() {
				var a, b mc.Mutex
				mc.Go(func() { a.Lock(); b.Lock(); b.Unlock(); a.Unlock() })
				mc.Go(func() { b.Lock(); a.Lock(); a.Unlock(); b.Unlock() })
			}, Observe: obs(func() string { return "" })}
		}},
		{name: "send racing close", outcomes: 2, sc: func() explore.Exec {
			return explore.Exec{Body: func() {
				c := make(chan int, 1)
				mc.Go(func() { mc.Send(c, 1) })
				mc.Go(func() { mc.Close(c) })
			}, Observe: obs(func() string { return "" })}
		}},
		{name: "unsynchronised counter", outcomes: 1, race: true, sc: func() explore.Exec {
			x := new(int)
			return explore.Exec{Body: func() {
				var wg mc.WaitGroup
				wg.Add(2)
				for i := 0; i < 2; i++ {
					mc.Go(func() { defer wg.Done(); *mc.W(x, 0) = *mc.R(x, 0) + 1 })
				}
				wg.Wait()
			}, Observe: obs(func() string { return fmt.Sprint(*x) })}
		}},
		{name: "mutex-protected counter", outcomes: 1, sc: func() explore.Exec {
			x := new(int)
			return explore.Exec{Body: func() {
				var wg mc.WaitGroup
				var mu mc.Mutex
				wg.Add(2)
				for i := 0; i < 2; i++ {
					mc.Go(func() { defer wg.Done(); mu.Lock(); *mc.W(x, 0) = *mc.R(x, 0) + 1; mu.Unlock() })
				}
				wg.Wait()
				_ = *mc.R(x, 0)
			}, Observe: obs(func() string { return fmt.Sprint(*x) })}
		}},
		{name: "waitgroup rendezvous", outcomes: 1, sc: func() explore.Exec {
			v := 0
			return explore.Exec{Body: func() {
				var wg mc.WaitGroup
				wg.Add(1)
				mc.Go(func() { v = 7; wg.Done() })
				wg.Wait()
				v++
			}, Observe: obs(func() string { return fmt.Sprint(v) })}
		}},
		{name: "buffered pipeline (Kahn network)", outcomes: 1, sc: func() explore.Exec {
			var got []int
			return explore.Exec{Body: func() {
				a := make(chan int, 1)
				b := make(chan int)
				mc.Go(func() {
					for i := 0; i < 2; i++ {
						mc.Send(a, i)
					}
					mc.Close(a)
				})
				mc.Go(func() {
					for {
						v, ok := mc.Recv2(a)
						if !ok {
							mc.Close(b)
							return
						}
						mc.Send(b, v*2)
					}
				})
				for {
					v, ok := mc.Recv2(b)
					if !ok {
						return
					}
					got = append(got, v)
				}
			}, Observe: obs(func() string { return fmt.Sprint(got) })}
		}},
		{name: "two receivers one sender, values differ", outcomes: 2, sc: func() explore.Exec {
			got := make([]int, 2)
			return explore.Exec{Body: func() {
				c := make(chan int, 2)
				var wg mc.WaitGroup
				wg.Add(2)
				for i := 0; i < 2; i++ {
					i := i
					mc.Go(func() { defer wg.Done(); got[i] = mc.Recv(c) })
				}
				mc.Send(c, 1)
				mc.Send(c, 2)
				wg.Wait()
			}, Observe: obs(func() string { return fmt.Sprint(got) })}
		}},
		{name: "non-blocking send (select with default) racing a receiver", outcomes: 2, sc: func() explore.Exec {
			sent, got := false, -1
			return explore.Exec{Body: func() {
				c := make(chan int)
				done := make(chan struct{})
				mc.Go(func() {
					got, _ = mc.Recv2((<-chan int)(c))
					mc.Close(done)
				})
				sel := mc.NewSelect(true)
				mc.SelAddSend(sel, (chan<- int)(c), 7)
				sent = sel.Wait() == 0
				if !sent {
					mc.Close(c) // the value was dropped: release the receiver
				}
				mc.Recv2((<-chan struct{})(done))
			}, Observe: obs(func() string { return fmt.Sprint(sent, got) })}
		}},
		{name: "select with two ready cases", outcomes: 2, sc: func() explore.Exec {
			which := -1
			return explore.Exec{Body: func() {
				a := make(chan int, 1)
				b := make(chan int, 1)
				mc.Send((chan<- int)(a), 1)
				mc.Send((chan<- int)(b), 2)
				sel := mc.NewSelect(false)
				mc.SelAddRecv(sel, (<-chan int)(a))
				mc.SelAddRecv(sel, (<-chan int)(b))
				which = sel.Wait()
			}, Observe: obs(func() string { return fmt.Sprint(which) })}
		}},
		{name: "blocking select woken by one of two senders", outcomes: 2, sc: func() explore.Exec {
			got := 0
			return explore.Exec{Body: func() {
				a := make(chan int)
				b := make(chan int, 1)
				mc.Go(func() { mc.Send((chan<- int)(a), 1) })
				mc.Go(func() { mc.Send((chan<- int)(b), 2) })
				sel := mc.NewSelect(false)
				ra := mc.SelAddRecv(sel, (<-chan int)(a))
				rb := mc.SelAddRecv(sel, (<-chan int)(b))
				if sel.Wait() == 0 {
					got, _ = ra.Get()
					// release the other sender
					mc.Recv((<-chan int)(b))
				} else {
					got, _ = rb.Get()
					mc.Recv((<-chan int)(a))
				}
			}, Observe: obs(func() string { return fmt.Sprint(got) })}
		}},
		{name: "message-passing publishes data (no race)", outcomes: 1, sc: func() explore.Exec {
			x := new(int)
			return explore.Exec{Body: func() {
				c := make(chan struct{})
				mc.Go(func() { *mc.W(x, 0) = 1; mc.Send(c, struct{}{}) })
				mc.Recv(c)
				_ = *mc.R(x, 0)
			}, Observe: obs(func() string { return fmt.Sprint(*x) })}
		}},
		{name: "write after send races with reader", outcomes: 1, race: true, sc: func() explore.Exec {
			x := new(int)
			return explore.Exec{Body: func() {
				c := make(chan struct{})
				mc.Go(func() { mc.Send(c, struct{}{}); *mc.W(x, 0) = 1 })
				mc.Recv(c)
				_ = *mc.R(x, 0)
			}, Observe: obs(func() string { return "" })}
		}},
		{name: "condition variable: consumer waits for producer (no lost wake-up)", outcomes: 1, sc: func() explore.Exec {
			got := 0
			return explore.Exec{Body: func() {
				var mu mc.Mutex
				cond := mc.NewCond(&mu)
				ready := false
				mc.Go(func() {
					mu.Lock()
					ready = true
					mu.Unlock()
					cond.Signal()
				})
				mu.Lock()
				for !ready {
					cond.Wait()
				}
				got = 1
				mu.Unlock()
			}, Observe: obs(func() string { return fmt.Sprint(got) })}
		}},
		{name: "condition variable: signal before the predicate is set (if instead of for) can hang", outcomes: 2, deadlock: true, sc: func() explore.Exec {
			got := 0
			return explore.Exec{Body: func() {
				var mu mc.Mutex
				cond := mc.NewCond(&mu)
				mc.Go(func() { cond.Signal() })
				mu.Lock()
				cond.Wait() // no predicate: a Signal that came first is lost
				got = 1
				mu.Unlock()
			}, Observe: obs(func() string { return fmt.Sprint(got) })}
		}},
		{name: "select with a time-out: the limit may or may not expire before the value arrives", outcomes: 2, sc: func() explore.Exec {
			got := ""
			return explore.Exec{Body: func() {
				c := make(chan int, 1)
				mc.Go(func() { mc.Send(c, 7) })
				t := mc.NewTimer(time.Second)
				sel := mc.NewSelect(false)
				rv := mc.SelAddRecv(sel, (<-chan int)(c))
				mc.SelAddRecv(sel, t.C)
				switch sel.Wait() {
				case 0:
					v, _ := rv.Get()
					got = fmt.Sprint("value ", v)
				case 1:
					got = "timed out"
				}
				t.Stop()
			}, Observe: obs(func() string { return got })}
		}},
		{name: "a time-out that was not taken leaves nothing behind", outcomes: 2, sc: func() explore.Exec {
			got := ""
			return explore.Exec{Body: func() {
				c := make(chan int, 1)
				mc.Go(func() { mc.Send(c, 7) })
				sel := mc.NewSelect(false)
				rv := mc.SelAddRecv(sel, (<-chan int)(c))
				mc.SelAddRecv(sel, mc.After(time.Second))
				switch sel.Wait() {
				case 0:
					v, _ := rv.Get()
					got = fmt.Sprint("value ", v)
				case 1:
					got = "timed out"
				}
			}, Observe: func(r *mc.Result) (string, string) {
				// the value nobody received after a time-out is a leftover, the tick nobody received is not
				if (got == "timed out") != (r.Buffered == 1) || r.Buffered > 1 {
					return fmt.Sprintf("BAD: %s with %d leftovers", got, r.Buffered), ""
				}
				return got, ""
			}}
		}},
		{name: "a stopped timer never fires", outcomes: 1, deadlock: true, sc: func() explore.Exec {
			got := ""
			return explore.Exec{Body: func() {
				t := mc.NewTimer(time.Second)
				t.Stop()
				mc.Recv(t.C) // blocks for ever
				got = "fired"
			}, Observe: obs(func() string { return got })}
		}},
		{name: "len(ch) observes the buffer (racing a sender)", outcomes: 2, sc: func() explore.Exec {
			n := -1
			return explore.Exec{Body: func() {
				c := make(chan int, 1)
				mc.Go(func() { mc.Send(c, 7) })
				n = mc.Len(c)
			}, Observe: obs(func() string { return fmt.Sprint(n) })}
		}},
	}
}

func keys(m map[string]int) string {
	var ks []string
	for k := range m {
		ks = append(ks, k)
	}
	sort.Strings(ks)
	return strings.Join(ks, " ; ")
}

func main() {
	fail := 0
	for _, p := range progs() {
		o := explore.Opts{Races: true}
		dp := explore.DPOR(p.sc, o)
		var full *explore.Stats
		if p.noFull {
			full = explore.DelayBounded(p.sc, 3, o)
			for k := range full.Outcomes {
				if dp.Outcomes[k] == 0 {
					fmt.Println("FAIL: S2 outcome missing from DPOR:", k)
					fail++
				}
			}
			full.Outcomes = dp.Outcomes
		} else {
			full = explore.FullDFS(p.sc, o)
		}
		var conv *explore.Stats
		d := 0
		for ; d <= 12; d++ {
			conv = explore.DelayBounded(p.sc, d, o)
			if keys(conv.Outcomes) == keys(full.Outcomes) {
				break
			}
		}
		ok := full.Exhaustive && dp.Exhaustive && keys(full.Outcomes) == keys(dp.Outcomes) && len(full.Outcomes) == p.outcomes &&
			(full.Deadlocks > 0) == p.deadlock && (dp.Deadlocks > 0) == p.deadlock && (full.Races > 0) == p.race && (dp.Races > 0) == p.race &&
			full.Internal == "" && dp.Internal == "" && d <= 12
		status := "ok"
		if !ok {
			status = "FAIL"
			fail++
		}
		fmt.Printf("%-4s %-44s full: exec=%d outcomes=%d dl=%d races=%d | dpor: exec=%d outcomes=%d dl=%d races=%d | S2 converges at d=%d\n",
			status, p.name, full.Executions, len(full.Outcomes), full.Deadlocks, full.Races, dp.Executions, len(dp.Outcomes), dp.Deadlocks, dp.Races, d)
		if !ok {
			fmt.Println("   full:", keys(full.Outcomes), full.Internal)
			fmt.Println("   dpor:", keys(dp.Outcomes), dp.Internal)
		}
		// replay determinism
		for k, ch := range dp.OutcomeChoic {
			o1, _, _ := explore.Replay(p.sc, ch, o)
			o2, _, _ := explore.Replay(p.sc, ch, o)
			if o1 != k || o2 != k {
				fmt.Println("FAIL replay nondeterministic:", p.name, k, o1, o2)
				fail++
			}
		}
	}
	if fail > 0 {
		fmt.Println("selftest: FAILED", fail)
		os.Exit(1)
	}
	fmt.Println("selftest: all engine self-tests passed")
}
