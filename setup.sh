#!/bin/sh
# Builds the framework from files on disk only (offline).
set -e
cd "$(dirname "$0")"
export GOFLAGS=-mod=mod GOPROXY=off GOSUMDB=off GOTOOLCHAIN=local
mkdir -p bin
(cd engine/instr && go build -o ../../bin/instr .)
echo "setup ok"
