#!/bin/sh
# Builds the framework from files on disk only (offline) and runs the engine self-tests.
set -e
cd "$(dirname "$0")"
export GOFLAGS=-mod=mod GOPROXY=off GOSUMDB=off GOTOOLCHAIN=local
mkdir -p bin .cache evidence
(cd engine/instr && go build -o ../../bin/instr .)
./check selftest
echo "setup ok"
