#!/bin/sh
# tools/demofails.sh <seeded-dir>: does the archived change still make its demonstration fail on the current /repo HEAD?
# (scratch worktree; /repo untouched). Prints "<name>: still-a-defect | MOOT (demo passes with the change) | PATCH DOES NOT APPLY".
export GOFLAGS=-mod=mod GOPROXY=off GOSUMDB=off GOTOOLCHAIN=local
d=$(cd "$1" && pwd); name=$(basename "$d")
S=/var/tmp/verif-demofails-$name-$$
git -C /repo worktree add -q --detach "$S" HEAD || { echo "$name: cannot create worktree"; exit 2; }
(cd "$d/demo" && find . -name '*_test.go' | while read f; do mkdir -p "$S/$(dirname "$f")"; cp "$f" "$S/$f"; done)
PKGS=$(cd "$d/demo" && find . -name '*_test.go' -exec dirname {} \; | sort -u)
if ! (cd "$S" && git apply "$d/patch.diff" 2>/dev/null); then echo "$name: PATCH DOES NOT APPLY"
else
  b=$(cd "$S" && timeout 300 go test -count=1 -timeout 200s -run TestMutDemo $PKGS 2>&1 | grep -c "^FAIL\|^--- FAIL\|panic:")
  if [ "$b" -gt 0 ]; then echo "$name: still-a-defect"; else echo "$name: MOOT (demo passes with the change)"; fi
fi
git -C /repo worktree remove --force "$S" >/dev/null 2>&1
