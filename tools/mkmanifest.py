#!/usr/bin/env python3
"""Regenerates MANIFEST.json from the table below (keeps it valid at all times)."""
import json, os
ROOT = os.path.dirname(os.path.dirname(os.path.abspath(__file__)))
props = [json.loads(l) for l in open(os.path.join(ROOT, 'properties.jsonl'))]

TRIE = "bounded-exhaustive input-trie exploration of the real pipelines under the controlled scheduler (explicit-state, every node executed)"
CLAIMED = {
 "C01": dict(engine="trie", design="5/C01", technique="explicit-state exploration of the input trie (all series over a small alphabet up to depth w+3..w+5, all period vectors in a box) on the real Compute, every output position compared with the documented formula",
   text="Exhaustive within stated bounds: every input series over the per-indicator alphabet (zeros, ties, negatives; valid OHLCV bars) up to the recorded depth, for every admissible configuration in the recorded box, is executed on the real implementation and every non-exempt output position is compared with a reference restated from the type's doc comment. This reaches what the pinned CSVs cannot: non-default periods, short inputs, ties and zeros.",
   note="Nothing is claimed outside the finite alphabets, depths and period boxes (recorded in the evidence notes). References are hand-written from doc comments (trusted). Known contradictions between code and documentation are classified by exact as-is models listed in known_findings.json; any other mismatch is a VIOLATION."),
 "C02": dict(engine="trie", design="5/C02", technique="explicit-state exploration of the input trie; output counts against n - IdlePeriod() on every node",
   text="Every node of the same tries is executed and the number of values on every output is compared with max(0, n-w) for all n in [0, w+3..w+5] and every configuration in the box; multi-output indicators must have equal lengths.",
   note="Lengths beyond the trie depth and periods outside the box are not covered. w is IdlePeriod() or, for the few types without it, the warm-up the formula implies."),
 "C04": dict(engine="trie", design="5/C04", technique="edge invariant over the input trie: outputs(prefix) is a bit-identical prefix of outputs(prefix+symbol), by induction every cut point and every suffix modification",
   text="For every edge of the tries (indicators and strategies) the parent's outputs must be a bit-identical prefix of the child's; siblings share the parent, so changing a later input never changes an earlier output within the explored space.",
   note="Covers series up to the trie depth over the finite alphabets; bit-for-bit comparison needs no tolerance."),
 "C15": dict(engine="trie", design="5/C15", technique="explicit-state exploration of the input trie over valid OHLCV alphabets with range/ordering invariants evaluated in every state",
   text="On every node of the tries over valid OHLCV bars / positive series the documented range and ordering inequalities are evaluated at every position whose defining denominator is non-zero; independent of any reference implementation.",
   note="Finite alphabets and depths as recorded; rounding slack 1e-9*scale."),
 "C16": dict(engine="mc-dpor", design="5/C16", technique="stateless model checking of helper networks on the real code: DPOR over all Mazurkiewicz traces plus delay-bounded DFS, slice-model oracle on every execution",
   text="Every helper x every input sequence up to length 5-6 x every parameter 0..7 x input capacity {0,1,2} is run as a network of producers, the helper and independent readers; all schedules are covered by DPOR (one representative per trace, cross-checked by delay-bounded DFS that assumes no independence). Every execution must produce the slice model, close its outputs, consume its inputs and leave no goroutine.",
   note="Element type float64, bounded lengths and parameters; scheduler models Go channel semantics at operation granularity (validated by engine self-tests against an unreduced DFS)."),
 "C17": dict(engine="history-bfs", design="5/C17", technique="explicit-state BFS over operation histories of the real Ring and Bst with concrete-state deduplication, abstract-model oracle on every transition",
   text="Ring: BFS to fixpoint over all put/get/at/isFull/isEmpty histories for capacities 1..4 over 3 values. Bst: BFS over all insert/remove histories with multiset size <= 5 (7 thorough) for every supported element type with values at both extremes; after every transition every query is compared with the bounded FIFO / multiset model.",
   note="States are deduplicated on a reflection dump of the concrete object (sound for deterministic objects). Values range over small sets that include the type extremes."),
}

CLAIMED.update({
 "C05": dict(engine="trie", design="5/C05", technique="explicit-state exploration of the OHLCV-bar input trie on the real strategies (base, decorated, compound): action count and Hold-through-warm-up invariants on every node",
   text="Every bar word over a six-bar OHLCV alphabet up to depth w+3..w+5, for every period/threshold configuration in the box, is executed on the real strategy (40 base strategies, decorators and compounds over them); each node must yield exactly n actions in {Sell,Hold,Buy} with Hold through the warm-up (only Holds, at least n, for n < w).",
   note="Finite alphabet, depths and configuration boxes as recorded; compounds are judged with the smallest warm-up of their members (Or/Split/Majority may act as soon as one member does)."),
 "C06": dict(engine="trie", design="5/C06", technique="explicit-state exploration of the OHLCV-bar input trie; action_i compared with the documented rule over documented-formula reference indicators",
   text="For every base strategy and configuration every node of the bar trie is executed and every action is compared with the documented decision rule evaluated on reference indicator values (the C01 references) computed from the documented price fields; positions where a compared pair ties within rounding are exempt.",
   note="Rules are restated from doc comments and the inline comments of Compute (trusted); where the documentation is silent the rule follows the code (recorded per entry). Known contradictions are classified by exact as-is models."),
 "C07": dict(engine="history-bfs", design="5/C07", technique="bounded-exhaustive enumeration of all action words (and closing words) fed through scripted stub strategies into the real combinators; reference vote functions / state machines and whole-history safety invariants",
   text="All tuples of action words over {Sell,Hold,Buy} for k=1..3 scripted sub-strategies (lengths to 7/5/3), all closing words over {1,2,4,3} for the price-dependent decorators, percentages {0,0.25,0.5}, nesting depth 2: each case runs the real combinator and is compared with the documented combination and the No-Loss / Stop-Loss safety invariants.",
   note="Stub strategies emit exactly one action per snapshot; MACD-RSI is checked against its real sub-strategies run separately."),
 "C08": dict(engine="history-bfs", design="5/C08", technique="bounded-exhaustive enumeration of all (value word, action word) pairs up to length 5-6 on the real Outcome/Normalize/Denormalize/CountTransactions; reference portfolio simulator and per-invariant oracles",
   text="Every action word x every value word over {1,2,4} (all length pairs incl. unequal) is run through the real pipelines; outcomes must match the cash/shares simulator, stay >= -1, be 0 before the first Buy, equal the value ratio for buy-and-hold bit-for-bit, be unchanged by NormalizeActions, and normalised streams must alternate.",
   note="Values over {1,2,4}; lengths to 5 (6 thorough)."),
 "C10": dict(engine="history-bfs", design="5/C10", technique="explicit-state BFS over Append histories on the three real repositories (SQL over an in-harness database/sql driver) with deduplication on the concrete persisted state; all reads compared with a map model in every state",
   text="BFS to depth 4-5 over Append histories (2 assets, 5 date-monotone batches incl. empty and equal-date) from several initial states; in every reachable state every read is issued and compared with the map model and must not change the state. Each history is one controlled execution, so visibility-after-return and hangs are decided deterministically.",
   note="SQL repository over the harness's conforming fake driver only; finite batches/dates."),
 "C11": dict(engine="history-bfs", design="5/C11", technique="bounded-exhaustive value catalogues (cartesian products per row shape), all header permutations, and explicit-state BFS over write/append file histories deduplicated on file bytes",
   text="Cartesian products of boundary values for every supported kind through WriteToFile/ReadFromFile (with and without header), all 24 header permutations with extra/missing columns, BFS over write/append/appendOrWrite histories with a list model read back after every step, and ChanToJSON->JSONToChan on the same catalogues.",
   note="Carriage returns excluded (encoding/csv trait); AppendToFile only on files that already have content."),
 "C12": dict(engine="mc-dpor", design="5/C12", technique="stateless model checking of the real Sync worker pool: DPOR with sleep sets over all Mazurkiewicz traces per scenario, vector-clock race detector on every execution, delay-bounded cross-check",
   text="1200 scenarios (initial target content x source presence x injected append failure x asset list mode x workers 1-3 x in-memory/file-system target, each run twice) are explored over ALL schedules of the real worker pool by DPOR; every execution must return, produce the reference target content once, report an error iff an asset failed, and contain no happens-before race.",
   note="Delay 0; heavier scenarios (3 workers with several failing assets, 3 assets in memory) run in the thorough tier under an execution cap that is reported."),
})

CLAIMED.update({
 "C03": dict(engine="mc-dpor", design="5/C03", technique="stateless model checking of every pipeline on the real code: DPOR with sleep sets over all Mazurkiewicz traces per (configuration, length, capacity) scenario, quiescence oracle without clocks, vector-clock race detector, delay-bounded cross-check",
   text="70k scenarios (101 pipelines + decorators/compounds x deep period boxes x input lengths around the warm-up x input capacities {0,1,3} x unequal input lengths) are each explored over ALL schedules by DPOR; a deadlock, a leaked goroutine, an output that is never closed, unconsumed buffered values, a panic, a second outcome or a happens-before race in any execution is a violation. Hangs are quiescent states of the controlled scheduler, not timeouts.",
   note="The scheduler models Go channel/WaitGroup/Mutex semantics at operation granularity (self-tested against an unreduced DFS); OS-thread counts are covered by the data-race-freedom argument, not enumerated."),
 "C09": dict(engine="mc-dpor", design="5/C09", technique="bounded-exhaustive call sequences on one instance against fresh instances, plus DPOR / delay-bounded exploration of two concurrent Compute calls with a happens-before race detector and a receiver-immutability invariant at every scheduling point",
   text="For every indicator and strategy x configuration: all ordered pairs (and some triples) of sequential Compute calls with inputs of four lengths on one instance must equal fresh-instance results and leave the receiver's deep dump unchanged; two concurrent calls on one instance are explored over all traces (DPOR) with the race detector on and the receiver dump compared at every scheduling point; compounds sharing a sub-strategy instance run concurrently.",
   note="Race freedom is decided on instrumented accesses only (fields via pointers, captured mutated variables, package variables, maps, slice elements); the auxiliary delay-bounded search is cut at 400 executions per scenario."),
 "C13": dict(engine="mc-dpor", design="5/C13", technique="stateless model checking of the real Backtest worker pool: DPOR with sleep sets, race detector, protocol/result oracles, rendered HTML parsed",
   text="162 scenarios (1-3 assets with snapshots inside and outside the look-back window x 3 strategy lists x workers 1-16 x recording / Data / HTML report): workers 1-3 are explored over all schedules by DPOR (HTML for the small pools), larger pools under the canonical schedule; every execution must follow the notification protocol, deliver exactly one result per pair equal to direct evaluation, give the same result set, rank non-increasingly and contain no race.",
   note="time.Now is not controlled (dates are kept a day away from the bound); HTML outcomes are compared at the two printed decimals; text/template's channel range is routed into the scheduler through an overlaid copy of the standard library file."),
 "C14": dict(engine="trie", design="5/C14", technique="bounded-exhaustive enumeration of (strategy, configuration, length, series) reports on the real code: every column drained by an independent reader under the controlled scheduler, then rendered through the real template and parsed",
   text="For every strategy (base, decorated, compound) x configuration x snapshot counts {w+1..w+4, 2w+2} x 3 series the report's date axis and every column channel are pulled out by reflection and drained independently: each column must supply exactly one value per date row; Close/annotation/Outcome (and catalogued indicator columns) are compared per date; the rendered HTML rows are parsed and compared, and an exhausted or over-long column is detected as a zero-value receive / blocked sender.",
   note="Bar series are fixed irregular series; indicator columns are compared where the catalogue restates them."),
 "C18": dict(engine="trie", design="5/C18", technique="explicit-state exploration of the input trie with a metamorphic oracle: every node re-executed on price- and volume-rescaled inputs (powers of two) and compared bit-for-bit",
   text="Every trie node (positive alphabets) of every indicator with catalogued homogeneity degrees and of every scale-free strategy is re-executed with all prices x 2^-3, 2^4, 2^10 and all volumes x 2^-2, 2^5: outputs must equal original x factor^degree bit-for-bit and actions must be identical.",
   note="Power-of-two factors only (exact IEEE covariance); degrees come from the catalogue."),
 "C19": dict(engine="token-enum", design="5/C19", technique="bounded-exhaustive enumeration of token strings (CSV, JSON, HTTP bodies x status codes) on the real readers under the controlled scheduler; reference readers built on encoding/csv and encoding/json",
   text="All strings of up to 6 CSV tokens (3 row shapes, with/without header) and up to 4 JSON tokens (also as Tiingo HTTP bodies with 8 status codes through a synchronous fake transport), plus unreadable/missing files: no panic in the reader goroutine, no hang, no leaked goroutine, delivered rows = well-formed prefix, non-200 and missing files yield errors.",
   note="Byte strings are token strings over the stated alphabets."),
})

checks = []
for pid, c in CLAIMED.items():
    checks.append({
        "property_id": pid,
        "quick_cmd": f"./check {pid} quick",
        "thorough_cmd": f"./check {pid} thorough",
        "evidence_file": f"/verif/evidence/{pid}.json",
        "replay_cmd_template": "./check --replay {path}",
        "engine": c["engine"],
        "level_claimed": {"category": "model_checking", "text": c["text"], "design_ref": "DESIGN.md section " + c["design"]},
        "level_note": c["note"],
        "technique": c["technique"],
    })
na = [{"property_id": p["id"], "reason": "check under construction in this framework (engine exists, scenario catalogue not finished); see DESIGN.md section 5"} for p in props if p["id"] not in CLAIMED]
m = {
 "version": 1,
 "setup_cmd": "./setup.sh",
 "hooks": {"guard": "verif", "enable": "no hooks are committed to /repo: engine/instr rewrites every channel/sync operation of /repo's current working tree into calls of the mc runtime on every run and the result is linked with `go build -overlay` (the repository itself is never modified)",
           "baseline_off_cmd": "cd /repo && go test -vet=off -count=1 -timeout 25m ./...", "source_commits": [], "add_only": True},
 "engines": [
  {"name": "mc-dpor", "path": "engine/mc + harness/explore", "serves_properties": [p for p,c in CLAIMED.items() if c["engine"]=="mc-dpor"], "kind_free_text": "hand-written controlled scheduler for Go channels/sync with exact operation semantics, stateless DPOR, delay-bounded DFS, vector-clock race detector"},
  {"name": "trie", "path": "harness/checks/ind.go, harness/cat, harness/ref", "serves_properties": [p for p,c in CLAIMED.items() if c["engine"]=="trie"], "kind_free_text": "bounded-exhaustive input-trie exploration; every node is an execution of the real pipeline under the controlled scheduler"},
  {"name": "token-enum", "path": "harness/checks/c19.go", "serves_properties": [p for p,c in CLAIMED.items() if c["engine"]=="token-enum"], "kind_free_text": "bounded-exhaustive token-string enumeration with reference tokenisers"},
  {"name": "history-bfs", "path": "harness/checks", "serves_properties": [p for p,c in CLAIMED.items() if c["engine"]=="history-bfs"], "kind_free_text": "explicit-state BFS over operation histories of real objects with concrete-state deduplication"},
 ],
 "checks": checks,
 "not_applicable": na,
 "notes": "All checks run the real implementation (instrumented copy generated from /repo's working tree at check time). VERIF_REPO can point the same commands at another checkout. Known findings: known_findings.json.",
}
json.dump(m, open(os.path.join(ROOT, 'MANIFEST.json'), 'w'), indent=1)
print("claimed:", sorted(CLAIMED), "not applicable:", [x["property_id"] for x in na])
