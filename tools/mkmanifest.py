#!/usr/bin/env python3
"""Regenerates MANIFEST.json from the table below (keeps it valid at all times)."""
import json, os
ROOT = os.path.dirname(os.path.dirname(os.path.abspath(__file__)))
props = [json.loads(l) for l in open(os.path.join(ROOT, 'properties.jsonl'))]

TRIE = "bounded-exhaustive input-trie exploration of the real pipelines under the controlled scheduler (explicit-state, every node executed)"
CLAIMED = {
 "C01": dict(engine="trie", design="5/C01", technique="explicit-state exploration of the input trie (all series over a small alphabet up to depth w+3..w+5, all period vectors in a box) on the real Compute, every output position compared with the documented formula",
   text="Exhaustive within stated bounds: every input series over the per-indicator alphabet (zeros, ties, negatives; valid OHLCV bars) up to the recorded depth, for every admissible configuration in the recorded box, is executed on the real implementation and every non-exempt output position is compared with a reference restated from the type's doc comment. This reaches what the pinned CSVs cannot: non-default periods, short inputs, ties and zeros.",
   note="Nothing is claimed outside the finite alphabets, depths and period boxes (recorded in the evidence notes). References are hand-written from doc comments (trusted). Known contradictions between code and documentation are classified by exact as-is models listed in known_findings.json; any other mismatch is a VIOLATION."),
 "C02": dict(engine="trie", design="5/C02", technique="explicit-state exploration of the input trie; output counts against n - IdlePeriod() on every node",
   text="Every node of the same tries is executed and the number of values on every output is compared with max(0, n-w) for all n in [0, w+3..w+5] and every configuration in the box; multi-output indicators must have equal lengths.",
   note="Lengths beyond the trie depth and periods outside the box are not covered. w is IdlePeriod() or, for the few types without it, the warm-up the formula implies."),
 "C04": dict(engine="trie", design="5/C04", technique="edge invariant over the input trie: outputs(prefix) is a bit-identical prefix of outputs(prefix+symbol), by induction every cut point and every suffix modification",
   text="For every edge of the tries (indicators and strategies) the parent's outputs must be a bit-identical prefix of the child's; siblings share the parent, so changing a later input never changes an earlier output within the explored space.",
   note="Covers series up to the trie depth over the finite alphabets; bit-for-bit comparison needs no tolerance."),
 "C15": dict(engine="trie", design="5/C15", technique="explicit-state exploration of the input trie over valid OHLCV alphabets with range/ordering invariants evaluated in every state",
   text="On every node of the tries over valid OHLCV bars / positive series the documented range and ordering inequalities are evaluated at every position whose defining denominator is non-zero; independent of any reference implementation.",
   note="Finite alphabets and depths as recorded; rounding slack 1e-9*scale."),
 "C16": dict(engine="mc-dpor", design="5/C16", technique="stateless model checking of helper networks on the real code: DPOR over all Mazurkiewicz traces plus delay-bounded DFS, slice-model oracle on every execution",
   text="Every helper x every input sequence up to length 5-6 x every parameter 0..7 x input capacity {0,1,2} is run as a network of producers, the helper and independent readers; all schedules are covered by DPOR (one representative per trace, cross-checked by delay-bounded DFS that assumes no independence). Every execution must produce the slice model, close its outputs, consume its inputs and leave no goroutine.",
   note="Element type float64, bounded lengths and parameters; scheduler models Go channel semantics at operation granularity (validated by engine self-tests against an unreduced DFS)."),
 "C17": dict(engine="history-bfs", design="5/C17", technique="explicit-state BFS over operation histories of the real Ring and Bst with concrete-state deduplication, abstract-model oracle on every transition",
   text="Ring: BFS to fixpoint over all put/get/at/isFull/isEmpty histories for capacities 1..4 over 3 values. Bst: BFS over all insert/remove histories with multiset size <= 5 (7 thorough) for every supported element type with values at both extremes; after every transition every query is compared with the bounded FIFO / multiset model.",
   note="States are deduplicated on a reflection dump of the concrete object (sound for deterministic objects). Values range over small sets that include the type extremes."),
}

CLAIMED.update({
 "C05": dict(engine="trie", design="5/C05", technique="explicit-state exploration of the OHLCV-bar input trie on the real strategies (base, decorated, compound): action count and Hold-through-warm-up invariants on every node",
   text="Every bar word over a six-bar OHLCV alphabet up to depth w+3..w+5, for every period/threshold configuration in the box, is executed on the real strategy (40 base strategies, decorators and compounds over them); each node must yield exactly n actions in {Sell,Hold,Buy} with Hold through the warm-up (only Holds, at least n, for n < w).",
   note="Finite alphabet, depths and configuration boxes as recorded; compounds are judged with the smallest warm-up of their members (Or/Split/Majority may act as soon as one member does)."),
 "C06": dict(engine="trie", design="5/C06", technique="explicit-state exploration of the OHLCV-bar input trie; action_i compared with the documented rule over documented-formula reference indicators",
   text="For every base strategy and configuration every node of the bar trie is executed and every action is compared with the documented decision rule evaluated on reference indicator values (the C01 references) computed from the documented price fields; positions where a compared pair ties within rounding are exempt.",
   note="Rules are restated from doc comments and the inline comments of Compute (trusted); where the documentation is silent the rule follows the code (recorded per entry). Known contradictions are classified by exact as-is models."),
 "C07": dict(engine="history-bfs", design="5/C07", technique="bounded-exhaustive enumeration of all action words (and closing words) fed through scripted stub strategies into the real combinators; reference vote functions / state machines and whole-history safety invariants",
   text="All tuples of action words over {Sell,Hold,Buy} for k=1..3 scripted sub-strategies (lengths to 7/5/3), all closing words over {1,2,4,3} for the price-dependent decorators, percentages {0,0.25,0.5}, nesting depth 2: each case runs the real combinator and is compared with the documented combination and the No-Loss / Stop-Loss safety invariants.",
   note="Stub strategies emit exactly one action per snapshot; MACD-RSI is checked against its real sub-strategies run separately."),
 "C08": dict(engine="history-bfs", design="5/C08", technique="bounded-exhaustive enumeration of all (value word, action word) pairs up to length 5-6 on the real Outcome/Normalize/Denormalize/CountTransactions; reference portfolio simulator and per-invariant oracles",
   text="Every action word x every value word over {1,2,4} (all length pairs incl. unequal) is run through the real pipelines; outcomes must match the cash/shares simulator, stay >= -1, be 0 before the first Buy, equal the value ratio for buy-and-hold bit-for-bit, be unchanged by NormalizeActions, and normalised streams must alternate.",
   note="Values over {1,2,4}; lengths to 5 (6 thorough)."),
 "C10": dict(engine="history-bfs", design="5/C10", technique="explicit-state BFS over Append histories on the three real repositories (SQL over an in-harness database/sql driver) with deduplication on the concrete persisted state; all reads compared with a map model in every state",
   text="BFS to depth 4-5 over Append histories (2 assets, 5 date-monotone batches incl. empty and equal-date) from several initial states; in every reachable state every read is issued and compared with the map model and must not change the state. Each history is one controlled execution, so visibility-after-return and hangs are decided deterministically.",
   note="SQL repository over the harness's conforming fake driver only; finite batches/dates."),
 "C11": dict(engine="history-bfs", design="5/C11", technique="bounded-exhaustive value catalogues (cartesian products per row shape), all header permutations, and explicit-state BFS over write/append file histories deduplicated on file bytes",
   text="Cartesian products of boundary values for every supported kind through WriteToFile/ReadFromFile (with and without header), all 24 header permutations with extra/missing columns, BFS over write/append/appendOrWrite histories with a list model read back after every step, and ChanToJSON->JSONToChan on the same catalogues.",
   note="Carriage returns excluded (encoding/csv trait); AppendToFile only on files that already have content."),
 "C12": dict(engine="mc-dpor", design="5/C12", technique="stateless model checking of the real Sync worker pool: DPOR with sleep sets over all Mazurkiewicz traces per scenario, vector-clock race detector on every execution, delay-bounded cross-check",
   text="1200 scenarios (initial target content x source presence x injected append failure x asset list mode x workers 1-3 x in-memory/file-system target, each run twice) are explored over ALL schedules of the real worker pool by DPOR; every execution must return, produce the reference target content once, report an error iff an asset failed, and contain no happens-before race.",
   note="Delay 0; heavier scenarios (3 workers with several failing assets, 3 assets in memory) run in the thorough tier under an execution cap that is reported."),
})

checks = []
for pid, c in CLAIMED.items():
    checks.append({
        "property_id": pid,
        "quick_cmd": f"./check {pid} quick",
        "thorough_cmd": f"./check {pid} thorough",
        "evidence_file": f"/verif/evidence/{pid}.json",
        "replay_cmd_template": "./check --replay {path}",
        "engine": c["engine"],
        "level_claimed": {"category": "model_checking", "text": c["text"], "design_ref": "DESIGN.md section " + c["design"]},
        "level_note": c["note"],
        "technique": c["technique"],
    })
na = [{"property_id": p["id"], "reason": "check under construction in this framework (engine exists, scenario catalogue not finished); see DESIGN.md section 5"} for p in props if p["id"] not in CLAIMED]
m = {
 "version": 1,
 "setup_cmd": "./setup.sh",
 "hooks": {"guard": "verif", "enable": "no hooks are committed to /repo: engine/instr rewrites every channel/sync operation of /repo's current working tree into calls of the mc runtime on every run and the result is linked with `go build -overlay` (the repository itself is never modified)",
           "baseline_off_cmd": "cd /repo && go test -vet=off -count=1 -timeout 25m ./...", "source_commits": [], "add_only": True},
 "engines": [
  {"name": "mc-dpor", "path": "engine/mc + harness/explore", "serves_properties": [p for p,c in CLAIMED.items() if c["engine"]=="mc-dpor"], "kind_free_text": "hand-written controlled scheduler for Go channels/sync with exact operation semantics, stateless DPOR, delay-bounded DFS, vector-clock race detector"},
  {"name": "trie", "path": "harness/checks/ind.go, harness/cat, harness/ref", "serves_properties": [p for p,c in CLAIMED.items() if c["engine"]=="trie"], "kind_free_text": "bounded-exhaustive input-trie exploration; every node is an execution of the real pipeline under the controlled scheduler"},
  {"name": "history-bfs", "path": "harness/checks", "serves_properties": [p for p,c in CLAIMED.items() if c["engine"]=="history-bfs"], "kind_free_text": "explicit-state BFS over operation histories of real objects with concrete-state deduplication"},
 ],
 "checks": checks,
 "not_applicable": na,
 "notes": "All checks run the real implementation (instrumented copy generated from /repo's working tree at check time). VERIF_REPO can point the same commands at another checkout. Known findings: known_findings.json.",
}
json.dump(m, open(os.path.join(ROOT, 'MANIFEST.json'), 'w'), indent=1)
print("claimed:", sorted(CLAIMED), "not applicable:", [x["property_id"] for x in na])
