#!/bin/sh
# tools/confirmseeded.sh <seeded-dir> ...
# Re-confirms an archived seeded change against the current /repo HEAD in a scratch worktree:
#   demo passes without the change, the repository's suite passes with it, the demo fails with it.
export GOFLAGS=-mod=mod GOPROXY=off GOSUMDB=off GOTOOLCHAIN=local
rc=0
for d in "$@"; do
  d=$(cd "$d" && pwd); name=$(basename "$d")
  S=/var/tmp/verif-confirm-$name-$$
  git -C /repo worktree add -q --detach "$S" HEAD || { echo "$name: cannot create worktree"; rc=2; continue; }
  (cd "$d/demo" && find . -name '*_test.go' | while read f; do mkdir -p "$S/$(dirname "$f")"; cp "$f" "$S/$f"; done)
  PKGS=$(cd "$d/demo" && find . -name '*_test.go' -exec dirname {} \; | sort -u | sed 's|^\./|./|')
  a=$(cd "$S" && go test -count=1 -timeout 180s -run TestMutDemo $PKGS 2>&1 | tail -1)
  if ! (cd "$S" && git apply "$d/patch.diff" 2>/dev/null); then echo "$name: PATCH DOES NOT APPLY"; rc=1; git -C /repo worktree remove --force "$S"; continue; fi
  b=$(cd "$S" && go test -count=1 -timeout 180s -run TestMutDemo $PKGS 2>&1 | grep -c "^FAIL\|^--- FAIL\|panic:")
  (cd "$S" && find . -name 'mutdemo_test.go' -exec mv {} {}.off \;)
  c=$(cd "$S" && go build ./... 2>&1 | head -3; go test -count=1 -timeout 300s ./... 2>&1 | grep -v "^ok\|no test files" | head -3)
  case "$a" in ok*) ua=pass ;; *) ua="FAILS($a)" ;; esac
  [ "$b" -gt 0 ] && ub=fails || ub=PASSES
  [ -z "$c" ] && uc=pass || uc="FAILS: $c"
  echo "$name: demo without change: $ua; demo with change: $ub; suite with change: $uc"
  [ "$ua" = pass ] && [ "$ub" = fails ] && [ -z "$c" ] || rc=1
  git -C /repo worktree remove --force "$S" >/dev/null 2>&1
done
exit $rc
