#!/usr/bin/env python3
# tools/archive7.py: archives the round-7 seeded changes from their scratch worktrees /tmp/mut7-CXX into seeded/CXX-7
# (patch, demo, the sub-agent's MUTATION.md and a meta.json). Run once, after tools/evalmut.sh confirmed each of them.
import json, os, shutil, subprocess, sys

SRC = "fresh sub-agent given only the property text (plus one-line notes of the earlier rounds' ideas, all caught by then) and a private worktree of /repo (commit 95da230; worktrees moved to 9528d80 after the DemaStrategy fix, the patch of C06-7 re-based by hand)"
CONF = "tools/evalmut.sh /tmp/mut7-%s %s on /repo 9528d80: demo passes on the unchanged tree; repository suite passes with the change; demo fails with the change; change applied to /repo with git apply, checks run, git checkout"

INFO = {
 "C01": ("closings quoted in very small units (sum of |changes| over the efficiency-ratio window <= 1e-9, e.g. any series x 2^-40)", ["C01"],
         "missed by C01 (all series of ordinary magnitude); caught by C18 through KamaStrategy",
         "C01/C15: the long series run again with all prices x 2^-40 and x 2^30, tolerance floor per output from its homogeneity degree; de Bruijn series rotated so that the flat run comes last"),
 "C02": ("two Compute calls on one MovingStd instance that overlap (second call before the first stream is fed)", ["C09"],
         "missed by C02 (one stream per instance); caught by C09 (receiver changed by Compute, shared-input oracle)", ""),
 "C03": ("trend.Apo / ApoStrategy with SlowPeriod - FastPeriod >= 130 and more than FastPeriod+130 values", ["C03"],
         "missed (period boxes stop at 4)",
         "C03: large-period units - every configuration shape with its periods x 70 (thorough 150, 330), inputs of w+3 and 2w+2 values, DPOR"),
 "C04": ("the same TripleRsiStrategy object runs Compute twice; second series longer than 199 with RSI beyond a level at position 199/200", ["C09"],
         "missed by C04 (fresh object per run); caught by C09 (receiver changed by Compute)", ""),
 "C05": ("a snapshot with High == Low given to ChaikinMoneyFlowStrategy", ["C05"],
         "caught (zero-range bars are in the C05 alphabet since round 5)", ""),
 "C06": ("DemaStrategy whose first DEMA is slower than the second", ["C06", "C05", "C03"],
         "missed (configuration box had Dema1 <= Dema2 only)",
         "DemaStrategy box takes both orders (C03, C04, C05, C06, C09, C14, C18); this exposed a genuine warm-up defect of the unchanged code, repaired in /repo 9528d80"),
 "C07": ("the close at which NoLoss buys is negative", ["C07"],
         "missed (closings were non-negative)", "C07: closings alphabet {-3, -5, -2, 2} for the decorators"),
 "C08": ("strategy.ComputeWithOutcome over snapshots with Volume == 0 and Open == High == Low == Close", ["C08"],
         "missed (C08 drove Outcome directly)", "C08: ComputeWithOutcome units over a stub strategy replaying every action word on bars that include flat zero-volume rows"),
 "C10": ("process time zone (time.Local) with a non-zero UTC offset", ["C10"],
         "missed (time.Local is UTC in the sandbox)", "C10: initial states that set time.Local to UTC+9 and UTC-5 before the repository is opened"),
 "C11": ("a string field holding exactly `null`", ["C11"],
         "missed (string alphabet had no such word)", "C11: unit csv-lookalike-strings (null, NULL, nil, NaN, N/A, -, 0, 1e5, true, #x, a date, \\N, =1+1) in string fields"),
 "C12": ("Sync.Delay > 0, more assets than workers", ["C12"],
         "missed (Delay was always 0)", "C12: scenarios with Delay 5 and 1 (time.Sleep is a scheduling point of the engine)"),
 "C13": ("HTML report ranking with a NaN outcome among finite ones", ["C13"],
         "missed (outcomes were finite)", "C13: an asset whose first closing inside the window is NaN; ranking oracle places NaN consistently (non-increasing among the finite ones)"),
 "C14": ("AlligatorStrategy whose jaw period is not the largest (teeth or lip >= jaw + 2)", ["C14"],
         "missed twice: ordered periods only; then hidden behind the recorded Alligator finding, whose pattern matched any column-count disagreement",
         "AlligatorStrategy configurations in any order; the recorded Alligator/SMMA report findings match their exact pattern only and the content of those reports is compared in the recorded alignment"),
 "C15": ("float prices at a scale where the distinct highs/lows of one window lie within 1e-9", ["C15"],
         "missed by C15 (ordinary magnitudes); caught by C18 through KdjStrategy", "C01/C15 scaled long series (x 2^-40)"),
 "C16": ("Operate with unequal lengths inside a network where the rest of the longer input becomes available only after the result has ended (a diamond below one Duplicate)", ["C03"],
         "not a C16 violation by the letter (with independent producers the helper still equals its slice model: same values, same length, longer input consumed); the change turns into deadlocks of real pipelines, which C03 reports (Kdj, StochasticOscillator, ... with unequal input lengths)", ""),
 "C17": ("ring capacity that is not a power of two and 2^32 cumulative puts", ["C17 (thorough)"],
         "missed, and the explicit-state search did not terminate (unbounded concrete state)",
         "C17: BFS stops at depth 6*capacity+6 with exhaustive:false; rings of capacity 3, 4, 5, 7 through 2^16+64 (quick) / 2^32+64 (thorough) puts. Not detectable in the quick tier"),
 "C18": ("a price factor that is not a power of two and bars where VWMA and SMA are within 1e-7 relative", ["C18", "C06"],
         "missed by C18 (power-of-two factors are exact in float32 too; the pass with factors 100, 3, 0.01 skipped every strategy that has a recorded as-is model, VwmaStrategy among them); caught by C06 (fine-grained bars)",
         "C18: the non-power-of-two pass covers strategies with recorded as-is models too - a position is judged unless the documented rule or any as-is model has a tie there; only runs with a recorded extra action are skipped. C06: second pass over fine-grained bars (nearly constant volume)"),
 "C19": ("an HTTP response that stays open after the malformed part (or after a non-200 header)", ["C19"],
         "missed (bodies always reached EOF)", "C19: fake transport whose body blocks after the given bytes (openConnectionUnit): the reader must finish without reading on"),
 "C09": ("a member of MacdRsiStrategy replaced (exported pointer field) after the instance has been used once", ["C09"],
         "caught (receiver changed by Compute; race on the cache fields)", ""),
}


def main():
    for pid, (needs, det, first, strength) in sorted(INFO.items()):
        w = "/tmp/mut7-" + pid
        dst = "/verif/seeded/%s-7" % pid
        if not os.path.isdir(w):
            print("missing", w); continue
        os.makedirs(dst, exist_ok=True)
        shutil.copy(w + "/patch.diff", dst + "/patch.diff")
        shutil.copy(w + "/MUTATION.md", dst + "/MUTATION.md")
        st = subprocess.run(["git", "-C", w, "status", "--porcelain"], capture_output=True, text=True).stdout
        demos = [l[3:] for l in st.splitlines() if l.startswith("??") and l.endswith("_test.go")]
        for d in demos:
            os.makedirs(os.path.dirname(dst + "/demo/" + d), exist_ok=True)
            shutil.copy(w + "/" + d, dst + "/demo/" + d)
        files = [l[3:] for l in st.splitlines() if l.startswith(" M")]
        meta = {"property": pid, "round": 7, "source": SRC, "files_changed": files,
                "demo": ["demo/" + d for d in demos], "needs_to_manifest": needs,
                "confirmed_by": CONF % (pid, ",".join(x.split()[0] for x in det)),
                "detected_by": det, "first_run": first}
        if strength:
            meta["strengthening"] = strength
        if pid == "C06":
            meta["rebased"] = "patch re-based by hand onto 9528d80 (the DemaStrategy fix touches the lines the change rewrites); demo and suite re-confirmed"
        json.dump(meta, open(dst + "/meta.json", "w"), indent=1)
        print("archived", dst, files, demos)


if __name__ == "__main__":
    main()
