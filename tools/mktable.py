#!/usr/bin/env python3
"""Rewrites the seeded-change table in DESIGN.md from seeded/*/meta.json."""
import json, glob, os, re
ROOT = os.path.dirname(os.path.dirname(os.path.abspath(__file__)))
rows = []
for d in sorted(glob.glob(os.path.join(ROOT, 'seeded', '*'))):
    m = json.load(open(os.path.join(d, 'meta.json')))
    rows.append((os.path.basename(d), m))
out = ["| seeded change | files | needs in order to manifest | detected by | first run | strengthening it led to |", "|---|---|---|---|---|---|"]
for name, m in rows:
    det = ', '.join(m['detected_by'])
    if m.get('moot_since'):
        det += ' (until it became behaviour preserving: ' + m['moot_since'].split(' (')[0] + ')'
    out.append("| %s | %s | %s | %s | %s | %s |" % (name, ', '.join(m['files_changed']), m['needs_to_manifest'], det, m['first_run'], m.get('strengthening') or '–'))
moot = sum(1 for _, m in rows if m.get('moot_since'))
missed = sum(1 for _, m in rows if m['first_run'].startswith('missed'))
partial = sum(1 for _, m in rows if m['first_run'].startswith('caught by') )
summary = "%d seeded changes (each: compiles, passes the repository's suite, has a demonstration that fails with it and passes without it; confirmed with tools/evalmut.sh). On their first run %d were missed by every check, %d were caught only by the check of another property, the rest by the targeted check; after the strengthening listed all %d are detected (by the checks named), and every check still passes on the unchanged tree. %d of them became behaviour preserving through a later repair of /repo (the demonstration passes with the change on the current HEAD; marked in the table) and are kept for the record only." % (len(rows), missed, partial, len(rows), moot)
s = open(os.path.join(ROOT, 'DESIGN.md')).read()
block = "<!-- seeded-table-begin -->\n" + summary + "\n\n" + "\n".join(out) + "\n<!-- seeded-table-end -->"
if '<!-- seeded-table-begin -->' in s:
    s = re.sub(r'<!-- seeded-table-begin -->.*<!-- seeded-table-end -->', lambda _: block, s, flags=re.S)
else:
    s += "\n## 18. Seeded changes: which checks catch which\n\nFresh sub-agents were given only the text of one property and a private worktree of `/repo` (nothing from `/verif`) and asked for a realistic change that breaks the property, compiles, passes the existing suite and needs something specific to manifest. Each kept change lives in `seeded/<id>[-round]/` (patch.diff, demo, MUTATION.md, meta.json). To re-run one: `tools/evalmut.sh <dir-with-patch.diff> <check ids>` (applies the patch to `/repo`, runs the checks, undoes it).\n\n" + block + "\n"
open(os.path.join(ROOT, 'DESIGN.md'), 'w').write(s)
print(summary)
