#!/bin/sh
# tools/evalmut.sh <worktree> <check-id>[,<check-id>...] [tier]
# Confirms a seeded change (patch.diff + mutdemo_test.go in <worktree>) in a scratch worktree:
#   suite passes with the change, demo fails with it, demo passes without it;
# then applies it to /repo, runs the given checks, and undoes it.
set -u
W="$1"; IDS="$2"; TIER="${3:-quick}"
export GOFLAGS=-mod=mod GOPROXY=off GOSUMDB=off GOTOOLCHAIN=local
S=/var/tmp/verif-evalmut-$$
git -C /repo worktree add -q --detach "$S" HEAD || exit 2
trap 'git -C /repo worktree remove --force "$S" >/dev/null 2>&1; git -C /repo checkout -q -- . 2>/dev/null; [ -n "${EVB:-}" ] && [ -d "$EVB" ] && { rm -rf /verif/evidence; mv "$EVB" /verif/evidence; }' EXIT
DEMO=$(cd "$W" && git status --porcelain | grep '^??' | awk '{print $2}' | grep '_test.go$' | head -5)
echo "== demo files: $DEMO"
for d in $DEMO; do mkdir -p "$S/$(dirname $d)"; cp "$W/$d" "$S/$d"; done
PKGS=$(for d in $DEMO; do echo "./$(dirname $d)/"; done | sort -u)
echo "== demo on unchanged code (must pass)"
(cd "$S" && go test -count=1 -timeout 180s -run 'TestMutDemo' $PKGS 2>&1 | tail -3)
echo "== apply patch"
(cd "$S" && git apply "$W/patch.diff") || { echo "PATCH DOES NOT APPLY"; exit 2; }
echo "== suite with the change (must pass)"
(cd "$S" && go build ./... && for d in $DEMO; do mv "$d" "$d.off"; done; go test -count=1 -timeout 300s ./... 2>&1 | grep -v "^ok\|no test files" | head -5; for d in $DEMO; do mv "$d.off" "$d"; done)
echo "== demo with the change (must fail)"
(cd "$S" && go test -count=1 -timeout 180s -run 'TestMutDemo' $PKGS 2>&1 | tail -4)
echo "== checks on /repo with the change applied"
# the evidence files describe runs on the unchanged tree: keep them aside while a change is applied
EVB=/var/tmp/verif-evalmut-evidence-$$; rm -rf "$EVB"; cp -a /verif/evidence "$EVB"
git -C /repo apply "$W/patch.diff" || { echo "PATCH DOES NOT APPLY TO /repo"; exit 2; }
for id in $(echo "$IDS" | tr ',' ' '); do
  (cd /verif && ./check "$id" "$TIER" 2>&1 | grep -v "^KNOWN" | grep "VIOLATION\|unit=\|$id $TIER:\|INTERNAL" | head -5 | cut -c1-420)
done
git -C /repo checkout -q -- .
rm -rf /verif/evidence; mv "$EVB" /verif/evidence
git -C /repo status --short | head -3
