#!/bin/sh
# tools/thorough-all.sh [check ids...]
# Runs the thorough tier of the given checks (default: all 19, the short ones first, the unchanged long ones last) one
# after the other on /repo's current tree and commits each evidence file as soon as its check has passed, so that an
# interrupted run leaves a consistent state (evidence of the quick tier for the checks that were not reached).
# Never run tools/evalmut.sh at the same time: it patches /repo.
cd /verif || exit 2
IDS="${*:-C17 C08 C11 C19 C14 C15 C03 C09 C12 C16 C04 C05 C01 C02 C06 C07 C10 C13 C18}"
for c in $IDS; do
  echo "=== $c $(date -u +%H:%M:%S)"
  /usr/bin/time -f "%es" env VERIF_WORKERS="${VERIF_WORKERS:-15}" ./check "$c" thorough > "logs/thorough-$c.out" 2>&1
  rc=$?
  grep -v "^KNOWN" "logs/thorough-$c.out" | tail -6 | cut -c1-400
  echo "exit=$rc"
  if [ $rc -eq 0 ] && ! grep -q "^VIOLATION" "logs/thorough-$c.out"; then
    git add "evidence/$c.json" && git commit -q -m "evidence: $c thorough tier on /repo $(git -C /repo rev-parse --short HEAD)" && echo "committed evidence/$c.json"
  fi
done
echo ALLDONE
