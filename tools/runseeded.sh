#!/bin/sh
# tools/runseeded.sh [seeded-dir ...]   (default: all of /verif/seeded/*)
# For every seeded change: scratch worktree of /repo HEAD + patch, then the checks named in meta.json
# (detected_by) are run against it through VERIF_REPO. Prints one line per change: DETECTED / MISSED.
# /repo itself is not touched, so this can run in the background.
ROOT="$(cd "$(dirname "$0")/.." && pwd)"
export GOFLAGS=-mod=mod GOPROXY=off GOSUMDB=off GOTOOLCHAIN=local
[ $# -eq 0 ] && set -- "$ROOT"/seeded/*
rc=0
export VERIF_EVIDENCE_DIR=/var/tmp/verif-seeded-evidence-$$
trap 'rm -rf "$VERIF_EVIDENCE_DIR"' EXIT
for d in "$@"; do
  d=$(cd "$d" && pwd)
  name=$(basename "$d")
  S=/var/tmp/verif-seeded-$name-$$
  git -C /repo worktree add -q --detach "$S" HEAD || { echo "$name: cannot create worktree"; rc=2; continue; }
  if ! git -C "$S" apply "$d/patch.diff" 2>/dev/null; then
    echo "$name: PATCH DOES NOT APPLY to the current /repo HEAD"; rc=2
  else
    ids=$(python3 -c "import json;print(' '.join(json.load(open('$d/meta.json'))['detected_by']))")
    hit=""
    for id in $ids; do
      out=$(cd "$ROOT" && VERIF_REPO="$S" ./check "$id" quick 2>&1)
      if echo "$out" | grep -q "^VIOLATION property=$id"; then hit="$hit $id"; fi
    done
    if [ -n "$hit" ]; then echo "$name: DETECTED by$hit"; else echo "$name: MISSED (ran: $ids)"; rc=1; fi
  fi
  git -C /repo worktree remove --force "$S" >/dev/null 2>&1
done
exit $rc
