#!/usr/bin/env python3
# tools/archive8.py: archives the round-8 seeded changes from their scratch worktrees /tmp/mut8-CXX into seeded/CXX-8
# (patch, demo, the sub-agent's MUTATION.md and a meta.json). Run once, after tools/evalmut.sh confirmed each of them.
import json, os, shutil, subprocess, sys

SRC = "fresh sub-agent given only the property text (plus one-line notes of the earlier rounds' ideas, all caught by then) and a private worktree of /repo (commit 9528d80; worktrees moved to 8b3249d after the Apo fix, no patch touches those lines)"
CONF = "tools/evalmut.sh /tmp/mut8-%s %s on /repo 8b3249d: demo passes on the unchanged tree; repository suite passes with the change; demo fails with the change; change applied to /repo with git apply, checks run, git checkout"

INFO = {
 "C01": ("momentum.Pvo with an EMA whose Smoothing is not the default 2", ["C01"],
         "missed (the catalogue varied periods only; Ema.Smoothing, a second exported configuration field, stayed at its default)",
         "C01/C06: variant units that set every exported *Smoothing field reachable in the object to 1.5 and evaluate the references with the same constant (checks/smoothing.go); this exposed a genuine defect of the unchanged code (Apo ignores FastSmoothing / SlowSmoothing), repaired in /repo 8b3249d"),
 "C02": ("trend.Wma (directly, through Hma, or as the Ma of Atr / SuperTrend / Envelope / Tsi) with a window of 128 or more", ["C02"],
         "missed (period boxes stop at 4; the large periods of C03 checked termination only)",
         "C01/C02: large-period units - every configuration shape with its periods x 70 (thorough 150, 330) on a de Bruijn series of 2 200 values, outputs counted (also at n = w-1 .. w+2) and compared with the documented formula"),
 "C03": ("more than 32 long-lived Drain calls alive at once in the process (a vote over 40 strategies that drain a branch)", ["C03"],
         "missed (one pipeline, or a handful, per execution)",
         "C03: wide networks - a Majority over 40 instances of every strategy on w+60 snapshots and 40 pipelines of every indicator side by side in one execution"),
 "C04": ("EaseOfMovementStrategy on a series with a zero-volume session", ["C04", "C05"],
         "caught (zero-volume bars in the alphabets since round 5)", ""),
 "C05": ("two Compute pipelines of one TripleRsiStrategy value alive at once", ["C09"],
         "missed by C05 (one pipeline per instance); caught by C09 (receiver changed by Compute; overlapping calls differ from fresh instances)", ""),
 "C06": ("VwmaStrategy on closing prices around 1e-7 or smaller", ["C06", "C18"],
         "missed by C06 (ordinary magnitudes); caught by C18 (factor 2^-40)",
         "C06: third pass over the ordinary bars with all prices x 2^-40"),
 "C07": ("one strategy object listed twice in And / Or / Majority", ["C07"],
         "missed (members were always distinct objects)",
         "C07: combinations And{x,x}, Or{x,x}, And{x,y,x}, Majority{x,x,y}, Split{x,x} over one stub object"),
 "C08": ("an action that arrives more than 2 s after its value (a time limit in Outcome)", ["C08"],
         "caught (the engine's timers may fire at any moment, so the explorer takes the time-out branch)", ""),
 "C09": ("one helper.Csv object reading a second file whose header lacks or renames a column of the first", ["C09"],
         "missed (reader objects were used once; C19 re-read the same text only)",
         "C09: unit csv-reader-object-reuse - every sequence of up to 3 documents out of 8 (columns reordered, missing, renamed, extra, empty file, header alone) through one object against fresh objects"),
 "C10": ("GetSince on the in-memory or file-system repository with a snapshot date or bound after 2262-04-11", ["C10"],
         "missed (dates in 2021)", "C10: initial states far-dates-2262 (day 0 = 2262-04-10) and far-dates-9999 (December 9999) for all three repositories"),
 "C11": ("a string beginning with # in the first column (or as first header name)", ["C11"],
         "caught (look-alike strings of round 7 include #x)", ""),
 "C12": ("a file-system repository supplying the asset list and an asset name with a dot (BRK.B)", ["C10"],
         "missed by C12 (explicit lists, in-memory targets) and by C10 (names A, gs, Z)",
         "C10: initial state dotted-names (BRK.B, x.csv, BF.A behind the model's names) for all three repositories: Assets() must list what holds snapshots"),
 "C13": ("the same Backtest object run twice with another LastDays", ["C13"],
         "caught (second Run and look-back scenarios of rounds 4/5)", ""),
 "C14": ("a non-finite value (NaN / Inf) in a numeric report column", ["C14"],
         "caught (configurations whose indicator is 0/0 on the fixed bars, e.g. TsiStrategy(1,1,3): the column has fewer values than date rows)", ""),
 "C15": ("one Aroon instance reused after Period was lowered", ["C09"],
         "missed by C15 (fresh instance per configuration); caught by C09 (reconfiguration in place; receiver changed by Compute)", ""),
 "C16": ("the producer of the longer input of a zip pauses for more than a second after the result has ended (a time limit in the background drain)", ["C16"],
         "caught (timers may fire at any moment: the explorer takes the branch where the drain gives up, the rest of the longer input is never consumed)", ""),
 "C17": ("ring capacity above 1024 and a Get before the storage has been filled for the first time", ["C17"],
         "missed (capacities up to 1000 in the long histories, up to 5 in the BFS)",
         "C17: long histories also at capacities 1025, 1500, 4100 (3 x capacity puts, a Get every seventh Put)"),
 "C18": ("MoneyFlowIndexStrategy with prices and volumes of different magnitude", ["C18"],
         "caught (power-of-two price and volume factors)", ""),
 "C19": ("a Csv object that has read a source with an unreadable header row (empty input, bare quote) is used again", ["C19"],
         "missed (a fresh reader per input)",
         "C19: every CSV token string is read twice through the same Csv object; the second read must deliver the same rows"),
}


def main():
    for pid, (needs, det, first, strength) in sorted(INFO.items()):
        w = "/tmp/mut8-" + pid
        dst = "/verif/seeded/%s-8" % pid
        if not os.path.isdir(w):
            print("missing", w); continue
        os.makedirs(dst, exist_ok=True)
        shutil.copy(w + "/patch.diff", dst + "/patch.diff")
        shutil.copy(w + "/MUTATION.md", dst + "/MUTATION.md")
        st = subprocess.run(["git", "-C", w, "status", "--porcelain"], capture_output=True, text=True).stdout
        demos = [l[3:] for l in st.splitlines() if l.startswith("??") and l.endswith("_test.go")]
        for d in demos:
            os.makedirs(os.path.dirname(dst + "/demo/" + d), exist_ok=True)
            shutil.copy(w + "/" + d, dst + "/demo/" + d)
        files = [l[3:] for l in st.splitlines() if l.startswith(" M")]
        meta = {"property": pid, "round": 8, "source": SRC, "files_changed": files,
                "demo": ["demo/" + d for d in demos], "needs_to_manifest": needs,
                "confirmed_by": CONF % (pid, ",".join(x.split()[0] for x in det)),
                "detected_by": det, "first_run": first}
        if strength:
            meta["strengthening"] = strength
        json.dump(meta, open(dst + "/meta.json", "w"), indent=1)
        print("archived", dst, files, demos)


if __name__ == "__main__":
    main()
