package mc

import (
	"time"
	"unsafe"
)

// Timers. Time is not counted: a timer "may fire at any moment from its creation on", which under a scheduler that
// explores every interleaving is the same as "has fired": its channel holds the tick from the start. A select with a
// time-out case therefore always has that case ready, next to whatever else is ready (the explorers enumerate the
// choice); code whose results depend on a time limit NOT expiring is exposed. Stop takes the pending tick away.

var fakeNow = time.Date(2000, 1, 1, 0, 0, 0, 0, time.UTC)

// Timer is the shim of time.Timer.
type Timer struct {
	C    <-chan time.Time
	c    chan time.Time
	real *time.Timer
}

// Ticker is the shim of time.Ticker.
type Ticker struct {
	C    <-chan time.Time
	c    chan time.Time
	real *time.Ticker
}

func (s *Sched) loadTick(c chan time.Time, ticker bool) {
	rc := (<-chan time.Time)(c)
	cs := s.chanOf(*(*uintptr)(unsafe.Pointer(&rc)), rc, 1)
	cs.ticker = ticker
	cs.timer = true
	if len(cs.buf) == 0 {
		it := item{val: fakeNow}
		if s.opt.Clocks && s.cur != nil {
			it.vc = s.cur.clock.copyVC()
		}
		cs.buf = append(cs.buf, it)
	}
}

func (s *Sched) takeTick(c chan time.Time) bool {
	rc := (<-chan time.Time)(c)
	cs := s.chanOf(*(*uintptr)(unsafe.Pointer(&rc)), rc, 1)
	cs.ticker = false
	if len(cs.buf) > 0 {
		cs.buf = cs.buf[:0]
		return true
	}
	return false
}

// NewTimer is time.NewTimer.
func NewTimer(d time.Duration) *Timer {
	if s := S; s != nil && !s.poison {
		c := make(chan time.Time, 1)
		s.loadTick(c, false)
		return &Timer{C: c, c: c}
	}
	t := time.NewTimer(d)
	return &Timer{C: t.C, real: t}
}

// After is time.After.
func After(d time.Duration) <-chan time.Time { return NewTimer(d).C }

// Stop is time.Timer.Stop.
func (t *Timer) Stop() bool {
	if t.real != nil {
		return t.real.Stop()
	}
	if s := S; s != nil && !s.poison {
		return s.takeTick(t.c)
	}
	return false
}

// Reset is time.Timer.Reset.
func (t *Timer) Reset(d time.Duration) bool {
	if t.real != nil {
		return t.real.Reset(d)
	}
	if s := S; s != nil && !s.poison {
		active := s.takeTick(t.c)
		s.loadTick(t.c, false)
		return active
	}
	return false
}

// NewTicker is time.NewTicker.
func NewTicker(d time.Duration) *Ticker {
	if s := S; s != nil && !s.poison {
		c := make(chan time.Time, 1)
		s.loadTick(c, true)
		return &Ticker{C: c, c: c}
	}
	t := time.NewTicker(d)
	return &Ticker{C: t.C, real: t}
}

// Tick is time.Tick.
func Tick(d time.Duration) <-chan time.Time { return NewTicker(d).C }

// Stop is time.Ticker.Stop.
func (t *Ticker) Stop() {
	if t.real != nil {
		t.real.Stop()
		return
	}
	if s := S; s != nil && !s.poison {
		s.takeTick(t.c)
	}
}

// Reset is time.Ticker.Reset.
func (t *Ticker) Reset(d time.Duration) {
	if t.real != nil {
		t.real.Reset(d)
		return
	}
	if s := S; s != nil && !s.poison {
		s.loadTick(t.c, true)
	}
}
