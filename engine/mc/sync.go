package mc

import (
	"sync"
	"sync/atomic"
	"unsafe"
)

// ---------------------------------------------------------------- WaitGroup

// WaitGroup is the shim of sync.WaitGroup.
type WaitGroup struct {
	real sync.WaitGroup
}

type wgState struct {
	id      int
	n       int
	waiters []*G
	vc      VC // join of the clocks of all Done/Add(-) calls
}

func (s *Sched) wgOf(w *WaitGroup) *wgState {
	if s.wgs == nil {
		s.wgs = map[*WaitGroup]*wgState{}
	}
	st := s.wgs[w]
	if st == nil {
		st = &wgState{id: s.nobj}
		s.nobj++
		s.wgs[w] = st
	}
	return st
}

// Add is sync.WaitGroup.Add.
func (w *WaitGroup) Add(delta int) {
	s := S
	if s == nil {
		w.real.Add(delta)
		return
	}
	if s.poison {
		return
	}
	st := s.wgOf(w)
	g := s.arrive(OpWgAdd, st.id, delta)
	s.record(g, false)
	st.n += delta
	if s.opt.Clocks && delta < 0 {
		st.vc.join(g.clock)
	}
	if st.n < 0 {
		panic("sync: negative WaitGroup counter")
	}
	if st.n == 0 {
		for _, x := range st.waiters {
			s.wakeG(x, nil)
			if s.opt.Clocks {
				x.wake = st.vc.copyVC()
			}
		}
		st.waiters = nil
	}
}

// Done is sync.WaitGroup.Done.
func (w *WaitGroup) Done() { w.Add(-1) }

// Wait is sync.WaitGroup.Wait.
func (w *WaitGroup) Wait() {
	s := S
	if s == nil {
		w.real.Wait()
		return
	}
	st := s.wgOf(w)
	g := s.arrive(OpWgWait, st.id, 0)
	if st.n == 0 {
		s.record(g, false)
		if s.opt.Clocks {
			g.clock.join(st.vc)
		}
		return
	}
	st.waiters = append(st.waiters, g)
	s.block(g)
}

// Go is sync.WaitGroup.Go (Go 1.25+ API, provided for completeness).
func (w *WaitGroup) Go(f func()) {
	w.Add(1)
	Go(func() {
		defer w.Done()
		f()
	})
}

// ---------------------------------------------------------------- Mutex / RWMutex

type muState struct {
	id      int
	writer  bool
	readers int
	waiters []*G
	vc      VC
}

func (s *Sched) muOf(p unsafe.Pointer) *muState {
	if s.mus == nil {
		s.mus = map[unsafe.Pointer]*muState{}
	}
	st := s.mus[p]
	if st == nil {
		st = &muState{id: s.nobj}
		s.nobj++
		s.mus[p] = st
	}
	return st
}

// Mutex is the shim of sync.Mutex.
type Mutex struct {
	real sync.Mutex
}

// Locker is sync.Locker.
type Locker = sync.Locker

func (s *Sched) lock(p unsafe.Pointer, kind OpKind) {
	st := s.muOf(p)
	for {
		g := s.arrive(kind, st.id, 0)
		free := !st.writer && (kind == OpRLock || st.readers == 0)
		if free {
			if kind == OpRLock {
				st.readers++
			} else {
				st.writer = true
			}
			s.record(g, false)
			if s.opt.Clocks {
				g.clock.join(st.vc)
			}
			return
		}
		st.waiters = append(st.waiters, g)
		s.block(g)
		// woken by an unlock: re-attempt (models barging)
	}
}

func (s *Sched) unlock(p unsafe.Pointer, kind OpKind) {
	if s.poison {
		return
	}
	st := s.muOf(p)
	g := s.arrive(kind, st.id, 0)
	s.record(g, false)
	if kind == OpRUnlock {
		if st.readers == 0 {
			panic("sync: RUnlock of unlocked RWMutex")
		}
		st.readers--
	} else {
		if !st.writer {
			panic("sync: unlock of unlocked mutex")
		}
		st.writer = false
	}
	if s.opt.Clocks {
		st.vc.join(g.clock)
	}
	for _, x := range st.waiters {
		s.wakeG(x, g)
	}
	st.waiters = nil
}

// Lock is sync.Mutex.Lock.
func (m *Mutex) Lock() {
	if s := S; s != nil {
		s.lock(unsafe.Pointer(m), OpLock)
		return
	}
	m.real.Lock()
}

// TryLock is sync.Mutex.TryLock.
func (m *Mutex) TryLock() bool {
	if s := S; s != nil {
		st := s.muOf(unsafe.Pointer(m))
		g := s.arrive(OpLock, st.id, 1)
		s.record(g, false)
		if !st.writer && st.readers == 0 {
			st.writer = true
			if s.opt.Clocks {
				g.clock.join(st.vc)
			}
			return true
		}
		return false
	}
	return m.real.TryLock()
}

// Unlock is sync.Mutex.Unlock.
func (m *Mutex) Unlock() {
	if s := S; s != nil {
		s.unlock(unsafe.Pointer(m), OpUnlock)
		return
	}
	m.real.Unlock()
}

// RWMutex is the shim of sync.RWMutex.
type RWMutex struct {
	real sync.RWMutex
}

// Lock is sync.RWMutex.Lock.
func (m *RWMutex) Lock() {
	if s := S; s != nil {
		s.lock(unsafe.Pointer(m), OpLock)
		return
	}
	m.real.Lock()
}

// Unlock is sync.RWMutex.Unlock.
func (m *RWMutex) Unlock() {
	if s := S; s != nil {
		s.unlock(unsafe.Pointer(m), OpUnlock)
		return
	}
	m.real.Unlock()
}

// RLock is sync.RWMutex.RLock.
func (m *RWMutex) RLock() {
	if s := S; s != nil {
		s.lock(unsafe.Pointer(m), OpRLock)
		return
	}
	m.real.RLock()
}

// RUnlock is sync.RWMutex.RUnlock.
func (m *RWMutex) RUnlock() {
	if s := S; s != nil {
		s.unlock(unsafe.Pointer(m), OpRUnlock)
		return
	}
	m.real.RUnlock()
}

// RLocker is sync.RWMutex.RLocker.
func (m *RWMutex) RLocker() Locker { return (*rlocker)(m) }

type rlocker RWMutex

func (r *rlocker) Lock()   { (*RWMutex)(r).RLock() }
func (r *rlocker) Unlock() { (*RWMutex)(r).RUnlock() }

// ---------------------------------------------------------------- Once

type onceState struct {
	id      int
	done    bool
	running bool
	waiters []*G
	vc      VC
}

// Once is the shim of sync.Once. Whether the function has run is a property of the
// object and survives the execution in which it ran (an instance that is used in one
// controlled execution and again in a later one must find its Once done, as in Go);
// only the wait queue and the clocks are per execution.
type Once struct {
	real sync.Once
	done bool
}

// Do is sync.Once.Do.
func (o *Once) Do(f func()) {
	s := S
	if s == nil {
		o.real.Do(func() {
			defer func() { o.done = true }()
			f()
		})
		return
	}
	if s.onces == nil {
		s.onces = map[*Once]*onceState{}
	}
	st := s.onces[o]
	if st == nil {
		st = &onceState{id: s.nobj, done: o.done}
		s.nobj++
		s.onces[o] = st
	}
	for {
		g := s.arrive(OpOnce, st.id, 0)
		if st.done {
			s.record(g, false)
			if s.opt.Clocks {
				g.clock.join(st.vc)
			}
			return
		}
		if !st.running {
			st.running = true
			s.record(g, false)
			defer func() {
				st.done = true
				o.done = true
				o.real.Do(func() {})
				st.running = false
				if s.opt.Clocks {
					st.vc = s.cur.clock.copyVC()
				}
				for _, x := range st.waiters {
					s.wakeG(x, s.cur)
				}
				st.waiters = nil
			}()
			f()
			return
		}
		st.waiters = append(st.waiters, g)
		s.block(g)
	}
}

// ---------------------------------------------------------------- atomics

// AtomicPoint is a scheduling point plus acquire/release on the address; the
// matomic shim calls it before performing the native atomic operation.
func AtomicPoint(p unsafe.Pointer) {
	s := S
	if s == nil {
		return
	}
	if s.poison {
		return
	}
	if s.objs == nil {
		s.objs = map[uintptr]int{}
	}
	id, ok := s.objs[uintptr(p)]
	if !ok {
		id = s.nobj
		s.nobj++
		s.objs[uintptr(p)] = id
	}
	g := s.arrive(OpAtomic, id, 0)
	s.record(g, false)
	if s.opt.Clocks {
		if s.atomVC == nil {
			s.atomVC = map[int]VC{}
		}
		v := s.atomVC[id]
		g.clock.join(v)
		v.join(g.clock)
		s.atomVC[id] = v
	}
}

var _ = atomic.AddInt32

// ---------------------------------------------------------------- race detector

type access struct {
	g    int
	clk  uint32
	site int
}

// SiteNames maps static access-site ids (assigned by instr) to source positions.
var SiteNames = []string{"?"}

func siteName(i int) string {
	if i >= 0 && i < len(SiteNames) {
		return SiteNames[i]
	}
	return "?"
}

type shadowCell struct {
	w     access
	hasW  bool
	reads []access
}

// Access feeds the happens-before race detector: the running goroutine reads
// (write=false) or writes (write=true) the variable at p. Not a scheduling point.
func Access[T any](p *T, write bool) {
	s := S
	if s == nil || !s.opt.Races || s.poison || s.cur == nil || p == nil {
		return
	}
	s.access(unsafe.Pointer(p), write, 0)
}

// AccessMap is Access for a map (keyed by the map header).
func AccessMap[M ~map[K]V, K comparable, V any](m M, write bool, site int) {
	s := S
	if s == nil || !s.opt.Races || s.poison || s.cur == nil || m == nil {
		return
	}
	s.access(*(*unsafe.Pointer)(unsafe.Pointer(&m)), write, site)
}

func (s *Sched) access(p unsafe.Pointer, write bool, site int) {
	g := s.cur
	if s.shadow == nil {
		s.shadow = map[unsafe.Pointer]*shadowCell{}
	}
	c := s.shadow[p]
	if c == nil {
		c = &shadowCell{}
		s.shadow[p] = c
	}
	me := access{g: g.ID, clk: g.clock.get(g.ID) + 1, site: site}
	report := func(o access, ow bool) {
		if len(s.res.Races) >= 16 {
			return
		}
		s.res.Races = append(s.res.Races, RaceInfo{Addr: uintptr(p), Site1: siteName(o.site), Site2: siteName(me.site), G1: o.g, G2: g.ID, W1: ow, W2: write})
	}
	if c.hasW && c.w.g != g.ID && c.w.clk > g.clock.get(c.w.g) {
		report(c.w, true)
	}
	if write {
		for _, r := range c.reads {
			if r.g != g.ID && r.clk > g.clock.get(r.g) {
				report(r, false)
			}
		}
		c.w, c.hasW = me, true
		c.reads = c.reads[:0]
		return
	}
	for i := range c.reads {
		if c.reads[i].g == g.ID {
			c.reads[i].clk = me.clk
			return
		}
	}
	c.reads = append(c.reads, me)
}

// R records a read of *p by the running goroutine and returns p.
func R[T any](p *T, site int) *T {
	if s := S; s != nil && s.opt.Races && !s.poison && s.cur != nil && p != nil {
		s.access(unsafe.Pointer(p), false, site)
	}
	return p
}

// W records a write of *p by the running goroutine and returns p.
func W[T any](p *T, site int) *T {
	if s := S; s != nil && s.opt.Races && !s.poison && s.cur != nil && p != nil {
		s.access(unsafe.Pointer(p), true, site)
	}
	return p
}

// MR records a read of map m and returns m.
func MR[M ~map[K]V, K comparable, V any](m M, site int) M {
	AccessMap(m, false, site)
	return m
}

// MW records a write of map m and returns m.
func MW[M ~map[K]V, K comparable, V any](m M, site int) M {
	AccessMap(m, true, site)
	return m
}

// ---------------------------------------------------------------- Cond

// Cond is the shim of sync.Cond. Wait releases L, blocks until a Signal or
// Broadcast wakes it (no spurious wake-ups: Go's Cond has none either), and
// re-acquires L. Signal wakes the longest waiter, as the runtime's notify list does.
type Cond struct {
	L    Locker
	real *sync.Cond
}

type condState struct {
	id      int
	waiters []*G
	vc      VC
}

// NewCond is sync.NewCond.
func NewCond(l Locker) *Cond { return &Cond{L: l, real: sync.NewCond(l)} }

func (s *Sched) condOf(c *Cond) *condState {
	if s.conds == nil {
		s.conds = map[*Cond]*condState{}
	}
	st := s.conds[c]
	if st == nil {
		st = &condState{id: s.nobj}
		s.nobj++
		s.conds[c] = st
	}
	return st
}

// Wait is sync.Cond.Wait.
func (c *Cond) Wait() {
	s := S
	if s == nil {
		if c.real == nil {
			c.real = sync.NewCond(c.L)
		}
		c.real.Wait()
		return
	}
	st := s.condOf(c)
	// enqueue first, then release the lock: a Signal issued after the Unlock must find this waiter
	g := s.arrive(OpAtomic, st.id, 0)
	s.record(g, false)
	st.waiters = append(st.waiters, g)
	c.L.Unlock()
	// signalled between the enqueue and here (while releasing the lock)? then the waiter was already removed
	for _, x := range st.waiters {
		if x == g {
			s.block(g)
			break
		}
	}
	if s.opt.Clocks {
		g.clock.join(st.vc)
	}
	c.L.Lock()
}

// Signal is sync.Cond.Signal.
func (c *Cond) Signal() { c.notify(false) }

// Broadcast is sync.Cond.Broadcast.
func (c *Cond) Broadcast() { c.notify(true) }

func (c *Cond) notify(all bool) {
	s := S
	if s == nil {
		if c.real == nil {
			c.real = sync.NewCond(c.L)
		}
		if all {
			c.real.Broadcast()
		} else {
			c.real.Signal()
		}
		return
	}
	if s.poison {
		return
	}
	st := s.condOf(c)
	g := s.arrive(OpAtomic, st.id, 0)
	s.record(g, false)
	if s.opt.Clocks {
		st.vc.join(g.clock)
	}
	n := len(st.waiters)
	if !all && n > 1 {
		n = 1
	}
	for _, x := range st.waiters[:n] {
		if x.state == gBlocked {
			s.wakeG(x, g)
		}
	}
	st.waiters = append([]*G(nil), st.waiters[n:]...)
}
