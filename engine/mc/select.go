package mc

import (
	"reflect"
	"unsafe"
)

// Sel is the shim of a select statement: instr registers the cases in source
// order (channel and send expressions are evaluated once, as Go does), then
// Wait decides which case proceeds.
type Sel struct {
	hasDefault bool
	cases      []*selCase
	native     []reflect.SelectCase
	fired      bool
	chosen     int
	g          *G
}

type selCase struct {
	send bool
	cs   *chanState
	val  any
	ok   bool
	rch  any // the real channel (free mode / identity)
}

// RecvCase is the typed handle of a receive case.
type RecvCase[T any] struct {
	sel *Sel
	idx int
}

// NewSelect starts a select statement.
func NewSelect(hasDefault bool) *Sel { return &Sel{hasDefault: hasDefault, chosen: -1} }

// SelAddRecv registers `case ... <-c`.
func SelAddRecv[T any](s *Sel, c <-chan T) *RecvCase[T] {
	sc := &selCase{rch: c}
	if S != nil && c != nil {
		sc.cs = S.chanOf(*(*uintptr)(unsafe.Pointer(&c)), c, cap(c))
	}
	s.cases = append(s.cases, sc)
	s.native = append(s.native, reflect.SelectCase{Dir: reflect.SelectRecv, Chan: reflect.ValueOf(c)})
	return &RecvCase[T]{sel: s, idx: len(s.cases) - 1}
}

// SelAddSend registers `case c <- v`.
func SelAddSend[T any](s *Sel, c chan<- T, v T) {
	sc := &selCase{send: true, val: v, rch: c}
	if S != nil && c != nil {
		sc.cs = S.chanOf(*(*uintptr)(unsafe.Pointer(&c)), c, cap(c))
	}
	s.cases = append(s.cases, sc)
	s.native = append(s.native, reflect.SelectCase{Dir: reflect.SelectSend, Chan: reflect.ValueOf(c), Send: reflect.ValueOf(v)})
}

// Get returns the received value of the chosen receive case.
func (r *RecvCase[T]) Get() (T, bool) {
	var zero T
	c := r.sel.cases[r.idx]
	if !c.ok || c.val == nil {
		if c.ok {
			return zero, true
		}
		return zero, false
	}
	return c.val.(T), true
}

// ready reports whether case i can proceed right now.
func (s *Sel) ready(i int) bool {
	c := s.cases[i]
	if c.cs == nil {
		return false // nil channel: never ready
	}
	if c.send {
		return c.cs.closed || len(c.cs.recvq) > 0 || len(c.cs.buf) < c.cs.cap
	}
	return len(c.cs.buf) > 0 || len(c.cs.sendq) > 0 || c.cs.closed
}

// Wait performs the select and returns the index of the case that proceeds (-1 = default).
func (s *Sel) Wait() int {
	sc := S
	if sc == nil {
		cases := s.native
		if s.hasDefault {
			cases = append(append([]reflect.SelectCase{}, cases...), reflect.SelectCase{Dir: reflect.SelectDefault})
		}
		i, v, ok := reflect.Select(cases)
		if i == len(s.cases) {
			return -1
		}
		if !s.cases[i].send {
			s.cases[i].ok = ok
			if ok {
				s.cases[i].val = v.Interface()
			}
		}
		return i
	}
	objs := make([]int, 0, len(s.cases))
	for _, c := range s.cases {
		if c.cs != nil {
			objs = append(objs, c.cs.id)
		}
	}
	g := sc.arriveSelect(objs)
	s.g = g
	var rdy []int
	for i := range s.cases {
		if s.ready(i) {
			rdy = append(rdy, i)
		}
	}
	switch {
	case len(rdy) > 0:
		pick := rdy[0]
		if len(rdy) > 1 {
			pick = rdy[sc.chooseAlt(len(rdy))] // Go picks uniformly among the ready cases: a choice point of the exploration
		}
		s.complete(sc, g, pick)
		return pick
	case s.hasDefault:
		return -1
	}
	if len(objs) == 0 {
		g.state = gBlocked
		if sc.opt.Sites {
			g.block = "select without ready cases on nil channels: " + callerSite()
		}
		sc.record(g, true)
		sc.dispatch(g)
		panic("mc: goroutine blocked forever in select was resumed")
	}
	// block on every case
	for i, c := range s.cases {
		if c.cs == nil {
			continue
		}
		if c.send {
			w := waiter{g: g, val: c.val, sel: s, idx: i}
			if sc.opt.Clocks {
				w.vc = g.clock.copyVC()
			}
			c.cs.sendq = append(c.cs.sendq, w)
		} else {
			c.cs.recvSel = append(c.cs.recvSel, selWaiter{sel: s, idx: i})
			c.cs.recvq = append(c.cs.recvq, g)
		}
	}
	sc.block(g)
	// woken: the partner recorded which case fired
	if g.pnc {
		g.pnc = false
		panic("send on closed channel")
	}
	i := s.chosen
	if !s.cases[i].send {
		s.cases[i].val, s.cases[i].ok = g.val, g.ok
		g.val = nil
	}
	return i
}

// complete performs the ready case i immediately.
func (s *Sel) complete(sc *Sched, g *G, i int) {
	c := s.cases[i]
	cs := c.cs
	if c.send {
		if cs.closed {
			panic("send on closed channel")
		}
		if r := cs.popRecv(); r != nil {
			r.val, r.ok = c.val, true
			sc.wakeG(r, g)
			return
		}
		it := item{val: c.val}
		if sc.opt.Clocks {
			it.vc = g.clock.copyVC()
		}
		cs.nsend++
		cs.buf = append(cs.buf, it)
		return
	}
	if len(cs.buf) > 0 {
		it := cs.buf[0]
		cs.buf = cs.buf[1:]
		if sc.opt.Clocks {
			cs.slots = append(cs.slots, g.clock.copyVC())
			g.clock.join(it.vc)
		}
		if w, ok := cs.popSend(); ok {
			cs.buf = append(cs.buf, item{val: w.val, vc: w.vc})
			cs.nsend++
			sc.wakeG(w.g, g)
		} else if cs.ticker {
			cs.buf = append(cs.buf, item{val: it.val, vc: it.vc})
		}
		c.val, c.ok = it.val, true
		return
	}
	if w, ok := cs.popSend(); ok {
		sc.wakeG(w.g, g)
		if sc.opt.Clocks {
			g.clock.join(w.vc)
		}
		c.val, c.ok = w.val, true
		return
	}
	// closed
	if sc.opt.Clocks {
		g.clock.join(cs.cvc)
	}
	c.val, c.ok = nil, false
}

type selWaiter struct {
	sel *Sel
	idx int
}

// popRecv removes and returns the first receiver that can still take a value
// (a goroutine blocked in a select that already fired elsewhere is skipped).
func (cs *chanState) popRecv() *G {
	for len(cs.recvq) > 0 {
		g := cs.recvq[0]
		cs.recvq = cs.recvq[1:]
		if sel := cs.takeSel(g); sel != nil {
			if sel.sel.fired {
				continue
			}
			sel.sel.fired = true
			sel.sel.chosen = sel.idx
			sel.sel.cancel(cs)
		}
		return g
	}
	return nil
}

// takeSel returns (and removes) the select registration of g on this channel, if any.
func (cs *chanState) takeSel(g *G) *selWaiter {
	for i, w := range cs.recvSel {
		if w.sel.g == g {
			cs.recvSel = append(cs.recvSel[:i], cs.recvSel[i+1:]...)
			return &w
		}
	}
	return nil
}

// popSend removes and returns the first blocked sender that is still waiting.
func (cs *chanState) popSend() (waiter, bool) {
	for len(cs.sendq) > 0 {
		w := cs.sendq[0]
		cs.sendq = cs.sendq[1:]
		if w.sel != nil {
			if w.sel.fired {
				continue
			}
			w.sel.fired = true
			w.sel.chosen = w.idx
			w.sel.cancel(cs)
		}
		return w, true
	}
	return waiter{}, false
}

// cancel removes the other registrations of a fired select (lazily: stale entries are skipped when popped;
// here only the bookkeeping of receive registrations on other channels is dropped).
func (s *Sel) cancel(except *chanState) {
	for _, c := range s.cases {
		if c.cs == nil || c.cs == except {
			continue
		}
		if c.send {
			q := c.cs.sendq[:0]
			for _, w := range c.cs.sendq {
				if w.sel != s {
					q = append(q, w)
				}
			}
			c.cs.sendq = q
		} else {
			q := c.cs.recvq[:0]
			for _, g := range c.cs.recvq {
				if g != s.g {
					q = append(q, g)
				}
			}
			c.cs.recvq = q
			rs := c.cs.recvSel[:0]
			for _, w := range c.cs.recvSel {
				if w.sel != s {
					rs = append(rs, w)
				}
			}
			c.cs.recvSel = rs
		}
	}
}

// arriveSelect parks the goroutine with a pending select over the given objects.
func (s *Sched) arriveSelect(objs []int) *G {
	if s.poison {
		panic(poisonSentinel)
	}
	g := s.cur
	if g == nil {
		panic("mc: select from an uncontrolled goroutine during a controlled execution")
	}
	g.kind, g.obj, g.arg, g.woken = OpSelect, -3, 0, false
	g.selObjs = objs
	s.dispatch(g)
	return g
}

// chooseAlt asks the explorer to pick one of n alternatives (a data choice, e.g.
// which of several ready select cases proceeds). Recorded as a point whose
// enabled entries are the pseudo ids -1..-n.
func (s *Sched) chooseAlt(n int) int {
	c := 0
	if s.opt.AltChooser != nil {
		c = s.opt.AltChooser(s, n)
		if c < 0 || c >= n {
			s.res.Internal = "alternative chooser out of range"
			c = 0
		}
	}
	s.res.Alts = append(s.res.Alts, AltPoint{At: len(s.res.Trace), N: n, Choice: c})
	if s.opt.RecordN {
		s.res.NEnabled = append(s.res.NEnabled, int32(n))
	}
	return c
}

// Len is the shim of len(c) on a channel: an observation of the buffer that, like a
// select with a default case, conflicts with every operation on that channel.
func Len[T any](c chan T) int { return lenImpl((<-chan T)(c)) }

// LenR is Len for receive-only channels.
func LenR[T any](c <-chan T) int { return lenImpl(c) }

// LenS is Len for send-only channels.
func LenS[T any](c chan<- T) int {
	sc := S
	if sc == nil || c == nil {
		return len(c)
	}
	if sc.poison {
		return 0
	}
	cs := sc.chanOf(*(*uintptr)(unsafe.Pointer(&c)), c, cap(c))
	g := sc.arriveSelect([]int{cs.id})
	sc.record(g, false)
	return len(cs.buf)
}

func lenImpl[T any](c <-chan T) int {
	sc := S
	if sc == nil || c == nil {
		return len(c)
	}
	if sc.poison {
		return 0
	}
	cs := sc.chanOf(*(*uintptr)(unsafe.Pointer(&c)), c, cap(c))
	g := sc.arriveSelect([]int{cs.id})
	sc.record(g, false)
	return len(cs.buf)
}
