// Package mc is the controlled-scheduler runtime that the instrumented copy of
// cinar/indicator is linked against (mounted through `go build -overlay` as the
// virtual package github.com/cinar/indicator/v2/verifmc/mc).
//
// Free mode (no execution active): every shim performs the native operation.
// Controlled mode (inside Run): goroutines created through Go run one at a time;
// every channel / sync operation is an event chosen by the explorer. The shim
// implements Go's channel semantics itself (FIFO buffer, FIFO wait queues,
// closed flag); the real channel only provides identity and capacity.
package mc

import (
	"fmt"
	"os"
	"runtime"
	"strings"
	"sync"
	"sync/atomic"
	"time"
	"unsafe"
)

// OpKind identifies the kind of a scheduling event.
type OpKind uint8

// Event kinds.
const (
	OpStart OpKind = iota
	OpContinue
	OpSend
	OpRecv
	OpClose
	OpLock
	OpUnlock
	OpRLock
	OpRUnlock
	OpWgAdd
	OpWgWait
	OpOnce
	OpAtomic
	OpYield
	OpSelect
)

var opNames = [...]string{"start", "continue", "send", "recv", "close", "lock", "unlock", "rlock", "runlock", "wgadd", "wgwait", "once", "atomic", "yield", "select"}

func (k OpKind) String() string { return opNames[k] }

const (
	gRunnable = iota
	gBlocked
	gDone
)

// VC is a vector clock indexed by goroutine id.
type VC []uint32

func (v VC) copyVC() VC {
	c := make(VC, len(v))
	copy(c, v)
	return c
}

func (v *VC) join(o VC) {
	if len(o) > len(*v) {
		n := make(VC, len(o))
		copy(n, *v)
		*v = n
	}
	a := *v
	for i, x := range o {
		if x > a[i] {
			a[i] = x
		}
	}
}

func (v VC) get(i int) uint32 {
	if i < len(v) {
		return v[i]
	}
	return 0
}

// G is a controlled goroutine.
type G struct {
	ID      int
	Parent  int
	resume  chan struct{}
	state   int
	kind    OpKind // pending op kind when runnable and not woken
	obj     int    // pending op object id
	arg     int    // pending op argument (wg delta, ...)
	woken   bool   // runnable because the partner completed the blocked op
	val     any
	ok      bool
	pnc     bool // wake up with "send on closed channel"
	clock   VC
	wake    VC // clock to join when continuing after a wake-up
	block   string
	lastEv  int
	selObjs []int // objects of a pending select
}

type waiter struct {
	g   *G
	val any
	vc  VC
	sel *Sel // non-nil: registered by a blocked select
	idx int
}

type item struct {
	val any
	vc  VC
}

type chanState struct {
	id      int
	pin     any
	cap     int
	buf     []item
	closed  bool
	cvc     VC
	recvq   []*G
	recvSel []selWaiter // select registrations among recvq
	sendq   []waiter
	slots   []VC // clock of the k-th receive (k-th recv happens-before the (k+cap)-th send)
	nsend   int
	site    string
	ticker  bool // a ticker's channel: the tick is there again after every receive
	timer   bool // the channel of a timer or ticker: a tick nobody took is no leftover of the pipeline
}

// Event is one scheduling step: goroutine G executed its pending operation.
type Event struct {
	G       int
	Kind    OpKind
	Obj     int
	Arg     int
	Blocked bool
	Clock   VC    // clock of G at the event (only when tracking clocks)
	Objs    []int // OpSelect: every channel of the statement
}

// Point is a scheduling point: the enabled set (canonical order) and the choice taken.
type Point struct {
	Enabled []int
	Pend    []Pending // pending operation of every enabled goroutine (same order as Enabled)
	Choice  int
}

// Pending is the operation a runnable goroutine will execute when chosen.
type Pending struct {
	Kind OpKind
	Obj  int
	Arg  int
	Objs []int // OpSelect
}

// AltPoint is a data choice taken during event At-1 (which of N ready select cases proceeds).
type AltPoint struct {
	At     int
	N      int
	Choice int
}

// Chooser decides which of the enabled goroutines moves next. enabled is in
// canonical order (current goroutine first if still runnable, then ascending id).
type Chooser func(s *Sched, enabled []*G) int

// PanicInfo describes a panic captured in a controlled goroutine.
type PanicInfo struct {
	G     int
	Value string
	Stack string
}

// BlockedInfo describes a goroutine that is still blocked at quiescence.
type BlockedInfo struct {
	G    int
	Kind OpKind
	Obj  int
	Site string
}

// RaceInfo describes one happens-before data race.
type RaceInfo struct {
	Addr   uintptr
	Site1  string
	Site2  string
	G1, G2 int
	W1, W2 bool
}

// Options configure one execution.
type Options struct {
	Chooser      Chooser
	AltChooser   func(s *Sched, n int) int // picks among n alternatives (ready select cases); nil = first
	Record       bool                      // record events and points
	RecordN      bool                      // record only the size of the enabled set at every point (delay-bounded DFS)
	Clocks       bool                      // maintain vector clocks
	Races        bool                      // run the happens-before race detector on Access calls (implies Clocks)
	Sites        bool                      // capture source positions of blocking operations (slow)
	MaxEvents    int                       // cut the execution after this many events (0 = default 5M)
	OnPoint      func(s *Sched)
	KeepChannels bool
}

// Result is the verdict of one execution.
type Result struct {
	Events        int
	Goroutines    int
	Deadlock      bool
	Cut           bool
	Aborted       bool // the chooser abandoned the execution
	Blocked       []BlockedInfo
	Panics        []PanicInfo
	Races         []RaceInfo
	UncheckedZero []string // single-value receives that returned the zero value of a closed channel
	Trace         []Event
	Points        []Point
	NEnabled      []int32 // with RecordN: size of the enabled set per point (scheduling points and data choices, in order)
	Alts          []AltPoint
	MaxEnabled    int
	Buffered      int    // values left in channel buffers at quiescence
	Internal      string // non-empty: internal error of the machinery (never a property violation)
}

// Sched is the scheduler state of one execution.
type Sched struct {
	opt     Options
	gs      []*G
	cur     *G
	chans   map[uintptr]*chanState
	objs    map[uintptr]int
	nobj    int
	quiesce chan struct{}
	unwound chan struct{}
	poison  bool
	res     *Result
	enabled []*G
	shadow  map[unsafe.Pointer]*shadowCell
	atomVC  map[int]VC
	wgs     map[*WaitGroup]*wgState
	mus     map[unsafe.Pointer]*muState
	onces   map[*Once]*onceState
	conds   map[*Cond]*condState
	Data    any // free slot for the harness
}

// S is the active execution (nil in free mode).
var S *Sched

type poisonT struct{}

var poisonSentinel = &poisonT{}

// Watchdog: a controlled execution in which some goroutine blocks in an operation the
// scheduler does not model (an uninstrumented channel operation, a real lock, I/O that
// never completes) holds the token forever and the process would hang silently. That is
// a failure of the machinery, never a verdict about the property: after StallLimit of
// wall-clock time without a single scheduling event the process dumps all goroutines
// and exits with status 2 (no VIOLATION line, no evidence).
var (
	progress   atomic.Int64
	running    atomic.Bool
	watchOnce  sync.Once
	StallLimit = 180 * time.Second
)

func startWatchdog() {
	watchOnce.Do(func() {
		go func() {
			last, since := int64(-1), time.Now()
			for {
				time.Sleep(5 * time.Second)
				p := progress.Load()
				if !running.Load() || p != last {
					last, since = p, time.Now()
					continue
				}
				if time.Since(since) < StallLimit {
					continue
				}
				buf := make([]byte, 1<<20)
				n := runtime.Stack(buf, true)
				fmt.Fprintf(os.Stderr, "INTERNAL (machinery, not a property verdict): controlled execution made no scheduling step for %s: a goroutine is blocked outside the controlled scheduler\n%s\n", StallLimit, buf[:n])
				os.Exit(2)
			}
		}()
	})
}

// Controlled reports whether a controlled execution is active.
func Controlled() bool { return S != nil }

// Free mode: the same harness bodies run as ordinary goroutines (real channels, real locks), for the free-running pass
// under Go's race detector - the cooperative scheduler's hand-offs are happens-before edges that blind it. Free runs
// decide nothing: no schedule is controlled, "quiescence" is all goroutines started through mc.Go having returned, and a run
// that has not finished within FreeTimeout is reported as Deadlock without any claim (the goroutines are left behind).
var (
	freeMode     atomic.Bool
	freeCur      atomic.Pointer[atomic.Int64] // goroutines of the current free run that have not returned yet
	freePanics   atomic.Int64
	FreeTimeout  = 5 * time.Second
	FreeDeadline time.Time // if set: after this instant Run returns immediately with Cut set (budget of the pass)
)

// SetFree switches Run to free mode (for the whole process).
func SetFree(on bool) { freeMode.Store(on) }

// Free reports whether the process runs in free mode.
func Free() bool { return freeMode.Load() }

func freeRun(body func()) *Result {
	res := &Result{}
	if !FreeDeadline.IsZero() && time.Now().After(FreeDeadline) {
		res.Cut = true
		return res
	}
	p0 := freePanics.Load()
	live := &atomic.Int64{} // a fresh counter per run: stragglers of an abandoned run keep decrementing their own
	freeCur.Store(live)
	Go(body)
	t0 := time.Now()
	for live.Load() > 0 {
		if time.Since(t0) > FreeTimeout {
			res.Deadlock = true
			break
		}
		if time.Since(t0) < time.Millisecond {
			runtime.Gosched()
		} else {
			time.Sleep(50 * time.Microsecond)
		}
	}
	if freePanics.Load() != p0 {
		res.Panics = append(res.Panics, PanicInfo{Value: "panic in a goroutine of a free run"})
	}
	return res
}

// Run executes body as goroutine 0 under the controlled scheduler until quiescence.
func Run(body func(), opt Options) *Result {
	if freeMode.Load() {
		return freeRun(body)
	}
	if S != nil {
		panic("mc.Run: nested execution")
	}
	if opt.Races {
		opt.Clocks = true
	}
	if opt.MaxEvents == 0 {
		opt.MaxEvents = 5_000_000
	}
	s := &Sched{opt: opt, chans: map[uintptr]*chanState{}, quiesce: make(chan struct{}), unwound: make(chan struct{}), res: &Result{}}
	S = s
	startWatchdog()
	running.Store(true)
	defer func() { running.Store(false); S = nil }()
	g0 := s.newG(nil, body)
	_ = g0
	s.dispatch(nil)
	<-s.quiesce
	// verdict
	res := s.res
	res.Goroutines = len(s.gs)
	for _, cs := range s.chans {
		if !cs.timer {
			res.Buffered += len(cs.buf)
		}
	}
	for _, g := range s.gs {
		if g.state == gBlocked && !res.Aborted && !res.Cut {
			res.Deadlock = true
			res.Blocked = append(res.Blocked, BlockedInfo{G: g.ID, Kind: g.kind, Obj: g.obj, Site: g.block})
		}
	}
	// unwind everything that is still parked
	s.poison = true
	for _, g := range s.gs {
		if g.state != gDone {
			g.resume <- struct{}{}
			<-s.unwound
		}
	}
	return res
}

func (s *Sched) newG(parent *G, f func()) *G {
	g := &G{ID: len(s.gs), resume: make(chan struct{}), state: gRunnable, kind: OpStart, obj: -1}
	if parent != nil {
		g.Parent = parent.ID
		if s.opt.Clocks {
			parent.clock[parent.ID]++ // spawn is a release: later accesses of the parent are unordered with the child
			g.clock = parent.clock.copyVC()
		}
	} else {
		g.Parent = -1
	}
	if s.opt.Clocks {
		for len(g.clock) <= g.ID {
			g.clock = append(g.clock, 0)
		}
	}
	s.gs = append(s.gs, g)
	go s.gmain(g, f)
	return g
}

func (s *Sched) gmain(g *G, f func()) {
	<-g.resume
	defer func() {
		r := recover()
		if r != nil && r != any(poisonSentinel) {
			if !s.poison {
				buf := make([]byte, 8192)
				n := runtime.Stack(buf, false)
				s.res.Panics = append(s.res.Panics, PanicInfo{G: g.ID, Value: fmt.Sprint(r), Stack: trimStack(string(buf[:n]))})
			}
		}
		g.state = gDone
		if s.poison {
			s.unwound <- struct{}{}
			return
		}
		s.dispatch(g)
	}()
	if s.poison {
		return
	}
	f()
}

func trimStack(st string) string {
	lines := strings.Split(st, "\n")
	var out []string
	for _, l := range lines {
		if strings.Contains(l, "verifmc/mc") || strings.Contains(l, "runtime/") || strings.Contains(l, "runtime.") {
			continue
		}
		out = append(out, l)
		if len(out) > 16 {
			break
		}
	}
	return strings.Join(out, "\n")
}

// dispatch picks the next goroutine and hands the token to it. from is the
// goroutine giving up the token (nil for the explorer). If from is still alive
// and is not the one chosen, dispatch waits until from is resumed.
func (s *Sched) dispatch(from *G) {
	progress.Add(1)
	en := s.enabled[:0]
	// a goroutine that yields (runtime.Gosched, time.Sleep, polling loops) goes to the end of the
	// canonical order, so that waiting loops make progress under the default schedule
	yielding := from != nil && from.state == gRunnable && from.kind == OpYield && !from.woken
	if from != nil && from.state == gRunnable && !yielding {
		en = append(en, from)
	}
	if s.opt.Chooser == nil && len(en) == 1 {
		// canonical schedule: keep running the current goroutine
	} else {
		for _, g := range s.gs {
			if g.state == gRunnable && g != from {
				en = append(en, g)
				if s.opt.Chooser == nil {
					break
				}
			}
		}
		if yielding {
			en = append(en, from)
		}
	}
	s.enabled = en
	if len(en) == 0 || s.res.Events >= s.opt.MaxEvents || s.res.Internal != "" {
		if len(en) > 0 && s.res.Internal == "" {
			s.res.Cut = true
		}
		s.cur = nil
		s.quiesce <- struct{}{}
		if from != nil && from.state != gDone {
			<-from.resume
			if s.poison {
				panic(poisonSentinel)
			}
		}
		return
	}
	if len(en) > s.res.MaxEnabled {
		s.res.MaxEnabled = len(en)
	}
	c := 0
	if s.opt.Chooser != nil {
		c = s.opt.Chooser(s, en)
		if c == -1 {
			// the explorer abandons this execution (e.g. sleep-set blocked)
			s.res.Aborted = true
			s.cur = nil
			s.quiesce <- struct{}{}
			if from != nil && from.state != gDone {
				<-from.resume
				if s.poison {
					panic(poisonSentinel)
				}
			}
			return
		}
		if c < 0 || c >= len(en) {
			s.res.Internal = fmt.Sprintf("chooser returned %d of %d at event %d", c, len(en), s.res.Events)
			c = 0
		}
	}
	g := en[c]
	if s.opt.RecordN {
		s.res.NEnabled = append(s.res.NEnabled, int32(len(en)))
	}
	if s.opt.Record {
		ids := make([]int, len(en))
		pd := make([]Pending, len(en))
		for i, e := range en {
			ids[i] = e.ID
			pd[i] = e.PendingOp()
		}
		s.res.Points = append(s.res.Points, Point{Enabled: ids, Pend: pd, Choice: c})
	}
	s.res.Events++
	s.cur = g
	if s.opt.Clocks {
		g.clock[g.ID]++
	}
	if s.opt.Record {
		ev := Event{G: g.ID, Kind: g.kind, Obj: g.obj, Arg: g.arg}
		if g.woken {
			ev.Kind = OpContinue
		} else if g.kind == OpSelect {
			ev.Objs = g.selObjs
		}
		if s.opt.Clocks {
			ev.Clock = g.clock.copyVC()
		}
		g.lastEv = len(s.res.Trace)
		s.res.Trace = append(s.res.Trace, ev)
	}
	if g.woken && g.wake != nil {
		g.clock.join(g.wake)
		g.wake = nil
	}
	if s.opt.OnPoint != nil {
		s.opt.OnPoint(s)
	}
	if g == from {
		return
	}
	g.resume <- struct{}{}
	if from != nil && from.state != gDone {
		<-from.resume
		if s.poison {
			panic(poisonSentinel)
		}
	}
}

// arrive parks the current goroutine with a pending operation and returns when
// the explorer has chosen it to execute that operation.
func (s *Sched) arrive(kind OpKind, obj, arg int) *G {
	if s.poison {
		panic(poisonSentinel)
	}
	g := s.cur
	if g == nil {
		panic("mc: operation from an uncontrolled goroutine during a controlled execution")
	}
	g.kind, g.obj, g.arg, g.woken = kind, obj, arg, false
	s.dispatch(g)
	// chosen: g executes its op now
	return g
}

func (s *Sched) record(g *G, blocked bool) {
	if blocked && s.opt.Record {
		s.res.Trace[g.lastEv].Blocked = true
	}
}

// block parks g as blocked and returns when a partner has woken it and the
// explorer has chosen it again (the continue event).
func (s *Sched) block(g *G) {
	g.state = gBlocked
	if s.opt.Sites {
		g.block = callerSite()
	}
	s.record(g, true)
	s.dispatch(g)
	// woken and chosen: the continue event was recorded by dispatch
}

func (s *Sched) wakeG(g *G, from *G) {
	g.state = gRunnable
	g.woken = true
	if s.opt.Clocks && from != nil {
		g.wake = from.clock.copyVC()
	}
}

func callerSite() string {
	pcs := make([]uintptr, 24)
	n := runtime.Callers(3, pcs)
	frames := runtime.CallersFrames(pcs[:n])
	var parts []string
	for {
		f, more := frames.Next()
		if !strings.Contains(f.Function, "verifmc/") && !strings.HasPrefix(f.Function, "runtime.") {
			file := f.File
			if i := strings.LastIndex(file, "/"); i >= 0 {
				if j := strings.LastIndex(file[:i], "/"); j >= 0 {
					file = file[j+1:]
				}
			}
			parts = append(parts, fmt.Sprintf("%s:%d", file, f.Line))
			if len(parts) >= 3 {
				break
			}
		}
		if !more {
			break
		}
	}
	return strings.Join(parts, " < ")
}

func chanKey[T any](c chan T) uintptr { return *(*uintptr)(unsafe.Pointer(&c)) }

func (s *Sched) chanOf(key uintptr, pin any, capacity int) *chanState {
	cs := s.chans[key]
	if cs == nil {
		cs = &chanState{id: s.nobj, pin: pin, cap: capacity}
		s.nobj++
		s.chans[key] = cs
	}
	return cs
}

// Go starts f as a new goroutine.
func Go(f func()) {
	s := S
	if s == nil {
		if freeMode.Load() {
			live := freeCur.Load()
			live.Add(1)
			go func() {
				defer live.Add(-1)
				defer func() {
					if r := recover(); r != nil {
						freePanics.Add(1)
					}
				}()
				f()
			}()
			return
		}
		go f()
		return
	}
	if s.cur == nil {
		panic("mc.Go from an uncontrolled goroutine")
	}
	if s.poison {
		return
	}
	s.newG(s.cur, f)
}

// Send is the shim of `c <- v`.
func Send[T any](c chan<- T, v T) {
	s := S
	if s == nil {
		c <- v
		return
	}
	if c == nil {
		s.blockForever(OpSend)
		return
	}
	cs := s.chanOf(*(*uintptr)(unsafe.Pointer(&c)), c, cap(c))
	g := s.arrive(OpSend, cs.id, 0)
	if cs.closed {
		s.record(g, false)
		panic("send on closed channel")
	}
	if r := cs.popRecv(); r != nil {
		r.val, r.ok = v, true
		s.wakeG(r, g)
		s.record(g, false)
		return
	}
	if len(cs.buf) < cs.cap {
		it := item{val: v}
		if s.opt.Clocks {
			it.vc = g.clock.copyVC()
			if k := cs.nsend - cs.cap; k >= 0 && k < len(cs.slots) {
				g.clock.join(cs.slots[k])
			}
		}
		cs.nsend++
		cs.buf = append(cs.buf, it)
		s.record(g, false)
		return
	}
	w := waiter{g: g, val: v}
	if s.opt.Clocks {
		w.vc = g.clock.copyVC()
	}
	cs.sendq = append(cs.sendq, w)
	s.block(g)
	if g.pnc {
		g.pnc = false
		panic("send on closed channel")
	}
}

func (s *Sched) blockForever(kind OpKind) {
	g := s.arrive(kind, -2, 0)
	g.state = gBlocked
	if s.opt.Sites {
		g.block = "nil channel: " + callerSite()
	}
	s.record(g, true)
	s.dispatch(g)
	panic("mc: goroutine blocked on nil channel was resumed")
}

func recvImpl[T any](c <-chan T) (T, bool) {
	s := S
	var zero T
	if c == nil {
		s.blockForever(OpRecv)
		return zero, false
	}
	cs := s.chanOf(*(*uintptr)(unsafe.Pointer(&c)), c, cap(c))
	g := s.arrive(OpRecv, cs.id, 0)
	if len(cs.buf) > 0 {
		it := cs.buf[0]
		cs.buf = cs.buf[1:]
		if s.opt.Clocks {
			// recorded before joining: the receive event itself commutes with the send
			s.record(g, false)
			cs.slots = append(cs.slots, g.clock.copyVC())
			g.clock.join(it.vc)
		} else {
			s.record(g, false)
		}
		if w, ok := cs.popSend(); ok {
			cs.buf = append(cs.buf, item{val: w.val, vc: w.vc})
			cs.nsend++
			s.wakeG(w.g, g)
		} else if cs.ticker {
			cs.buf = append(cs.buf, item{val: it.val, vc: it.vc})
		}
		if it.val == nil {
			return zero, true
		}
		return it.val.(T), true
	}
	if w, ok := cs.popSend(); ok {
		s.record(g, false)
		s.wakeG(w.g, g)
		if s.opt.Clocks {
			g.clock.join(w.vc)
		}
		if w.val == nil {
			return zero, true
		}
		return w.val.(T), true
	}
	if cs.closed {
		s.record(g, false)
		if s.opt.Clocks {
			g.clock.join(cs.cvc)
		}
		return zero, false
	}
	cs.recvq = append(cs.recvq, g)
	s.block(g)
	if !g.ok {
		g.val = nil
		return zero, false
	}
	v := g.val
	g.val = nil
	if v == nil {
		return zero, true
	}
	return v.(T), true
}

// Recv is the shim of the single-value receive `<-c`.
func Recv[T any](c <-chan T) T {
	if S == nil {
		return <-c
	}
	v, ok := recvImpl(c)
	if !ok {
		s := S
		if len(s.res.UncheckedZero) < 8 {
			s.res.UncheckedZero = append(s.res.UncheckedZero, callerSite2())
		} else {
			s.res.UncheckedZero = append(s.res.UncheckedZero, "")
		}
	}
	return v
}

func callerSite2() string {
	_, file, line, _ := runtime.Caller(2)
	if i := strings.LastIndex(file, "/"); i >= 0 {
		if j := strings.LastIndex(file[:i], "/"); j >= 0 {
			file = file[j+1:]
		}
	}
	return fmt.Sprintf("%s:%d", file, line)
}

// Recv2 is the shim of `v, ok := <-c` and of range-over-channel iterations.
func Recv2[T any](c <-chan T) (T, bool) {
	if S == nil {
		v, ok := <-c
		return v, ok
	}
	return recvImpl(c)
}

// Close is the shim of close(c).
func Close[T any](c chan<- T) {
	s := S
	if s == nil {
		close(c)
		return
	}
	if s.poison {
		return
	}
	if c == nil {
		panic("close of nil channel")
	}
	cs := s.chanOf(*(*uintptr)(unsafe.Pointer(&c)), c, cap(c))
	g := s.arrive(OpClose, cs.id, 0)
	s.record(g, false)
	if cs.closed {
		panic("close of closed channel")
	}
	cs.closed = true
	if s.opt.Clocks {
		cs.cvc = g.clock.copyVC()
	}
	for {
		r := cs.popRecv()
		if r == nil {
			break
		}
		r.val, r.ok = nil, false
		s.wakeG(r, g)
	}
	for {
		w, ok := cs.popSend()
		if !ok {
			break
		}
		w.g.pnc = true
		s.wakeG(w.g, g)
	}
}

// Yield is a pure scheduling point (shim of time.Sleep and runtime.Gosched).
func Yield() {
	s := S
	if s == nil {
		runtime.Gosched()
		return
	}
	g := s.arrive(OpYield, -1, 0)
	s.record(g, false)
}

// PendingOp describes what g will do when chosen next.
func (g *G) PendingOp() Pending {
	if g.woken {
		return Pending{Kind: OpContinue, Obj: -1}
	}
	if g.kind == OpSelect {
		return Pending{Kind: OpSelect, Obj: -3, Objs: g.selObjs}
	}
	return Pending{Kind: g.kind, Obj: g.obj, Arg: g.arg}
}

// Cur returns the id of the running controlled goroutine (-1 in free mode).
func Cur() int {
	if S == nil || S.cur == nil {
		return -1
	}
	return S.cur.ID
}

// ChanStats reports, for diagnostics at quiescence, how many channels still hold
// buffered items or blocked senders.
func (s *Sched) ChanStats() (buffered, blockedSenders int) {
	for _, cs := range s.chans {
		buffered += len(cs.buf)
		blockedSenders += len(cs.sendq)
	}
	return
}

// Sleep is the shim of time.Sleep: a pure yield under the controlled scheduler.
func Sleep(d time.Duration) {
	if S == nil {
		time.Sleep(d)
		return
	}
	Yield()
}
