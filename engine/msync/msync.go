// Package msync replaces "sync" in the instrumented copy of the library.
package msync

import (
	"sync"

	"github.com/cinar/indicator/v2/verifmc/mc"
)

type (
	WaitGroup = mc.WaitGroup
	Mutex     = mc.Mutex
	RWMutex   = mc.RWMutex
	Once      = mc.Once
	Locker    = mc.Locker
	Pool      = sync.Pool
	Map       = sync.Map
)

// OnceFunc mirrors sync.OnceFunc.
func OnceFunc(f func()) func() {
	var o Once
	return func() { o.Do(f) }
}
