// Package msync replaces "sync" in the instrumented copy of the library.
package msync

import (
	"sync"
	"unsafe"

	"github.com/cinar/indicator/v2/verifmc/mc"
)

type (
	WaitGroup = mc.WaitGroup
	Mutex     = mc.Mutex
	RWMutex   = mc.RWMutex
	Once      = mc.Once
	Locker    = mc.Locker
	Cond      = mc.Cond
	Pool      = sync.Pool
)

// NewCond mirrors sync.NewCond.
func NewCond(l Locker) *Cond { return mc.NewCond(l) }

// Map is sync.Map whose every operation is a scheduling point with acquire/release
// semantics on the map (sync.Map operations synchronise like atomics).
type Map struct {
	real sync.Map
}

func (m *Map) pt() { mc.AtomicPoint(unsafe.Pointer(m)) }

func (m *Map) Load(key any) (any, bool)               { m.pt(); return m.real.Load(key) }
func (m *Map) Store(key, value any)                   { m.pt(); m.real.Store(key, value) }
func (m *Map) LoadOrStore(key, value any) (any, bool) { m.pt(); return m.real.LoadOrStore(key, value) }
func (m *Map) LoadAndDelete(key any) (any, bool)      { m.pt(); return m.real.LoadAndDelete(key) }
func (m *Map) Delete(key any)                         { m.pt(); m.real.Delete(key) }
func (m *Map) Swap(key, value any) (any, bool)        { m.pt(); return m.real.Swap(key, value) }
func (m *Map) CompareAndSwap(key, old, new any) bool {
	m.pt()
	return m.real.CompareAndSwap(key, old, new)
}
func (m *Map) CompareAndDelete(key, old any) bool { m.pt(); return m.real.CompareAndDelete(key, old) }
func (m *Map) Clear()                             { m.pt(); m.real.Clear() }
func (m *Map) Range(f func(key, value any) bool) {
	m.pt()
	m.real.Range(func(k, v any) bool { m.pt(); return f(k, v) })
}

// OnceValue mirrors sync.OnceValue.
func OnceValue[T any](f func() T) func() T {
	var o Once
	var v T
	return func() T { o.Do(func() { v = f() }); return v }
}

// OnceValues mirrors sync.OnceValues.
func OnceValues[T1, T2 any](f func() (T1, T2)) func() (T1, T2) {
	var o Once
	var v1 T1
	var v2 T2
	return func() (T1, T2) { o.Do(func() { v1, v2 = f() }); return v1, v2 }
}

// OnceFunc mirrors sync.OnceFunc.
func OnceFunc(f func()) func() {
	var o Once
	return func() { o.Do(f) }
}
