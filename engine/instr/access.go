package main

import (
	"go/ast"
	"go/token"
	"go/types"
	"strings"

	"golang.org/x/tools/go/ast/astutil"
)

// instrumentAccesses wraps reads and writes of potentially shared memory in
// verifmc.R / verifmc.W (and maps in verifmc.MR / verifmc.MW) so that the
// happens-before race detector of the mc runtime sees them. The wrapped forms
// `*verifmc.R(&x.f)` stay addressable, so a misclassified context can only record
// a spurious read, never break compilation or change behaviour.
//
// Candidates: field selections through pointers, explicit dereferences, slice
// elements, package-level variables of this module, local variables that are
// captured by a function literal and assigned after their declaration, and every
// map operation.
func (fc *fileCtx) instrumentAccesses() {
	captured := fc.capturedMutated()
	isSharedIdent := func(id *ast.Ident) bool {
		v, ok := fc.info.Uses[id].(*types.Var)
		if !ok || v.IsField() {
			return false
		}
		if v.Pkg() == nil || !strings.HasPrefix(v.Pkg().Path(), modPath) {
			return false
		}
		if v.Parent() == v.Pkg().Scope() {
			return true
		}
		return captured[v]
	}
	wrap := func(e ast.Expr, write bool) ast.Expr {
		name := "R"
		if write {
			name = "W"
		}
		return &ast.StarExpr{X: fc.mcCall(name, &ast.UnaryExpr{Op: token.AND, X: e}, fc.site(e))}
	}
	isPtr := func(e ast.Expr) bool {
		t := fc.info.TypeOf(e)
		if t == nil {
			return false
		}
		_, ok := t.Underlying().(*types.Pointer)
		return ok
	}
	under := func(e ast.Expr) types.Type {
		t := fc.info.TypeOf(e)
		if t == nil {
			return nil
		}
		return t.Underlying()
	}
	// context: 0 skip, 1 read, 2 write
	context := func(c *astutil.Cursor, n ast.Expr) int {
		switch p := c.Parent().(type) {
		case *ast.UnaryExpr:
			if p.Op == token.AND {
				return 0
			}
		case *ast.SelectorExpr:
			if p.X == n {
				sel := fc.info.Selections[p]
				if sel == nil {
					return 0 // qualified identifier
				}
				if sel.Kind() == types.FieldVal {
					if isPtr(n) {
						return 1
					}
					return 0
				}
				// method value / call
				if isPtr(n) {
					return 1
				}
				if sig, ok := sel.Obj().Type().(*types.Signature); ok && sig.Recv() != nil {
					if _, ptrRecv := sig.Recv().Type().(*types.Pointer); ptrRecv {
						return 0 // implicit address-of
					}
				}
				return 1
			}
			return 0
		case *ast.IndexExpr:
			if p.X == n {
				if _, isArr := under(n).(*types.Array); isArr {
					return 0
				}
				if _, isMap := under(n).(*types.Map); isMap {
					return 0 // handled at the index expression
				}
				return 1
			}
		case *ast.SliceExpr:
			if p.X == n {
				if _, isArr := under(n).(*types.Array); isArr {
					return 0
				}
			}
		case *ast.AssignStmt:
			for _, l := range p.Lhs {
				if l == n {
					if p.Tok == token.DEFINE {
						return 0
					}
					return 2
				}
			}
		case *ast.IncDecStmt:
			return 2
		case *ast.RangeStmt:
			if p.Key == n || p.Value == n {
				if p.Tok == token.DEFINE {
					return 0
				}
				return 2
			}
		case *ast.KeyValueExpr:
			if p.Key == n {
				// struct literal keys are field names, map literal keys are reads
				if _, ok := n.(*ast.Ident); ok {
					if v, ok := fc.info.Uses[n.(*ast.Ident)].(*types.Var); ok && v.IsField() {
						return 0
					}
				}
			}
		case *ast.TypeSwitchStmt, *ast.Field, *ast.LabeledStmt, *ast.BranchStmt, *ast.ValueSpec:
			if vs, ok := p.(*ast.ValueSpec); ok {
				for _, v := range vs.Values {
					if v == n {
						return 1
					}
				}
			}
			return 0
		}
		return 1
	}
	astutil.Apply(fc.file, nil, func(c *astutil.Cursor) bool {
		n, ok := c.Node().(ast.Expr)
		if !ok {
			return true
		}
		tv, has := fc.info.Types[n]
		switch e := n.(type) {
		case *ast.Ident:
			if !isSharedIdent(e) {
				return true
			}
			if ctx := context(c, e); ctx != 0 {
				c.Replace(wrap(e, ctx == 2))
			}
		case *ast.SelectorExpr:
			sel := fc.info.Selections[e]
			if sel == nil {
				// pkg.Var of this module
				if isSharedIdent(e.Sel) {
					if ctx := context(c, e); ctx != 0 {
						c.Replace(wrap(e, ctx == 2))
					}
				}
				return true
			}
			if sel.Kind() != types.FieldVal || !has || !tv.Addressable() {
				return true
			}
			if !sel.Indirect() && !fc.sharedRooted(e.X, isSharedIdent) {
				return true
			}
			if ctx := context(c, e); ctx != 0 {
				c.Replace(wrap(e, ctx == 2))
			}
		case *ast.StarExpr:
			if !has || tv.IsType() || !tv.Addressable() {
				return true
			}
			if ctx := context(c, e); ctx != 0 {
				name := "R"
				if ctx == 2 {
					name = "W"
				}
				e.X = fc.mcCall(name, e.X, fc.site(e))
			}
		case *ast.IndexExpr:
			if !has || tv.IsType() {
				return true
			}
			bt := fc.info.TypeOf(origOf(e.X))
			if bt == nil {
				return true
			}
			switch bt.Underlying().(type) {
			case *types.Map:
				ctx := context(c, e)
				name := "MR"
				if ctx == 2 {
					name = "MW"
				}
				e.X = fc.mcCall(name, e.X, fc.site(e))
			case *types.Slice:
				if !tv.Addressable() {
					return true
				}
				if ctx := context(c, e); ctx != 0 {
					c.Replace(wrap(e, ctx == 2))
				}
			}
		case *ast.CallExpr:
			// delete(m, k) writes the map; range over a map is handled below
			if fc.isBuiltin(e.Fun, "delete") && len(e.Args) == 2 {
				e.Args[0] = fc.mcCall("MW", e.Args[0], fc.site(e))
			}
		}
		return true
	})
	// range over maps: read of the map
	ast.Inspect(fc.file, func(n ast.Node) bool {
		if r, ok := n.(*ast.RangeStmt); ok {
			if t := fc.info.TypeOf(origOf(r.X)); t != nil {
				if _, isMap := t.Underlying().(*types.Map); isMap {
					r.X = fc.mcCall("MR", r.X, fc.site(r))
				}
			}
		}
		return true
	})
}

// origOf strips the wrappers this pass adds so that type lookups hit the original node.
func origOf(e ast.Expr) ast.Expr {
	for {
		switch x := e.(type) {
		case *ast.StarExpr:
			if call, ok := x.X.(*ast.CallExpr); ok && isMcCall(call) && len(call.Args) == 2 {
				if u, ok := call.Args[0].(*ast.UnaryExpr); ok && u.Op == token.AND {
					e = u.X
					continue
				}
			}
			return e
		case *ast.CallExpr:
			if isMcCall(x) && len(x.Args) == 2 {
				e = x.Args[0]
				continue
			}
			return e
		default:
			return e
		}
	}
}

func isMcCall(c *ast.CallExpr) bool {
	s, ok := c.Fun.(*ast.SelectorExpr)
	if !ok {
		return false
	}
	id, ok := s.X.(*ast.Ident)
	return ok && id.Name == "verifmc"
}

// sharedRooted reports whether the addressable expression e (a chain of value
// field selections / array indexings) is rooted in a shared identifier.
func (fc *fileCtx) sharedRooted(e ast.Expr, isShared func(*ast.Ident) bool) bool {
	for {
		switch x := origOf(e).(type) {
		case *ast.Ident:
			return isShared(x)
		case *ast.ParenExpr:
			e = x.X
		case *ast.SelectorExpr:
			sel := fc.info.Selections[x]
			if sel == nil {
				return isShared(x.Sel)
			}
			if sel.Indirect() {
				return true
			}
			e = x.X
		case *ast.IndexExpr:
			t := fc.info.TypeOf(origOf(x.X))
			if t == nil {
				return false
			}
			if _, isArr := t.Underlying().(*types.Array); isArr {
				e = x.X
				continue
			}
			return true
		case *ast.StarExpr:
			return true
		default:
			return false
		}
	}
}

// capturedMutated returns the local variables that are used inside a function
// literal other than the function declaring them and that are assigned (or have
// their address taken) somewhere after their declaration.
func (fc *fileCtx) capturedMutated() map[*types.Var]bool {
	type fn struct{ pos, end token.Pos }
	var stack []fn
	capt := map[*types.Var]bool{}
	mut := map[*types.Var]bool{}
	varOf := func(e ast.Expr) *types.Var {
		for {
			switch x := e.(type) {
			case *ast.ParenExpr:
				e = x.X
				continue
			case *ast.Ident:
				if v, ok := fc.info.Uses[x].(*types.Var); ok && !v.IsField() {
					return v
				}
			case *ast.SelectorExpr: // v.f = ... on a struct value mutates v
				if sel := fc.info.Selections[x]; sel != nil && sel.Kind() == types.FieldVal && !sel.Indirect() {
					e = x.X
					continue
				}
			case *ast.IndexExpr: // arr[i] = ... on an array value mutates arr
				if t := fc.info.TypeOf(x.X); t != nil {
					if _, ok := t.Underlying().(*types.Array); ok {
						e = x.X
						continue
					}
				}
			}
			return nil
		}
	}
	var visit func(n ast.Node) bool
	visit = func(n ast.Node) bool {
		switch x := n.(type) {
		case *ast.FuncDecl:
			if x.Body != nil {
				stack = append(stack, fn{x.Pos(), x.End()})
				ast.Inspect(x.Body, visit)
				stack = stack[:len(stack)-1]
			}
			return false
		case *ast.FuncLit:
			stack = append(stack, fn{x.Pos(), x.End()})
			ast.Inspect(x.Body, visit)
			stack = stack[:len(stack)-1]
			return false
		case *ast.AssignStmt:
			if x.Tok != token.DEFINE {
				for _, l := range x.Lhs {
					if v := varOf(l); v != nil {
						mut[v] = true
					}
				}
			} else {
				// a := redeclares some and assigns others
				for _, l := range x.Lhs {
					if id, ok := l.(*ast.Ident); ok && fc.info.Defs[id] == nil {
						if v, ok := fc.info.Uses[id].(*types.Var); ok {
							mut[v] = true
						}
					}
				}
			}
		case *ast.IncDecStmt:
			if v := varOf(x.X); v != nil {
				mut[v] = true
			}
		case *ast.RangeStmt:
			if x.Tok == token.ASSIGN {
				for _, e := range []ast.Expr{x.Key, x.Value} {
					if e != nil {
						if v := varOf(e); v != nil {
							mut[v] = true
						}
					}
				}
			}
		case *ast.UnaryExpr:
			if x.Op == token.AND {
				if v := varOf(x.X); v != nil {
					mut[v] = true
				}
			}
		case *ast.Ident:
			if v, ok := fc.info.Uses[x].(*types.Var); ok && !v.IsField() && len(stack) > 0 {
				top := stack[len(stack)-1]
				if v.Pos() < top.pos || v.Pos() >= top.end {
					if v.Pkg() != nil && v.Parent() != v.Pkg().Scope() {
						capt[v] = true
					}
				}
			}
		}
		return true
	}
	for _, d := range fc.file.Decls {
		ast.Inspect(d, visit)
	}
	res := map[*types.Var]bool{}
	for v := range capt {
		if mut[v] {
			res[v] = true
		}
	}
	return res
}
