// Command instr writes an instrumented copy of every non-test Go file of the
// module in -repo and a `go build -overlay` JSON that maps the originals to the
// copies and mounts the mc runtime as virtual packages inside the module.
//
// All rewrites are type-directed (go/types via go/packages).
package main

import (
	"bytes"
	"encoding/json"
	"flag"
	"fmt"
	"go/ast"
	"go/format"
	"go/token"
	"go/types"
	"os"
	"os/exec"
	"path/filepath"
	"runtime"
	"sort"
	"strconv"
	"strings"

	"golang.org/x/tools/go/ast/astutil"
	"golang.org/x/tools/go/packages"
)

const modPath = "github.com/cinar/indicator/v2"

var (
	repo    = flag.String("repo", "/repo", "repository root")
	out     = flag.String("out", "", "output directory for instrumented files")
	engine  = flag.String("engine", "/verif/engine", "directory holding mc, msync, matomic")
	overlay = flag.String("overlay", "", "overlay JSON to write")
	extra   = flag.String("extra", "", "directory with extra files to add to packages: <dir>/<pkgrel>/<file>.go")
	access  = flag.Bool("access", true, "instrument shared-memory accesses for the race detector")
)

type fileCtx struct {
	fset    *token.FileSet
	info    *types.Info
	pkg     *types.Package
	file    *ast.File
	needMC  bool
	needTm  bool
	counter int
	unsup   []string
	stats   map[string]int
}

func main() {
	flag.Parse()
	if *out == "" || *overlay == "" {
		fmt.Fprintln(os.Stderr, "usage: instr -repo R -out DIR -overlay FILE")
		os.Exit(2)
	}
	cfg := &packages.Config{
		Mode: packages.NeedName | packages.NeedFiles | packages.NeedSyntax | packages.NeedTypes | packages.NeedTypesInfo | packages.NeedImports | packages.NeedDeps | packages.NeedCompiledGoFiles,
		Dir:  *repo,
		Env:  append(os.Environ(), "GOFLAGS=-mod=mod", "GOPROXY=off", "GOSUMDB=off", "GOTOOLCHAIN=local"),
	}
	pkgs, err := packages.Load(cfg, "./...")
	if err != nil {
		fmt.Fprintln(os.Stderr, "instr: load:", err)
		os.Exit(2)
	}
	bad := false
	for _, p := range pkgs {
		for _, e := range p.Errors {
			fmt.Fprintln(os.Stderr, "instr: package error:", e)
			bad = true
		}
	}
	if bad {
		os.Exit(2)
	}
	replace := map[string]string{}
	total := map[string]int{}
	var unsupported []string
	catalogue := map[string][]string{}
	sort.Slice(pkgs, func(i, j int) bool { return pkgs[i].PkgPath < pkgs[j].PkgPath })
	for _, p := range pkgs {
		if strings.Contains(p.PkgPath, "/verifmc") {
			continue
		}
		for i, f := range p.Syntax {
			name := p.CompiledGoFiles[i]
			if strings.HasSuffix(name, "_test.go") {
				continue
			}
			fc := &fileCtx{fset: p.Fset, info: p.TypesInfo, pkg: p.Types, file: f, stats: total}
			fc.rewrite()
			unsupported = append(unsupported, fc.unsup...)
			var buf bytes.Buffer
			if err := format.Node(&buf, p.Fset, f); err != nil {
				fmt.Fprintln(os.Stderr, "instr: format", name, err)
				os.Exit(2)
			}
			rel, _ := filepath.Rel(*repo, name)
			dst := filepath.Join(*out, rel)
			os.MkdirAll(filepath.Dir(dst), 0o755)
			if err := os.WriteFile(dst, buf.Bytes(), 0o644); err != nil {
				fmt.Fprintln(os.Stderr, err)
				os.Exit(2)
			}
			replace[name] = dst
		}
		// catalogue: types with a Compute / Report method, exported funcs
		scope := p.Types.Scope()
		for _, n := range scope.Names() {
			obj := scope.Lookup(n)
			if tn, ok := obj.(*types.TypeName); ok && tn.Exported() {
				if named, ok := tn.Type().(*types.Named); ok {
					for i := 0; i < named.NumMethods(); i++ {
						m := named.Method(i)
						if m.Name() == "Compute" || m.Name() == "Report" {
							catalogue[p.PkgPath+"."+m.Name()] = append(catalogue[p.PkgPath+"."+m.Name()], n)
						}
					}
				}
			}
			if fn, ok := obj.(*types.Func); ok && fn.Exported() && strings.HasSuffix(p.PkgPath, "/helper") {
				catalogue[p.PkgPath+".func"] = append(catalogue[p.PkgPath+".func"], n)
			}
		}
	}
	// virtual packages
	for _, v := range []string{"mc", "msync", "matomic"} {
		files, _ := filepath.Glob(filepath.Join(*engine, v, "*.go"))
		for _, f := range files {
			replace[filepath.Join(*repo, "verifmc", v, filepath.Base(f))] = f
		}
	}
	// static access-site table for the race detector
	{
		var sb strings.Builder
		sb.WriteString("package mc\n\nfunc init() {\n\tSiteNames = []string{\n")
		for _, n := range siteNames {
			sb.WriteString("\t\t" + strconv.Quote(n) + ",\n")
		}
		sb.WriteString("\t}\n}\n")
		gen := filepath.Join(*out, "sites_gen.go")
		if err := os.WriteFile(gen, []byte(sb.String()), 0o644); err != nil {
			fmt.Fprintln(os.Stderr, err)
			os.Exit(2)
		}
		replace[filepath.Join(*repo, "verifmc", "mc", "sites_gen.go")] = gen
	}
	// text/template ranges over channels with reflect's native receive, which the controlled scheduler cannot
	// see; overlay the standard library file with a copy whose receive goes through a hook set by the harness
	{
		groot := runtime.GOROOT()
		if out, err := exec.Command("go", "env", "GOROOT").Output(); err == nil && strings.TrimSpace(string(out)) != "" {
			groot = strings.TrimSpace(string(out))
		}
		src := filepath.Join(groot, "src", "text", "template", "exec.go")
		b, err := os.ReadFile(src)
		if err == nil && bytes.Count(b, []byte("elem, ok := val.Recv()")) == 1 {
			b = bytes.Replace(b, []byte("elem, ok := val.Recv()"), []byte("elem, ok := VerifRecv(val)"), 1)
			b = append(b, []byte("\n// VerifRecvHook, when set, replaces the native channel receive of range actions.\nvar VerifRecvHook func(reflect.Value) (reflect.Value, bool)\n\n// VerifRecv receives from a channel value.\nfunc VerifRecv(v reflect.Value) (reflect.Value, bool) {\n\tif VerifRecvHook != nil {\n\t\treturn VerifRecvHook(v)\n\t}\n\treturn v.Recv()\n}\n")...)
			gen := filepath.Join(*out, "std_text_template_exec.go")
			if err := os.WriteFile(gen, b, 0o644); err == nil {
				replace[src] = gen
			}
		} else {
			fmt.Fprintln(os.Stderr, "instr: warning: text/template channel receive not found; template ranges over channels stay native")
		}
	}
	// extra observer files
	if *extra != "" {
		filepath.Walk(*extra, func(path string, fi os.FileInfo, err error) error {
			if err == nil && !fi.IsDir() && strings.HasSuffix(path, ".go") {
				rel, _ := filepath.Rel(*extra, path)
				replace[filepath.Join(*repo, rel)] = path
			}
			return nil
		})
	}
	js, _ := json.MarshalIndent(map[string]any{"Replace": replace}, "", " ")
	if err := os.WriteFile(*overlay, js, 0o644); err != nil {
		fmt.Fprintln(os.Stderr, err)
		os.Exit(2)
	}
	meta, _ := json.MarshalIndent(map[string]any{"rewrites": total, "unsupported": unsupported, "catalogue": catalogue}, "", " ")
	os.WriteFile(filepath.Join(*out, "instr-meta.json"), meta, 0o644)
	if len(unsupported) > 0 {
		fmt.Fprintln(os.Stderr, "instr: unsupported constructs:", unsupported)
		os.Exit(3)
	}
}

var siteNames = []string{"?"}

// site allocates a static site id for the source position of n.
func (fc *fileCtx) site(n ast.Node) ast.Expr {
	p := fc.fset.Position(n.Pos())
	rel, err := filepath.Rel(*repo, p.Filename)
	if err != nil {
		rel = p.Filename
	}
	siteNames = append(siteNames, fmt.Sprintf("%s:%d", rel, p.Line))
	return &ast.BasicLit{Kind: token.INT, Value: strconv.Itoa(len(siteNames) - 1)}
}

func (fc *fileCtx) tmp(prefix string) *ast.Ident {
	fc.counter++
	return ast.NewIdent(fmt.Sprintf("_mc%s%d", prefix, fc.counter))
}

func (fc *fileCtx) mcCall(name string, args ...ast.Expr) *ast.CallExpr {
	fc.needMC = true
	fc.stats[name]++
	return &ast.CallExpr{Fun: &ast.SelectorExpr{X: ast.NewIdent("verifmc"), Sel: ast.NewIdent(name)}, Args: args}
}

// isChan reports whether e (possibly already wrapped by the access pass, whose new
// nodes carry no type information) is a channel. An expression whose type cannot be
// determined, or a type parameter whose core type is a channel, is a hard error: a
// channel operation left in place would block outside the controlled scheduler.
func (fc *fileCtx) isChan(e ast.Expr) bool {
	o := origOf(ast.Unparen(e))
	t := fc.info.TypeOf(o)
	if t == nil {
		fatalf("%s: cannot determine the type of the range expression (unsupported construct)", fc.pos(e))
	}
	switch u := t.Underlying().(type) {
	case *types.Chan:
		return true
	case *types.Interface:
		if tp, ok := t.(*types.TypeParam); ok {
			_ = tp
			if _, isCh := coreType(u).(*types.Chan); isCh {
				fatalf("%s: range over a type parameter with channel core type (unsupported construct)", fc.pos(e))
			}
		}
	}
	return false
}

// chanDir returns 0 / 1 / 2 for a bidirectional / send-only / receive-only channel expression, -1 otherwise.
func (fc *fileCtx) chanDir(e ast.Expr) int {
	t := fc.info.TypeOf(origOf(ast.Unparen(e)))
	if t == nil {
		return -1
	}
	if ch, ok := t.Underlying().(*types.Chan); ok {
		switch ch.Dir() {
		case types.SendOnly:
			return 1
		case types.RecvOnly:
			return 2
		}
		return 0
	}
	return -1
}

// coreType returns the single underlying type shared by all terms of a constraint interface, or nil.
func coreType(i *types.Interface) types.Type {
	var core types.Type
	for k := 0; k < i.NumEmbeddeds(); k++ {
		switch e := i.EmbeddedType(k).(type) {
		case *types.Union:
			for j := 0; j < e.Len(); j++ {
				u := e.Term(j).Type().Underlying()
				if core != nil && !types.Identical(core, u) {
					return nil
				}
				core = u
			}
		default:
			u := e.Underlying()
			if _, isI := u.(*types.Interface); isI {
				continue
			}
			if core != nil && !types.Identical(core, u) {
				return nil
			}
			core = u
		}
	}
	return core
}

func (fc *fileCtx) isBuiltin(e ast.Expr, name string) bool {
	id, ok := e.(*ast.Ident)
	if !ok || id.Name != name {
		return false
	}
	_, isB := fc.info.Uses[id].(*types.Builtin)
	return isB
}

func (fc *fileCtx) pos(n ast.Node) string {
	p := fc.fset.Position(n.Pos())
	return fmt.Sprintf("%s:%d", filepath.Base(p.Filename), p.Line)
}

func (fc *fileCtx) rewrite() {
	f := fc.file
	// imports
	for _, im := range f.Imports {
		path, _ := strconv.Unquote(im.Path.Value)
		switch path {
		case "sync":
			im.Path.Value = strconv.Quote(modPath + "/verifmc/msync")
			if im.Name == nil {
				im.Name = ast.NewIdent("sync")
			}
			fc.stats["import sync"]++
		case "sync/atomic":
			im.Path.Value = strconv.Quote(modPath + "/verifmc/matomic")
			if im.Name == nil {
				im.Name = ast.NewIdent("atomic")
			}
			fc.stats["import atomic"]++
		}
	}
	if *access {
		fc.instrumentAccesses()
	}
	astutil.Apply(f, nil, func(c *astutil.Cursor) bool {
		switch n := c.Node().(type) {
		case *ast.SelectStmt:
			if _, labelled := c.Parent().(*ast.LabeledStmt); labelled {
				fc.unsup = append(fc.unsup, "labelled select at "+fc.pos(n))
			} else {
				c.Replace(fc.rewriteSelect(n))
			}
		case *ast.SendStmt:
			c.Replace(&ast.ExprStmt{X: fc.mcCall("Send", n.Chan, n.Value)})
		case *ast.UnaryExpr:
			if n.Op == token.ARROW {
				// two-value forms are handled at the assignment; here single value
				if fc.twoValue(c) {
					c.Replace(fc.mcCall("Recv2", n.X))
				} else {
					c.Replace(fc.mcCall("Recv", n.X))
				}
			}
		case *ast.CallExpr:
			if fc.isBuiltin(n.Fun, "close") && len(n.Args) == 1 {
				c.Replace(fc.mcCall("Close", n.Args[0]))
			} else if fc.isBuiltin(n.Fun, "len") && len(n.Args) == 1 && fc.chanDir(n.Args[0]) >= 0 {
				// the real channel never carries the values (the model does): len must ask the model
				fc.stats["len"]++
				c.Replace(fc.mcCall([]string{"Len", "LenS", "LenR"}[fc.chanDir(n.Args[0])], n.Args[0]))
			} else if sel, ok := n.Fun.(*ast.SelectorExpr); ok {
				if id, ok := sel.X.(*ast.Ident); ok {
					if pn, ok := fc.info.Uses[id].(*types.PkgName); ok {
						switch {
						case pn.Imported().Path() == "time" && sel.Sel.Name == "Sleep":
							fc.needTm = true
							c.Replace(fc.mcCall("Sleep", n.Args...))
						case pn.Imported().Path() == "time" && (sel.Sel.Name == "NewTimer" || sel.Sel.Name == "After" || sel.Sel.Name == "Tick" || sel.Sel.Name == "NewTicker"):
							// timers fire "at any moment" under the controlled scheduler (engine/mc/timer.go)
							fc.needTm = true
							fc.stats["timer"]++
							c.Replace(fc.mcCall(sel.Sel.Name, n.Args...))
						case pn.Imported().Path() == "time" && sel.Sel.Name == "AfterFunc":
							fc.unsup = append(fc.unsup, "time.AfterFunc at "+fc.pos(n))
						case pn.Imported().Path() == "runtime" && sel.Sel.Name == "Gosched":
							c.Replace(fc.mcCall("Yield"))
						}
					}
				}
			}
		case *ast.SelectorExpr:
			// the types time.Timer / time.Ticker (declarations, fields, parameters) become the shim types
			if id, ok := n.X.(*ast.Ident); ok && (n.Sel.Name == "Timer" || n.Sel.Name == "Ticker") {
				if pn, ok := fc.info.Uses[id].(*types.PkgName); ok && pn.Imported().Path() == "time" {
					fc.needTm, fc.needMC = true, true
					c.Replace(&ast.SelectorExpr{X: ast.NewIdent("verifmc"), Sel: ast.NewIdent(n.Sel.Name)})
				}
			}
		case *ast.GoStmt:
			c.Replace(fc.rewriteGo(n))
		case *ast.RangeStmt:
			if fc.isChan(n.X) {
				c.Replace(fc.rewriteRange(n))
			}
		}
		return true
	})
	if fc.needMC {
		astutil.AddNamedImport(fc.fset, f, "verifmc", modPath+"/verifmc/mc")
	}
	if fc.needTm {
		f.Decls = append(f.Decls, &ast.GenDecl{Tok: token.VAR, Specs: []ast.Spec{&ast.ValueSpec{Names: []*ast.Ident{ast.NewIdent("_")}, Type: &ast.SelectorExpr{X: ast.NewIdent("time"), Sel: ast.NewIdent("Duration")}}}})
	}
}

// twoValue reports whether the receive expression under the cursor is the sole
// right-hand side of a two-value assignment or declaration.
func (fc *fileCtx) twoValue(c *astutil.Cursor) bool {
	switch p := c.Parent().(type) {
	case *ast.AssignStmt:
		return len(p.Lhs) == 2 && len(p.Rhs) == 1 && p.Rhs[0] == c.Node()
	case *ast.ValueSpec:
		return len(p.Names) == 2 && len(p.Values) == 1 && p.Values[0] == c.Node()
	}
	return false
}

func (fc *fileCtx) rewriteGo(n *ast.GoStmt) ast.Stmt {
	call := n.Call
	var lhs, rhs []ast.Expr
	fun := call.Fun
	switch f := ast.Unparen(call.Fun).(type) {
	case *ast.FuncLit:
		if len(call.Args) == 0 {
			return &ast.ExprStmt{X: fc.mcCall("Go", f)}
		}
		t := fc.tmp("f")
		lhs, rhs = append(lhs, t), append(rhs, f)
		fun = t
	case *ast.SelectorExpr:
		if sel := fc.info.Selections[f]; sel != nil && sel.Kind() == types.MethodVal {
			t := fc.tmp("f")
			lhs, rhs = append(lhs, t), append(rhs, f)
			fun = t
		}
	case *ast.Ident, *ast.IndexExpr, *ast.IndexListExpr:
		// package-level (possibly generic) function: constant, no hoisting. A
		// function-typed variable is hoisted.
		if id, ok := f.(*ast.Ident); ok {
			if _, isVar := fc.info.Uses[id].(*types.Var); isVar {
				t := fc.tmp("f")
				lhs, rhs = append(lhs, t), append(rhs, f)
				fun = t
			}
		}
	default:
		t := fc.tmp("f")
		lhs, rhs = append(lhs, t), append(rhs, call.Fun)
		fun = t
	}
	args := make([]ast.Expr, len(call.Args))
	for i, a := range call.Args {
		tv := fc.info.Types[a]
		if tv.Value != nil || tv.IsNil() || tv.IsType() {
			args[i] = a
			continue
		}
		if b, ok := tv.Type.(*types.Basic); ok && b.Info()&types.IsUntyped != 0 {
			args[i] = a
			continue
		}
		t := fc.tmp("a")
		lhs, rhs = append(lhs, t), append(rhs, a)
		args[i] = t
	}
	inner := &ast.CallExpr{Fun: fun, Args: args, Ellipsis: call.Ellipsis}
	lit := &ast.FuncLit{Type: &ast.FuncType{Params: &ast.FieldList{}}, Body: &ast.BlockStmt{List: []ast.Stmt{&ast.ExprStmt{X: inner}}}}
	goCall := &ast.ExprStmt{X: fc.mcCall("Go", lit)}
	if len(lhs) == 0 {
		return goCall
	}
	return &ast.BlockStmt{List: []ast.Stmt{&ast.AssignStmt{Lhs: lhs, Tok: token.DEFINE, Rhs: rhs}, goCall}}
}

func (fc *fileCtx) rewriteRange(n *ast.RangeStmt) ast.Stmt {
	fc.stats["range"]++
	ch := fc.tmp("c")
	okv := fc.tmp("ok")
	var pre []ast.Stmt
	recv := fc.mcCall("Recv2", ch)
	isBlank := func(e ast.Expr) bool {
		id, ok := e.(*ast.Ident)
		return e == nil || (ok && id.Name == "_")
	}
	brk := &ast.IfStmt{Cond: &ast.UnaryExpr{Op: token.NOT, X: okv}, Body: &ast.BlockStmt{List: []ast.Stmt{&ast.BranchStmt{Tok: token.BREAK}}}}
	switch {
	case isBlank(n.Key):
		pre = []ast.Stmt{&ast.AssignStmt{Lhs: []ast.Expr{ast.NewIdent("_"), okv}, Tok: token.DEFINE, Rhs: []ast.Expr{recv}}, brk}
	case n.Tok == token.DEFINE:
		pre = []ast.Stmt{&ast.AssignStmt{Lhs: []ast.Expr{n.Key, okv}, Tok: token.DEFINE, Rhs: []ast.Expr{recv}}, brk}
	default:
		v := fc.tmp("v")
		pre = []ast.Stmt{
			&ast.AssignStmt{Lhs: []ast.Expr{v, okv}, Tok: token.DEFINE, Rhs: []ast.Expr{recv}}, brk,
			&ast.AssignStmt{Lhs: []ast.Expr{n.Key}, Tok: token.ASSIGN, Rhs: []ast.Expr{v}},
		}
	}
	body := &ast.BlockStmt{List: append(pre, n.Body.List...)}
	return &ast.ForStmt{
		Init: &ast.AssignStmt{Lhs: []ast.Expr{ch}, Tok: token.DEFINE, Rhs: []ast.Expr{n.X}},
		Body: body,
	}
}

// rewriteSelect turns a select statement into the registration of its cases with
// the mc runtime followed by a switch on the case that proceeds. Children have
// already been rewritten (post-order), so communication clauses arrive as calls
// of verifmc.Send / Recv / Recv2.
func (fc *fileCtx) rewriteSelect(n *ast.SelectStmt) ast.Stmt {
	fc.stats["select"]++
	sel := fc.tmp("sel")
	hasDefault := false
	for _, cl := range n.Body.List {
		if cl.(*ast.CommClause).Comm == nil {
			hasDefault = true
		}
	}
	dflt := "false"
	if hasDefault {
		dflt = "true"
	}
	stmts := []ast.Stmt{&ast.AssignStmt{Lhs: []ast.Expr{sel}, Tok: token.DEFINE, Rhs: []ast.Expr{fc.mcCall("NewSelect", ast.NewIdent(dflt))}}}
	sw := &ast.SwitchStmt{Tag: &ast.CallExpr{Fun: &ast.SelectorExpr{X: sel, Sel: ast.NewIdent("Wait")}}, Body: &ast.BlockStmt{}}
	idx := 0
	// mcArgs extracts the arguments of a verifmc.<name>(...) call
	mcArgs := func(e ast.Expr, names ...string) ([]ast.Expr, bool) {
		call, ok := e.(*ast.CallExpr)
		if !ok || !isMcCall(call) {
			return nil, false
		}
		fn := call.Fun.(*ast.SelectorExpr).Sel.Name
		for _, nm := range names {
			if fn == nm {
				return call.Args, true
			}
		}
		return nil, false
	}
	for _, cl := range n.Body.List {
		cc := cl.(*ast.CommClause)
		if cc.Comm == nil {
			sw.Body.List = append(sw.Body.List, &ast.CaseClause{List: nil, Body: cc.Body})
			continue
		}
		lit := &ast.BasicLit{Kind: token.INT, Value: strconv.Itoa(idx)}
		idx++
		var body []ast.Stmt
		switch st := cc.Comm.(type) {
		case *ast.ExprStmt:
			if args, ok := mcArgs(st.X, "Send"); ok { // case c <- v
				stmts = append(stmts, &ast.ExprStmt{X: fc.mcCall("SelAddSend", sel, args[0], args[1])})
			} else if args, ok := mcArgs(st.X, "Recv", "Recv2"); ok { // case <-c
				stmts = append(stmts, &ast.AssignStmt{Lhs: []ast.Expr{ast.NewIdent("_")}, Tok: token.ASSIGN, Rhs: []ast.Expr{fc.mcCall("SelAddRecv", sel, args[0])}})
			} else {
				fc.unsup = append(fc.unsup, "select clause at "+fc.pos(cc))
			}
		case *ast.AssignStmt: // case v := <-c, case v, ok = <-c
			args, ok := mcArgs(st.Rhs[0], "Recv", "Recv2")
			if !ok {
				fc.unsup = append(fc.unsup, "select clause at "+fc.pos(cc))
				break
			}
			h := fc.tmp("rc")
			stmts = append(stmts, &ast.AssignStmt{Lhs: []ast.Expr{h}, Tok: token.DEFINE, Rhs: []ast.Expr{fc.mcCall("SelAddRecv", sel, args[0])}})
			get := &ast.CallExpr{Fun: &ast.SelectorExpr{X: h, Sel: ast.NewIdent("Get")}}
			lhs := st.Lhs
			if len(lhs) == 1 {
				lhs = []ast.Expr{lhs[0], ast.NewIdent("_")}
			}
			body = append(body, &ast.AssignStmt{Lhs: lhs, Tok: st.Tok, Rhs: []ast.Expr{get}})
			if st.Tok == token.DEFINE {
				// keep "declared and not used" away when the body ignores the variables
				for _, l := range lhs {
					if id, ok := l.(*ast.Ident); ok && id.Name != "_" {
						body = append(body, &ast.AssignStmt{Lhs: []ast.Expr{ast.NewIdent("_")}, Tok: token.ASSIGN, Rhs: []ast.Expr{ast.NewIdent(id.Name)}})
					}
				}
			}
		default:
			fc.unsup = append(fc.unsup, "select clause at "+fc.pos(cc))
		}
		sw.Body.List = append(sw.Body.List, &ast.CaseClause{List: []ast.Expr{lit}, Body: append(body, cc.Body...)})
	}
	return &ast.BlockStmt{List: append(stmts, sw)}
}

func fatalf(format string, a ...any) {
	fmt.Fprintf(os.Stderr, "instr: "+format+"\n", a...)
	os.Exit(3)
}
